#!/bin/sh
# tools/pull.sh <name> <pattern>...   copy the files a builder owns from its copy into /verif
# patterns are rsync include patterns relative to the verif root, e.g. 'lean/GraafVerif/Model/Bfs*'
set -e
src=/tmp/w/$1/verif
shift
for pat in "$@"; do
  ( cd "$src" && for f in $pat; do
      [ -e "$f" ] || continue
      mkdir -p "/verif/$(dirname "$f")"
      rsync -a "$f" "/verif/$(dirname "$f")/"
    done )
done
