#!/usr/bin/env python3
"""Source pins: which Rust function bodies each hand-written model was validated against.

A hand-written model is tied to the code by the correspondence run, whose reach is bounded by the
generators.  The pin closes the other side: the correspondence was established for THIS source text.
When the (comment-stripped, whitespace-normalised) body of a modelled function changes — or a
function / impl block appears or disappears in a pinned scope — the tie of every property that
models it is no longer established: the check then searches for a failing input (thorough + stress
generation) and, if it finds none, still reports the violation with `no-failing-input-found`,
naming the changed functions (brief: "a broken … correspondence is not by itself a violation …
when it finds none it still reports the violation").

  tools/srcpin.py --update            rewrite lean/model_map/pins.json from /repo (after validating the models)
  tools/srcpin.py --check Cxx [--repo DIR]   print the differences for one property (exit 1 if any)

Scopes (SCOPES below) select, per property, (file, regex on the qualified function key).  The key of
a function is `<impl header>::<fn name>` (e.g. `impl Union for AdjacencyMap::union`), `::<fn>` for
free functions; nested closures belong to their function.  `struct`/`derive` lines of the five
representations are pinned for C20 (derived Eq/Ord/Hash/Clone are structural only as long as they
are derived and the fields stay as modelled).
"""
import hashlib
import json
import os
import re
import sys

ROOT = os.path.dirname(os.path.dirname(os.path.abspath(__file__)))
PINS = os.path.join(ROOT, "lean", "model_map", "pins.json")

R = "src/repr/"
AL, AM, MX, EL, WL = (R + "adjacency_list/mod.rs", R + "adjacency_map/mod.rs", R + "adjacency_matrix/mod.rs",
                      R + "edge_list/mod.rs", R + "adjacency_list_weighted/mod.rs")
REPRS = [AL, AM, MX, EL, WL]
OP = "src/op/"


def every(files, pat):
    return [(f, pat) for f in files]


MUT = r"impl(<[^>]*>)? (AddArc|AddArcWeighted|RemoveArc|Arcs|ArcsWeighted|Vertices|Order|Size|HasArc|Empty)\b|impl AdjacencyMatrix::|ArcsIterator"
QRY = (r"impl(<[^>]*>)? (HasArc|HasEdge|HasWalk|ArcWeight|OutNeighbors|OutNeighborsWeighted|InNeighbors|Indegree|Outdegree|"
       r"DegreeSequence|IndegreeSequence|Order|Size|Vertices|Arcs|ArcsWeighted|RemoveArc)\b|InNeighborsIterator|ArcsIterator|impl AdjacencyMatrix::")
OPSQ = r"impl(<[^>]*>)? (Complement|Converse|Union|FilterVertices)\b|^::(merge_two_sorted|find_partition|union_sets_unsafe|merge_sorted|union_sets)"
PRED = r"impl(<[^>]*>)? (IsComplete|IsSemicomplete|IsTournament|IsRegular|IsSimple)\b"
GEN = r"impl(<[^>]*>)? (Biclique|Circuit|Complete|Cycle|Empty|Path|Star|Wheel)\b"
RND = r"impl(<[^>]*>)? (RandomTournament|RandomRecursiveTree|ErdosRenyi|Complement)\b"
CONV = r"impl(<[^>]*>)? From<|impl_from|^macro:"
PAR = (r"impl (Complement|Complete|DegreeSequence|IsSemicomplete|Union) for AdjacencyList|"
       r"impl (Union|RandomTournament|ErdosRenyi) for AdjacencyMap|^::(merge_two_sorted|find_partition|union_sets_unsafe)")
ALLFN = r"."

SCOPES = {
    "C01": every(REPRS, MUT),
    "C02": every(REPRS, QRY) + [(OP + f, ALLFN) for f in (
        "degree.rs", "indegree.rs", "outdegree.rs", "sinks.rs", "sources.rs", "semidegree_sequence.rs",
        "outdegree_sequence.rs", "is_isolated.rs", "is_pendant.rs", "has_walk.rs")],
    "C03": [("src/algo/dijkstra.rs", ALLFN), ("src/algo/dijkstra_dist.rs", ALLFN),
            (WL, r"impl(<[^>]*>)? (OutNeighborsWeighted|Order)\b")],
    "C04": [("src/algo/bfs.rs", ALLFN), ("src/algo/bfs_dist.rs", ALLFN)] + every(REPRS, r"impl(<[^>]*>)? (OutNeighbors|Order)\b"),
    "C05": [("src/algo/bfs_pred.rs", ALLFN), ("src/algo/dijkstra_pred.rs", ALLFN), ("src/algo/predecessor_tree.rs", ALLFN)]
           + every(REPRS, r"impl(<[^>]*>)? (OutNeighbors|OutNeighborsWeighted|Order)\b"),
    "C06": [("src/algo/dfs.rs", ALLFN), ("src/algo/dfs_dist.rs", ALLFN), ("src/algo/dfs_pred.rs", ALLFN)]
           + every(REPRS, r"impl(<[^>]*>)? (OutNeighbors|Order)\b"),
    "C07": [("src/algo/bellman_ford_moore.rs", ALLFN), (WL, r"impl(<[^>]*>)? (ArcsWeighted|Order|ContiguousOrder)\b")],
    "C08": [("src/algo/floyd_warshall.rs", ALLFN), ("src/algo/distance_matrix.rs", r"impl(<[^>]*>)? (Index|IndexMut)<|::new$"),
            (WL, r"impl(<[^>]*>)? (ArcsWeighted|Order|ContiguousOrder)\b")],
    "C09": [("src/algo/tarjan.rs", ALLFN)] + every(REPRS, r"impl(<[^>]*>)? (OutNeighbors|Vertices)\b"),
    "C10": [("src/algo/johnson_75.rs", ALLFN), ("src/algo/tarjan.rs", ALLFN),
            (AM, r"impl(<[^>]*>)? (FilterVertices|OutNeighbors|Vertices|Order)\b")],
    # the operations themselves + the primitives the matrix / edge-list versions are built from
    "C11": every(REPRS, OPSQ + r"|impl(<[^>]*>)? (AddArc|HasArc|Empty|Order|Arcs|Vertices|OutNeighbors)\b|impl AdjacencyMatrix::|ArcsIterator"),
    "C12": every(REPRS, PRED + r"|impl(<[^>]*>)? (HasArc|Arcs|Vertices|Order|Size|Indegree|Outdegree|OutNeighbors|Complete|Empty|AddArc)\b|impl AdjacencyMatrix::|ArcsIterator")
           + [(OP + f, ALLFN) for f in ("indegree.rs", "outdegree.rs", "semidegree_sequence.rs")] + [(OP + f, ALLFN) for f in (
        "is_balanced.rs", "is_symmetric.rs", "is_oriented.rs", "is_subdigraph.rs", "is_superdigraph.rs",
        "is_spanning_subdigraph.rs", "is_regular.rs", "is_simple.rs", "is_complete.rs", "is_semicomplete.rs", "is_tournament.rs")],
    # C13 has its own, finer inventory (tools/c13_inventory.py); here: every function of the files it anchors
    "C13": [],
    "C14": every([AL, AM, MX, EL], GEN + r"|impl(<[^>]*>)? (AddArc)\b|impl AdjacencyMatrix::") + [(WL, r"impl(<[^>]*>)? Empty\b")] + [("src/gen/" + f, ALLFN) for f in (
        "empty.rs", "complete.rs", "circuit.rs", "cycle.rs", "path.rs", "star.rs", "wheel.rs", "biclique.rs")],
    "C15": every([AL, AM, MX, EL], RND + r"|impl(<[^>]*>)? (AddArc|Empty)\b|impl AdjacencyMatrix::") + [("src/gen/prng/xoshiro256_star_star.rs", ALLFN), ("src/gen/prng/split_mix64.rs", ALLFN),
            ("src/gen/random_tournament.rs", ALLFN), ("src/gen/random_recursive_tree.rs", ALLFN), ("src/gen/erdos_renyi.rs", ALLFN)],
    "C16": every(REPRS, CONV + r"|impl(<[^>]*>)? (AddArc|AddArcWeighted|Empty|Arcs|ArcsWeighted|Order)\b|ArcsIterator"),
    "C17": [(AL, PAR), (AM, PAR)],
    "C18": [("src/algo/distance_matrix.rs", ALLFN)],
    "C19": [("src/algo/predecessor_tree.rs", ALLFN)],
    # every function that constructs or mutates a representation value ("regardless of the sequence of operations
    # (adds, removes, toggles, conversions, generators)") + the struct/derive lines + the set of impl headers
    "C20": every(REPRS, r"^struct:|^impls:|impl(<[^>]*>)? (AddArc|AddArcWeighted|RemoveArc|Clone|PartialEq|Eq|Hash|Ord|PartialOrd)\b|impl AdjacencyMatrix::|"
                 + GEN + "|" + OPSQ + "|" + CONV + "|" + RND),
}


def strip_comments(src):
    out, i, n = [], 0, len(src)
    while i < n:
        c = src[i]
        if src.startswith("//", i):
            j = src.find("\n", i)
            i = n if j < 0 else j
        elif src.startswith("/*", i):
            j = src.find("*/", i + 2)
            i = n if j < 0 else j + 2
        elif c == '"':
            j = i + 1
            while j < n and src[j] != '"':
                j += 2 if src[j] == "\\" else 1
            out.append(src[i:j + 1])
            i = j + 1
        elif c == "'" and i + 2 < n and (src[i + 2] == "'" or (src[i + 1] == "\\" and src.find("'", i + 2) - i <= 5)):
            j = src.find("'", i + 2 if src[i + 1] != "\\" else i + 3)
            out.append(src[i:j + 1])
            i = j + 1
        else:
            out.append(c)
            i += 1
    return "".join(out)


def norm(s):
    return re.sub(r"\s+", " ", s).strip()


def match_brace(src, i):
    depth = 0
    n = len(src)
    while i < n:
        c = src[i]
        if c == "{":
            depth += 1
        elif c == "}":
            depth -= 1
            if depth == 0:
                return i
        elif c == '"':
            i += 1
            while i < n and src[i] != '"':
                i += 2 if src[i] == "\\" else 1
        i += 1
    return n - 1


FN = re.compile(r"\b(?:pub(?:\([^)]*\))?\s+)?(?:const\s+)?(?:unsafe\s+)?fn\s+([A-Za-z_][A-Za-z0-9_]*)")


def functions(path):
    """{key: sha1 of normalised item text} for the non-test part of a Rust file."""
    raw = open(path).read()
    cut = raw.find("#[cfg(test)]")
    if cut >= 0:
        raw = raw[:cut]
    src = strip_comments(raw)
    items = {}

    def add(key, text):
        k, i = key, 2
        while k in items:
            k = f"{key}#{i}"
            i += 1
        items[k] = hashlib.sha1(norm(text).encode()).hexdigest()[:16]

    def scan(lo, hi, prefix):
        i = lo
        while i < hi:
            m_impl = re.compile(r"\bimpl\b").search(src, i, hi)
            m_fn = FN.search(src, i, hi)
            m_mac = re.compile(r"\bmacro_rules!\s*([A-Za-z_0-9]+)").search(src, i, hi)
            cands = [m for m in (m_impl, m_fn, m_mac) if m]
            if not cands:
                return
            m = min(cands, key=lambda x: x.start())
            if m is m_mac:
                b = src.find("{", m.end())
                e = match_brace(src, b)
                add(f"macro:{m.group(1)}", src[m.start():e + 1])
                i = e + 1
            elif m is m_impl:
                b = src.find("{", m.end())
                semi = src.find(";", m.end())
                if b < 0 or (0 <= semi < b):
                    i = m.end()
                    continue
                header = norm(src[m.start():b])
                header = re.sub(r"\s*where .*", "", header)
                e = match_brace(src, b)
                scan(b + 1, e, header)
                i = e + 1
            else:
                # function: signature up to the body brace (or `;` for trait method declarations)
                j = m.end()
                depth = 0
                while j < hi:
                    c = src[j]
                    if c in "(<[":
                        depth += 1
                    elif c in ")>]":
                        depth -= 1 if not (c == ">" and src[j - 1] == "-") else 0
                    elif c == "{" and depth <= 0:
                        break
                    elif c == ";" and depth <= 0:
                        break
                    j += 1
                if j >= hi or src[j] == ";":
                    i = j + 1
                    continue
                e = match_brace(src, j)
                add(f"{prefix}::{m.group(1)}", src[m.start():e + 1])
                i = e + 1

    scan(0, len(src), "")
    # struct definitions with their derive lines, and the list of impl headers (a NEW impl is a change too)
    for m in re.finditer(r"((?:#\[[^\]]*\]\s*)*)pub struct ([A-Za-z0-9_]+)[^{;]*\{", src):
        e = match_brace(src, m.end() - 1)
        add(f"struct:{m.group(2)}", src[m.start():e + 1])
    headers = sorted(set(re.sub(r"\s*where .*", "", norm(h)) for h in re.findall(r"\bimpl\b[^{;]*(?=\{)", src)))
    items["impls:"] = hashlib.sha1("|".join(headers).encode()).hexdigest()[:16]
    return items


def snapshot(repo, pid):
    out = {}
    for rel, pat in SCOPES.get(pid, []):
        path = os.path.join(repo, rel)
        if not os.path.exists(path):
            out[f"{rel}::<file missing>"] = "missing"
            continue
        rx = re.compile(pat)
        for key, h in functions(path).items():
            if rx.search(key):
                out[f"{rel} {key}"] = h
    return out


def diff(pid, repo):
    pins = json.load(open(PINS)).get(pid, {}) if os.path.exists(PINS) else {}
    now = snapshot(repo, pid)
    changed = sorted(k for k in now if k in pins and pins[k] != now[k])
    added = sorted(k for k in now if k not in pins)
    removed = sorted(k for k in pins if k not in now)
    return changed, added, removed, len(now)


def main():
    if "--update" in sys.argv:
        os.makedirs(os.path.dirname(PINS), exist_ok=True)
        pins = {pid: snapshot("/repo", pid) for pid in sorted(SCOPES)}
        json.dump(pins, open(PINS, "w"), indent=0, sort_keys=True)
        print({pid: len(v) for pid, v in pins.items()})
        return
    if "--check" in sys.argv:
        pid = sys.argv[sys.argv.index("--check") + 1]
        repo = sys.argv[sys.argv.index("--repo") + 1] if "--repo" in sys.argv else "/repo"
        changed, added, removed, n = diff(pid, repo)
        for k in changed:
            print("changed:", k)
        for k in added:
            print("new:", k)
        for k in removed:
            print("removed:", k)
        print(f"{n} pinned items in scope")
        sys.exit(1 if (changed or added or removed) else 0)


if __name__ == "__main__":
    main()
