#!/bin/sh
# tools/mkcopy.sh <name>: private working copy of /verif for a builder, at /tmp/w/<name>/verif
set -e
d=/tmp/w/$1/verif
mkdir -p "$d"
rsync -a --exclude .git --exclude replays --exclude harness-alt /verif/ "$d/"
echo "$d"
