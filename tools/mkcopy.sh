#!/bin/sh
# tools/mkcopy.sh <name>: private working copy of the COMMITTED /verif for a builder, at /tmp/w/<name>/verif
set -e
d=/tmp/w/$1/verif
rm -rf "$d"; mkdir -p "$d"
git -C /verif archive HEAD | tar -x -C "$d"
# warm build caches (best effort): compiled lean + cargo target of the main tree
[ -d /verif/lean/.lake ] && rsync -a /verif/lean/.lake "$d/lean/" 2>/dev/null || true
echo "$d"
