"""Which Lean theorem covers which unsafe site (used by `c13_inventory.py regen` for sites that have no
cover yet). First matching rule wins: (file substring, impl::fn regex, text regex, cover)."""
T = "GraafVerif.C13."
TIE_JOIN = ("tie-only: unwrap_unchecked on a thread join / Mutex::lock result (Ok unless a worker panicked; the "
            "workers contain no panicking operation) — exercised under ASan/Miri")
RULES = [
    # ---- unwrap_unchecked on join / lock / rng: runtime facts
    ("", r".*", r"join\(\)\.unwrap_unchecked|handle\.join\(\)", TIE_JOIN),
    ("adjacency_map", r"random_tournament", r"^\.unwrap_unchecked\(\)$", TIE_JOIN),
    ("adjacency_map", r"random_recursive_tree", r".*",
     "tie-only: rng.next().unwrap_unchecked() (the PRNG iterator never ends) and usize::try_from(u64).unwrap_unchecked() "
     "(usize is 64 bits on the checked target)"),
    ("adjacency_map", r"::<item>$", r".*", "n/a: import line (`use std::{mem::ManuallyDrop, ptr::read}`)"),
    ("adjacency_list", r"::complete$", r".*", TIE_JOIN),
    # ---- algorithms
    ("bellman_ford_moore.rs", r".*", r".*", T + "bellmanFordMoore_noUB (arcs valid: ArcsWF)"),
    ("bfs.rs", r".*", r".*", T + "bfs_noUB"),
    ("bfs_dist.rs", r"::distances$", r".*", T + "bfsDist_distances_noUB"),
    ("bfs_dist.rs", r".*", r".*", T + "bfsDist_noUB"),
    ("bfs_pred.rs", r"::cycles$", r".*", T + "bfsPred_cycles_noUB"),
    ("bfs_pred.rs", r"::predecessors$", r".*", T + "bfsPred_predecessors_noUB"),
    ("bfs_pred.rs", r"::shortest_path$", r".*", T + "bfsPred_shortestPath_noUB"),
    ("bfs_pred.rs", r".*", r".*", T + "bfsPred_noUB"),
    ("dfs.rs", r".*", r".*", T + "dfs_noUB"),
    ("dfs_dist.rs", r".*", r".*", T + "dfsDist_noUB"),
    ("dfs_pred.rs", r"::predecessors$", r".*", T + "dfsPred_predecessors_noUB"),
    ("dfs_pred.rs", r".*", r".*", T + "dfsPred_noUB"),
    ("dijkstra.rs", r".*", r".*", T + "dijkstra_noUB"),
    ("dijkstra_dist.rs", r"::distances$", r".*", T + "dijkstraDist_distances_noUB"),
    ("dijkstra_dist.rs", r".*", r".*", T + "dijkstraDist_noUB"),
    ("dijkstra_pred.rs", r"::predecessors$", r".*", T + "dijkstraPred_predecessors_noUB"),
    ("dijkstra_pred.rs", r"::shortest_path$", r".*", T + "dijkstraPred_shortestPath_noUB"),
    ("dijkstra_pred.rs", r".*", r".*", T + "dijkstraPred_noUB"),
    ("distance_matrix.rs", r".*", r".*", T + "distanceMatrixNew_noUB"),
    ("floyd_warshall.rs", r".*", r".*", T + "floydWarshall_noUB (arcs valid: ArcsWF; matrix from " + T + "distanceMatrixNew_noUB)"),
    ("johnson_75.rs", r".*", r".*", T + "johnson75_noUB (components = vertex lists of `a` closed under out_neighbors)"),
    ("xoshiro256_star_star.rs", r".*", r".*", T + "xoshiro_noUB"),
    # ---- AdjacencyList
    ("adjacency_list", r"::add_arc$", r".*", T + "adjList_addArc_noUB"),
    ("adjacency_list", r"ArcsIterator.*next$", r".*", T + "adjList_arcsIterator_noUB"),
    ("adjacency_list", r"::complement$", r".*", T + "adjList_complement_noUB, " + T + "chunks_tile"),
    ("adjacency_list", r"::converse$", r".*", T + "adjList_converse_noUB (RowsWF)"),
    ("adjacency_list", r"::degree_sequence$", r".*", T + "adjList_degreeSequence_noUB (RowsWF)"),
    ("adjacency_list", r"::has_walk$", r".*", T + "hasWalk_noUB"),
    ("adjacency_list", r"::indegree_sequence$", r".*", T + "adjList_indegreeSequence_noUB (RowsWF)"),
    ("adjacency_list", r"InNeighborsIterator.*next$", r".*", T + "adjList_inNeighborsIterator_noUB"),
    ("adjacency_list", r"::is_semicomplete$", r".*", T + "adjList_isSemicomplete_noUB"),
    ("adjacency_list", r"::is_tournament$", r".*", T + "adjList_isTournament_noUB"),
    ("adjacency_list", r"::out_neighbors$", r".*", T + "adjList_outNeighbors_noUB"),
    ("adjacency_list", r"::random_tournament$", r".*", T + "adjList_randomTournament_noUB"),
    ("adjacency_list", r"::merge_two_sorted$", r".*", T + "mergeTwoSorted_noUB'"),
    ("adjacency_list", r"::union$", r".*", T + "adjList_union_noUB, " + T + "steps_tile"),
    # ---- AdjacencyMap
    ("adjacency_map", r"::has_walk$", r".*", T + "hasWalk_noUB"),
    ("adjacency_map", r"::out_neighbors$", r".*", T + "adjMap_outNeighbors_noUB"),
    ("adjacency_map", r"::random_tournament$", r".*", T + "adjMap_randomTournament_noUB (get_unchecked); lock()/join() results: tie-only"),
    ("adjacency_map", r"::merge_two_sorted$", r".*", T + "mergeTwoSorted_noUB'"),
    ("adjacency_map", r"::union_sets_unsafe$", r".*", T + "mergeTwoSorted_noUB' (the unsafe fn only calls merge_two_sorted)"),
    ("adjacency_map", r"::find_partition$", r".*", T + "findPartition_noUB"),
    ("adjacency_map", r"::union$", r"set_len|ManuallyDrop|read\(",
     T + "mapUnion_linear_sorted (each entry read exactly once), " + T + "findPartition_monotone, " + T + "adjMap_union_noUB"),
    ("adjacency_map", r"::union$", r".*", T + "adjMap_union_noUB"),
    # ---- AdjacencyMatrix
    ("adjacency_matrix", r"::toggle$", r".*", T + "mxToggle_noUB, " + T + "mxEmpty_noUB"),
    ("adjacency_matrix", r"::add_arc$", r".*", T + "mxAddArc_noUB, " + T + "mxEmpty_noUB"),
    ("adjacency_matrix", r"ArcsIterator.*next$", r".*", T + "mxArcsIterator_noUB"),
]


# ---- second cover: the theorem of Thm/C13Gen.lean that proves the site safe ON THE SOURCE-REGENERATED definition
# (Model/AlgoGen{,2,3,4}.lean, tools/translate_algo.py), or why there is none.
G = "GraafVerif.C13Gen."
NOT = "not regenerated: "
JOIN_GEN = (G + "workers_do_not_panic (under the translator's run-to-completion reading of spawn/join/lock: the call "
            "returns for every input that passes the caller's asserts, so no worker panicked)")
RULES_GEN = [
    ("adjacency_map", r"::<item>$", r".*", "n/a: import line"),
    ("", r".*", r"join\(\)\.unwrap_unchecked|handle\.join\(\)", JOIN_GEN),
    ("adjacency_map", r"::random_tournament$", r"^\.unwrap_unchecked\(\)$", JOIN_GEN),
    ("adjacency_list", r"::complete$", r".*", JOIN_GEN),
    ("adjacency_map", r"::random_recursive_tree$", r".*", G + "adjMap_randomRecursiveTree_noUB"),
    ("bellman_ford_moore.rs", r".*", r".*", G + "bellmanFordMoore_noUB (g.WF; " + G + "weightedList_wf)"),
    ("bfs.rs", r".*", r".*", G + "bfs_noUB"),
    ("bfs_dist.rs", r"::distances$", r".*", G + "bfsDist_distances_noUB"),
    ("bfs_dist.rs", r".*", r".*", G + "bfsDist_noUB"),
    ("bfs_pred.rs", r"::(cycles|predecessors|shortest_path)$", r".*", G + "bfsPred_derived_noUB"),
    ("bfs_pred.rs", r".*", r".*", G + "bfsPred_noUB"),
    ("dfs.rs", r".*", r".*", G + "dfs_noUB"),
    ("dfs_dist.rs", r".*", r".*", G + "dfsDist_noUB"),
    ("dfs_pred.rs", r"::predecessors$", r".*", G + "dfsPred_predecessors_noUB"),
    ("dfs_pred.rs", r".*", r".*", G + "dfsPred_noUB"),
    ("dijkstra.rs", r".*", r".*", G + "dijkstra_noUB"),
    ("dijkstra_dist.rs", r"::distances$", r".*", G + "dijkstraDist_distances_noUB"),
    ("dijkstra_dist.rs", r".*", r".*", G + "dijkstraDist_noUB"),
    ("dijkstra_pred.rs", r"::(predecessors|shortest_path)$", r".*", G + "dijkstraPred_derived_noUB"),
    ("dijkstra_pred.rs", r".*", r".*", G + "dijkstraPred_noUB"),
    ("distance_matrix.rs", r".*", r".*", NOT + "set_len + ptr::write on an uninitialised buffer is outside the translator's subset"),
    ("floyd_warshall.rs", r".*", r".*", G + "floydWarshall_noUB (g.WF; " + G + "weightedList_wf)"),
    ("johnson_75.rs", r"::unblock$", r".*", G + "johnson75_state_noUB"),
    ("johnson_75.rs", r"::circuit$", r".*", G + "johnson75_circuit_noUB"),
    ("johnson_75.rs", r"::circuits$", r".*", G + "johnson75_noUB, " + G + "johnson75_state_noUB"),
    ("xoshiro256_star_star.rs", r".*", r".*", G + "xoshiro_noUB"),
    ("adjacency_list", r"::complement$", r".*", G + "adjList_complement_noUB"),
    ("adjacency_list", r"::converse$", r".*", G + "adjList_converse_noUB (AdjList.WF)"),
    ("adjacency_list", r"::degree_sequence$", r".*", G + "adjList_degreeSequence_noUB (AdjList.WF)"),
    ("adjacency_list", r"::is_semicomplete$", r".*", G + "adjList_isSemicomplete_noUB"),
    ("adjacency_list", r"::random_tournament$", r".*", G + "adjList_randomTournament_noUB"),
    ("adjacency_list", r"::merge_two_sorted$", r".*", G + "mergeTwoSorted_noUB"),
    ("adjacency_list", r"::union$", r".*", G + "adjList_union_noUB"),
    ("adjacency_list", r".*", r".*", NOT + "not a target of tools/translate_algo.py (hand model only)"),
    ("adjacency_map", r"::random_tournament$", r".*", G + "adjMap_randomTournament_noUB"),
    ("adjacency_map", r"::(merge_two_sorted|union_sets_unsafe)$", r".*", G + "mergeTwoSorted_noUB"),
    ("adjacency_map", r"::find_partition$", r".*", G + "findPartition_noUB"),
    ("adjacency_map", r"::union$", r"set_len|ManuallyDrop",
     G + "adjMap_union_noUB for the accesses; the DROP discipline (ManuallyDrop / set_len(0): each entry moved out exactly once) is "
     "INVISIBLE to the translator (ptr::read is read as a copy): hand model only, GraafVerif.C13.mapUnion_linear_sorted"),
    ("adjacency_map", r"::union$", r".*", G + "adjMap_union_noUB"),
    ("adjacency_map", r".*", r".*", NOT + "not a target of tools/translate_algo.py (hand model only)"),
    ("adjacency_matrix", r".*", r".*", NOT + "not a target of tools/translate_algo.py (hand model only)"),
]
