"""Which Lean theorem covers which unsafe site (used by `c13_inventory.py regen` for sites that have no
cover yet). First matching rule wins: (file substring, impl::fn regex, text regex, cover)."""
T = "GraafVerif.C13."
TIE_JOIN = ("tie-only: unwrap_unchecked on a thread join / Mutex::lock result (Ok unless a worker panicked; the "
            "workers contain no panicking operation) — exercised under ASan/Miri")
RULES = [
    # ---- unwrap_unchecked on join / lock / rng: runtime facts
    ("", r".*", r"join\(\)\.unwrap_unchecked|handle\.join\(\)", TIE_JOIN),
    ("adjacency_map", r"random_tournament", r"^\.unwrap_unchecked\(\)$", TIE_JOIN),
    ("adjacency_map", r"random_recursive_tree", r".*",
     "tie-only: rng.next().unwrap_unchecked() (the PRNG iterator never ends) and usize::try_from(u64).unwrap_unchecked() "
     "(usize is 64 bits on the checked target)"),
    ("adjacency_map", r"::<item>$", r".*", "n/a: import line (`use std::{mem::ManuallyDrop, ptr::read}`)"),
    ("adjacency_list", r"::complete$", r".*", TIE_JOIN),
    # ---- algorithms
    ("bellman_ford_moore.rs", r".*", r".*", T + "bellmanFordMoore_noUB (arcs valid: ArcsWF)"),
    ("bfs.rs", r".*", r".*", T + "bfs_noUB"),
    ("bfs_dist.rs", r"::distances$", r".*", T + "bfsDist_distances_noUB"),
    ("bfs_dist.rs", r".*", r".*", T + "bfsDist_noUB"),
    ("bfs_pred.rs", r"::cycles$", r".*", T + "bfsPred_cycles_noUB"),
    ("bfs_pred.rs", r"::predecessors$", r".*", T + "bfsPred_predecessors_noUB"),
    ("bfs_pred.rs", r"::shortest_path$", r".*", T + "bfsPred_shortestPath_noUB"),
    ("bfs_pred.rs", r".*", r".*", T + "bfsPred_noUB"),
    ("dfs.rs", r".*", r".*", T + "dfs_noUB"),
    ("dfs_dist.rs", r".*", r".*", T + "dfsDist_noUB"),
    ("dfs_pred.rs", r"::predecessors$", r".*", T + "dfsPred_predecessors_noUB"),
    ("dfs_pred.rs", r".*", r".*", T + "dfsPred_noUB"),
    ("dijkstra.rs", r".*", r".*", T + "dijkstra_noUB"),
    ("dijkstra_dist.rs", r"::distances$", r".*", T + "dijkstraDist_distances_noUB"),
    ("dijkstra_dist.rs", r".*", r".*", T + "dijkstraDist_noUB"),
    ("dijkstra_pred.rs", r"::predecessors$", r".*", T + "dijkstraPred_predecessors_noUB"),
    ("dijkstra_pred.rs", r"::shortest_path$", r".*", T + "dijkstraPred_shortestPath_noUB"),
    ("dijkstra_pred.rs", r".*", r".*", T + "dijkstraPred_noUB"),
    ("distance_matrix.rs", r".*", r".*", T + "distanceMatrixNew_noUB"),
    ("floyd_warshall.rs", r".*", r".*", T + "floydWarshall_noUB (arcs valid: ArcsWF; matrix from " + T + "distanceMatrixNew_noUB)"),
    ("johnson_75.rs", r".*", r".*", T + "johnson75_noUB (components = vertex lists of `a` closed under out_neighbors)"),
    ("xoshiro256_star_star.rs", r".*", r".*", T + "xoshiro_noUB"),
    # ---- AdjacencyList
    ("adjacency_list", r"::add_arc$", r".*", T + "adjList_addArc_noUB"),
    ("adjacency_list", r"ArcsIterator.*next$", r".*", T + "adjList_arcsIterator_noUB"),
    ("adjacency_list", r"::complement$", r".*", T + "adjList_complement_noUB, " + T + "chunks_tile"),
    ("adjacency_list", r"::converse$", r".*", T + "adjList_converse_noUB (RowsWF)"),
    ("adjacency_list", r"::degree_sequence$", r".*", T + "adjList_degreeSequence_noUB (RowsWF)"),
    ("adjacency_list", r"::has_walk$", r".*", T + "hasWalk_noUB"),
    ("adjacency_list", r"::indegree_sequence$", r".*", T + "adjList_indegreeSequence_noUB (RowsWF)"),
    ("adjacency_list", r"InNeighborsIterator.*next$", r".*", T + "adjList_inNeighborsIterator_noUB"),
    ("adjacency_list", r"::is_semicomplete$", r".*", T + "adjList_isSemicomplete_noUB"),
    ("adjacency_list", r"::is_tournament$", r".*", T + "adjList_isTournament_noUB"),
    ("adjacency_list", r"::out_neighbors$", r".*", T + "adjList_outNeighbors_noUB"),
    ("adjacency_list", r"::random_tournament$", r".*", T + "adjList_randomTournament_noUB"),
    ("adjacency_list", r"::merge_two_sorted$", r".*", T + "mergeTwoSorted_noUB'"),
    ("adjacency_list", r"::union$", r".*", T + "adjList_union_noUB, " + T + "steps_tile"),
    # ---- AdjacencyMap
    ("adjacency_map", r"::has_walk$", r".*", T + "hasWalk_noUB"),
    ("adjacency_map", r"::out_neighbors$", r".*", T + "adjMap_outNeighbors_noUB"),
    ("adjacency_map", r"::random_tournament$", r".*", T + "adjMap_randomTournament_noUB (get_unchecked); lock()/join() results: tie-only"),
    ("adjacency_map", r"::merge_two_sorted$", r".*", T + "mergeTwoSorted_noUB'"),
    ("adjacency_map", r"::union_sets_unsafe$", r".*", T + "mergeTwoSorted_noUB' (the unsafe fn only calls merge_two_sorted)"),
    ("adjacency_map", r"::find_partition$", r".*", T + "findPartition_noUB"),
    ("adjacency_map", r"::union$", r"set_len|ManuallyDrop|read\(",
     T + "mapUnion_linear_sorted (each entry read exactly once), " + T + "findPartition_monotone, " + T + "adjMap_union_noUB"),
    ("adjacency_map", r"::union$", r".*", T + "adjMap_union_noUB"),
    # ---- AdjacencyMatrix
    ("adjacency_matrix", r"::toggle$", r".*", T + "mxToggle_noUB, " + T + "mxEmpty_noUB"),
    ("adjacency_matrix", r"::add_arc$", r".*", T + "mxAddArc_noUB, " + T + "mxEmpty_noUB"),
    ("adjacency_matrix", r"ArcsIterator.*next$", r".*", T + "mxArcsIterator_noUB"),
]
