#!/usr/bin/env python3
"""Regenerate MANIFEST.json: a property is claimed when props/<id>.json exists with "claim": true (default true)
and evidence/<id>.json exists from a passing run."""
import json, os
ROOT = "/verif"
props = [json.loads(l) for l in open(f"{ROOT}/properties.jsonl")]
checks, na, claimed = [], [], []
for p in props:
    pid = p["id"]
    pf = f"{ROOT}/props/{pid}.json"
    ef = f"{ROOT}/evidence/{pid}.json"
    cfg = json.load(open(pf)) if os.path.exists(pf) else None
    if cfg is None or not cfg.get("claim", True) or not os.path.exists(ef):
        na.append({"property_id": pid, "reason": (cfg or {}).get("not_claimed_reason", "check under construction in this build session; not yet claimed")})
        continue
    claimed.append(pid)
    level = cfg.get("level", "proof")
    opens = cfg.get("open_statements", [])
    text = cfg.get("level_text") or (
        "Lean 4 theorems about a hand-written executable model of the code (listed with their axioms in the evidence), "
        "tied to /repo on every run by (i) a differential correspondence run of the real code (dev / release / sanitizer builds, "
        "CPU masks where threads matter) against the compiled model, with a proved spec-level oracle evaluated on the implementation's "
        "output, (ii) source pins on every modelled function body, and (iii) for all 20 properties models regenerated from the "
        "Rust source by translators and re-proved equal to the hand-written models. A broken proof / tie triggers a search for a failing input (stress tier)."
        + ((" PARTIAL — " if cfg.get("partial") else " Scope notes — ") + "; ".join(opens) if opens else ""))
    checks.append({
        "property_id": pid,
        "quick_cmd": f"./check {pid} --tier quick",
        "thorough_cmd": f"./check {pid} --tier thorough",
        "evidence_file": f"/verif/evidence/{pid}.json",
        "replay_cmd_template": f"./check {pid} --replay {{path}}",
        "engine": "lean4-model+correspondence",
        "level_claimed": {"category": level, "text": text, "design_ref": f"DESIGN.md §6 {pid}; docs/{pid}.md"},
        "level_note": cfg.get("level_note") or ("Trusted: Lean kernel; axioms propext/Classical.choice/Quot.sound only; the hand-written model (checked by the correspondence run, bounded by its generators); gharness/gdriver/orchestrator; Rust std containers as modelled. " + "; ".join(cfg.get("trusted_base", []))),
        "technique": cfg.get("technique", "Lean 4 proof over executable model + differential correspondence check + source pins" + (" + source-to-Lean translator" if pid in ("C01", "C02", "C03", "C04", "C05", "C06", "C07", "C08", "C09", "C10", "C11", "C12", "C13", "C14", "C15", "C16", "C17", "C18", "C19") else "")),
    })
m = {
    "version": 1,
    "setup_cmd": "cd /verif/lean && lake build && cd /verif/harness && export CARGO_NET_OFFLINE=true && cargo build --offline && CARGO_TARGET_DIR=target-release cargo build --offline --release && (RUSTFLAGS=-Zsanitizer=address CARGO_TARGET_DIR=target-asan cargo +nightly build --offline --target x86_64-unknown-linux-gnu || true)",
    "hooks": {"guard": "graaf_verif", "enable": "no hook needed: thread count is steered with taskset, allocation counting / panics are observed in the harness (RUSTFLAGS=--cfg graaf_verif reserved)",
              "baseline_off_cmd": "cd /repo && cargo test --workspace --no-fail-fast --offline", "source_commits": [], "add_only": True},
    "engines": [{"name": "lean4-model+correspondence", "path": "/verif/check", "serves_properties": claimed,
                 "kind_free_text": "Lean 4 model + theorems (lean/), Rust differential harness against /repo (harness/), python orchestrator (tools/orchestrate.py)"}],
    "checks": checks,
    "notes": "See DESIGN.md. known_findings.txt lists recorded findings and fixed defects.",
    "not_applicable": na,
}
json.dump(m, open(f"{ROOT}/MANIFEST.json", "w"), indent=1)
print("claimed:", claimed)
