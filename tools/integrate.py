#!/usr/bin/env python3
"""tools/integrate.py <builder> [--no-check] : pull the files a builder owns from /tmp/w/<builder>/verif
into /verif, build, run the checks of its properties, and commit when everything is green.
On failure the pulled files are reverted (unless --keep)."""
import glob, json, os, subprocess, sys, shutil

ROOT = "/verif"
owners = json.load(open(os.path.join(ROOT, "tools/owners.json")))
name = sys.argv[1]
keep = "--keep" in sys.argv
nocheck = "--no-check" in sys.argv
o = owners[name]
src = f"/tmp/w/{name}/verif"
pats = []
for t in o["tags"]:
    for d in ("Model", "Spec", "Proof"):
        pats.append(f"lean/GraafVerif/{d}/{t}*")
for i in o["ids"]:
    pats += [f"lean/GraafVerif/Thm/C{i}.lean", f"lean/GraafVerif/Driver/H{i}.lean", f"harness/src/ops/c{i}.rs",
             f"harness/src/ops/c{i}", f"props/C{i}.json", f"corpus/C{i}.txt", f"docs/C{i}*.md"]
pats += o.get("extra", [])
excl = set(o.get("exclude", []))
pulled = []
for p in pats:
    for f in glob.glob(os.path.join(src, p)):
        rel = os.path.relpath(f, src)
        if rel in excl:
            continue
        dst = os.path.join(ROOT, rel)
        os.makedirs(os.path.dirname(dst), exist_ok=True)
        if os.path.isdir(f):
            subprocess.run(["rsync", "-a", "--delete", f + "/", dst + "/"], check=True)
        else:
            shutil.copy(f, dst); os.utime(dst)
        pulled.append(rel)
print("pulled", len(pulled), "paths")

def revert():
    if keep:
        return
    subprocess.run(["git", "checkout", "HEAD", "--"] + [p for p in pulled if subprocess.run(["git", "ls-files", "--error-unmatch", p], cwd=ROOT, capture_output=True).returncode == 0], cwd=ROOT)
    subprocess.run(["git", "clean", "-fdq", "--"] + pulled, cwd=ROOT)

ok = True
ids = ["C" + i for i in o["ids"]]
r = subprocess.run(["cargo", "build", "--offline", "--quiet"], cwd=ROOT + "/harness", capture_output=True, text=True)
if r.returncode != 0:
    print("cargo build failed:\n", r.stderr[-3000:]); ok = False
if ok:
    r = subprocess.run(["lake", "build", "gdriver"], cwd=ROOT + "/lean", capture_output=True, text=True)
    if r.returncode != 0:
        print("lake build gdriver failed:\n", (r.stdout + r.stderr)[-3000:]); ok = False
if ok and not nocheck:
    for pid in ids:
        if not os.path.exists(f"{ROOT}/props/{pid}.json"):
            print(pid, "has no props yet; skipped"); continue
        r = subprocess.run(["./check", pid, "--tier", "quick"], cwd=ROOT, capture_output=True, text=True)
        print(pid, "exit", r.returncode, "\n", r.stdout[-1500:], r.stderr[-800:])
        if r.returncode != 0:
            ok = False
if not ok:
    revert()
    print("INTEGRATION FAILED" + ("" if keep else " (reverted)"))
    sys.exit(1)
subprocess.run(["python3", "tools/mkmanifest.py"], cwd=ROOT, check=True)
subprocess.run(["git", "add", "-A"], cwd=ROOT, check=True)
subprocess.run(["git", "commit", "-qm", f"integrate builder '{name}': " + ", ".join(ids)], cwd=ROOT)
print("INTEGRATED", name)
