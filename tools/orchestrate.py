#!/usr/bin/env python3
"""Orchestrator of the graaf verification checks (DESIGN.md §3).

  ./check Cxx [--tier quick|thorough] [--seed N] [--replay FILE]

Decision procedure per run:
  1. proof obligations: `lake build GraafVerif.Thm.Cxx` + axiom audit + source scan
  2. build the tie: cargo build of /verif/harness (path dep on /repo => current working tree)
     and `lake build gdriver`
  3. corpus first, then generated cases:  gharness gen | gharness eval | gdriver
  4. classification (PROPFAIL / MISMATCH / KNOWN / proof failure), shrinking, search
  5. evidence/Cxx.json

Exit 0 = held on everything explored; exit 1 + `VIOLATION property=<id> replay=<path>` otherwise.
"""
import argparse
import hashlib
import sys as _sys
import os as _os
_sys.path.insert(0, _os.path.dirname(_os.path.abspath(__file__)))
import json
import os
import re
import select
import shutil
import signal
import subprocess
import sys
import time

ROOT = os.path.dirname(os.path.dirname(os.path.abspath(__file__)))
LEAN = os.path.join(ROOT, "lean")
HARNESS = os.path.join(ROOT, "harness")
ALT_REPO = os.environ.get("GVERIF_REPO")  # testing aid: run the checks against a scratch copy of /repo
if ALT_REPO:
    # a patched copy of the harness crate whose path dependency points at the scratch repo
    _alt = os.path.join(ROOT, "harness-alt", hashlib.sha1(ALT_REPO.encode()).hexdigest()[:10])
    os.makedirs(_alt, exist_ok=True)
    subprocess.run(["rsync", "-a", "--delete", "--exclude", "target", HARNESS + "/", _alt + "/"], check=True)
    _m = open(os.path.join(_alt, "Cargo.toml")).read().replace('path = "/repo"', f'path = "{ALT_REPO}"')
    open(os.path.join(_alt, "Cargo.toml"), "w").write(_m)
    HARNESS = _alt
TARGET = os.environ.get("GVERIF_TARGET_DIR", os.path.join(HARNESS, "target"))
GHARNESS = os.path.join(TARGET, "debug", "gharness")
GDRIVER = os.path.join(LEAN, ".lake", "build", "bin", "gdriver")
ALLOWED_AXIOMS = {"propext", "Classical.choice", "Quot.sound"}
FORBIDDEN = re.compile(
    r"\bsorry\b|\badmit\b|^\s*axiom\s|native_decide|bv_decide|implemented_by|\bunsafe\s|maxHeartbeats\s+0\b|@\[extern|\bopaque\b",
    re.M,
)
NCPU = os.cpu_count() or 1
ENV = dict(os.environ, CARGO_NET_OFFLINE="true", RUST_BACKTRACE="0")


def log(msg):
    print(f"[check] {msg}", file=sys.stderr, flush=True)


def sh(cmd, cwd=None, timeout=3600, env=None):
    p = subprocess.run(cmd, cwd=cwd, env=env or ENV, capture_output=True, text=True, timeout=timeout)
    return p.returncode, p.stdout, p.stderr


# ----------------------------------------------------------------------------- values
def parse_values(s):
    toks = s.replace("[", " [ ").replace("]", " ] ").split()
    stack, cur = [], []
    for t in toks:
        if t == "[":
            stack.append(cur)
            cur = []
        elif t == "]":
            if not stack:
                return None
            up = stack.pop()
            up.append(cur)
            cur = up
        else:
            try:
                cur.append(int(t))
            except ValueError:
                cur.append(t)
    return cur if not stack else None


def show_value(v):
    if isinstance(v, list):
        return "[" + " ".join(show_value(x) for x in v) + "]"
    return str(v)


def show_line(vs):
    return " ".join(show_value(v) for v in vs)


# ----------------------------------------------------------------------------- config
def load_props(pid):
    path = os.path.join(ROOT, "props", f"{pid}.json")
    with open(path) as f:
        return json.load(f)


def known_findings(pid):
    out = {}
    path = os.path.join(ROOT, "known_findings.txt")
    if not os.path.exists(path):
        return out
    for line in open(path):
        line = line.strip()
        if not line.startswith("finding:"):
            continue
        fields = dict(kv.split("=", 1) for kv in line[len("finding:"):].split() if "=" in kv)
        if fields.get("property") == pid and "class" in fields:
            out[fields["class"]] = line
    return out


# ----------------------------------------------------------------------------- proofs
def strip_lean_comments(src):
    # remove nested block comments and line comments (string literals in this code base
    # never contain comment openers that matter for the forbidden-token scan)
    out, i, depth = [], 0, 0
    while i < len(src):
        if src.startswith("/-", i):
            depth += 1
            i += 2
        elif depth and src.startswith("-/", i):
            depth -= 1
            i += 2
        elif depth:
            i += 1
        elif src.startswith("--", i):
            j = src.find("\n", i)
            i = len(src) if j < 0 else j
        else:
            out.append(src[i])
            i += 1
    return "".join(out)


def source_scan():
    hits = []
    for base, _dirs, files in os.walk(os.path.join(LEAN, "GraafVerif")):
        for fn in files:
            if not fn.endswith(".lean"):
                continue
            p = os.path.join(base, fn)
            body = strip_lean_comments(open(p).read())
            for m in FORBIDDEN.finditer(body):
                hits.append(f"{os.path.relpath(p, LEAN)}: {m.group(0).strip()}")
    return hits


# theorems about the correspondence glue itself (value syntax of the line protocol), audited by every check
GLUE_MODULES = ["GraafVerif.Thm.Glue"]
GLUE_THEOREMS = ["GraafVerif.Glue." + t for t in ("line_roundtrip", "value_roundtrip_in_context", "unbalanced_rejected",
                                                  "numeral_read_back", "accessors_invert_encoders", "arcs_roundtrip",
                                                  "verdict_sound")]


def check_proofs(pid, props, thorough):
    """Returns (theorem records, failures:list[str])."""
    failures = []
    module = props.get("thm_module", f"GraafVerif.Thm.{pid}")
    modules = module if isinstance(module, list) else [module]
    modules = list(modules) + [m_ for m_ in GLUE_MODULES if m_ not in modules]
    module = " ".join(modules)
    theorems = list(props.get("theorems", [])) + GLUE_THEOREMS
    rc, out, err = sh(["lake", "build"] + modules, cwd=LEAN, timeout=3000)
    if rc != 0:
        failures.append(f"lake build {module} failed: " + (out + err)[-1500:])
    hits = source_scan()
    if hits:
        failures.append("forbidden tokens in lean sources: " + "; ".join(hits[:10]))
    recs = []
    if theorems and rc == 0:
        audit = os.path.join(LEAN, ".lake", f"audit_{pid}.lean")
        with open(audit, "w") as f:
            for m_ in modules:
                f.write(f"import {m_}\n")
            for t in theorems:
                f.write(f"#print axioms {t}\n")
        rc2, out2, err2 = sh(["lake", "env", "lean", audit], cwd=LEAN, timeout=1200)
        text = out2 + err2
        for t in theorems:
            m = re.search(r"'" + re.escape(t) + r"' depends on axioms: \[([^\]]*)\]", text, re.S)
            if m:
                axioms = [a.strip() for a in m.group(1).replace("\n", " ").split(",") if a.strip()]
            elif re.search(r"'" + re.escape(t) + r"' does not depend on any axioms", text):
                axioms = []
            else:
                axioms = None
            ok = axioms is not None and set(axioms) <= ALLOWED_AXIOMS
            recs.append({"name": t, "axioms": axioms, "ok": ok})
            if not ok:
                failures.append(f"theorem {t}: " + ("not found / did not check" if axioms is None else f"axioms {axioms}"))
        if thorough and rc == 0 and not failures:
            rc3, out3, err3 = sh(["lake", "env", "leanchecker"] + modules, cwd=LEAN, timeout=3000)
            if rc3 != 0:
                failures.append(f"leanchecker {module}: " + (out3 + err3)[-800:])
    elif theorems:
        recs = [{"name": t, "axioms": None, "ok": False} for t in theorems]
    return recs, failures


# ----------------------------------------------------------------------------- builds
# harness build variants: name -> (binary path, extra run environment)
VARIANTS = {"plain": (GHARNESS, {})}
HOST = "x86_64-unknown-linux-gnu"


def build_variant(name):
    """Build the harness (and with it graaf from /repo's working tree) in a sanitizer variant."""
    if name in VARIANTS:
        return None
    if name == "release":
        # plain optimised build: overflow checks off, debug_assert! compiled out
        tdir = os.path.join(HARNESS, "target-release")
        rc, out, err = sh(["cargo", "build", "--offline", "--quiet", "--release"], cwd=HARNESS, timeout=3000,
                          env=dict(ENV, CARGO_TARGET_DIR=tdir))
        if rc != 0:
            return "cargo build --release of the harness against /repo failed:\n" + (out + err)[-3000:]
        VARIANTS[name] = (os.path.join(tdir, "release", "gharness"), {})
        return None
    if name in ("asan", "asan-release"):
        tdir = os.path.join(HARNESS, "target-" + name)
        env = dict(ENV, CARGO_TARGET_DIR=tdir, RUSTFLAGS="-Zsanitizer=address")
        cmd = ["cargo", "+nightly", "build", "--offline", "--quiet", "--target", HOST]
        prof = "debug"
        if name == "asan-release":
            cmd.append("--release")
            prof = "release"
        rc, out, err = sh(cmd, cwd=HARNESS, timeout=3000, env=env)
        if rc != 0:
            return f"cargo build ({name}) of the harness against /repo failed:\n" + (out + err)[-3000:]
        VARIANTS[name] = (os.path.join(tdir, HOST, prof, "gharness"),
                          {"ASAN_OPTIONS": "detect_leaks=0:abort_on_error=1:allocator_may_return_null=1"})
        return None
    return f"unknown harness variant {name}"


def load_plugin(pid):
    """Optional per-property hooks: tools/plugins/<pid>.py with any of
    pre_checks(ctx) -> [failure strings]; extra_records(ctx, inputs) -> [record dicts]."""
    path = os.path.join(ROOT, "tools", "plugins", f"{pid}.py")
    if not os.path.exists(path):
        return None
    import importlib.util
    spec = importlib.util.spec_from_file_location(f"plugin_{pid}", path)
    mod = importlib.util.module_from_spec(spec)
    spec.loader.exec_module(mod)
    return mod


def build_tie(props):
    env = dict(ENV, CARGO_TARGET_DIR=TARGET)
    cmd = ["cargo", "build", "--offline", "--quiet"]
    rc, out, err = sh(cmd, cwd=HARNESS, timeout=3000, env=env)
    if rc != 0:
        return "cargo build of the harness against /repo failed:\n" + (out + err)[-3000:]
    for v in set(props.get("variants_quick", []) + props.get("variants_thorough", [])) - {"plain"}:
        if v in props.get("variants_" + props.get("_tier", "quick"), []):
            e = build_variant(v)
            if e:
                return e
    rc, out, err = sh(["lake", "build", "gdriver"], cwd=LEAN, timeout=3000)
    if rc != 0:
        return "lake build gdriver failed:\n" + (out + err)[-3000:]
    return None


# ----------------------------------------------------------------------------- running
def gen_inputs(pid, seed, tier):
    rc, out, err = sh([GHARNESS, "gen", pid, str(seed), tier], timeout=1800)
    if rc != 0:
        raise RuntimeError(f"gharness gen failed: {err[-500:]}")
    return [l for l in out.splitlines() if l.strip() and not l.startswith("#")]


def corpus_inputs(pid):
    p = os.path.join(ROOT, "corpus", f"{pid}.txt")
    if not os.path.exists(p):
        return []
    return [l.strip() for l in open(p) if l.strip() and not l.startswith("#")]


def run_eval(inputs, mask=None, stall_s=45, variant="plain"):
    """Run the real code on `inputs`. Returns (t, outputs) with one output line per input.
    A crash / stall of the harness is attributed to the first unanswered input, which gets
    the synthetic output `fault <what>`; the harness is restarted on the rest."""
    outputs = []
    t_seen = None
    pos = 0
    restarts = 0
    prefix = []
    if mask is not None and mask < NCPU and shutil.which("taskset"):
        prefix = ["taskset", "-c", f"0-{mask - 1}"]
    while pos < len(inputs):
        chunk = inputs[pos:]
        vbin, venv = VARIANTS[variant]
        proc = subprocess.Popen(prefix + [vbin, "eval"], stdin=subprocess.PIPE, stdout=subprocess.PIPE,
                                stderr=subprocess.DEVNULL, env=dict(ENV, **venv))
        data = ("\n".join(chunk) + "\n").encode()
        # feed stdin from a thread-less writer: write in a forked helper via os.fork is overkill;
        # use a non-blocking approach: small inputs fit a pipe, large ones need a writer thread.
        import threading

        def feed(p=proc, d=data):
            try:
                p.stdin.write(d)
                p.stdin.close()
            except BrokenPipeError:
                pass

        th = threading.Thread(target=feed, daemon=True)
        th.start()
        got = []
        buf = b""
        last = time.time()
        fd = proc.stdout.fileno()
        what = None
        while True:
            r, _, _ = select.select([fd], [], [], 1.0)
            if r:
                b = os.read(fd, 1 << 16)
                if not b:
                    break
                buf += b
                last = time.time()
                while b"\n" in buf:
                    line, buf = buf.split(b"\n", 1)
                    s = line.decode(errors="replace")
                    if s.startswith("@t "):
                        t_seen = int(s[3:])
                    else:
                        got.append(s)
            elif time.time() - last > stall_s:
                what = "timeout"
                proc.kill()
                break
        proc.wait()
        outputs.extend(got)
        pos += len(got)
        if pos < len(inputs) and (what or proc.returncode != 0 or len(got) < len(chunk)):
            if what is None:
                rc = proc.returncode
                what = signal.Signals(-rc).name if rc < 0 else f"exit{rc}"
            culprit = inputs[pos]
            outputs.append(f"{culprit} => fault {what}")
            pos += 1
            restarts += 1
            if what == "timeout":
                # a hang costs a full stall period per line: one is decisive (it is re-tried once, alone, by evaluate)
                break
            if restarts >= 3:
                # three crashes / hangs are decisive; do not spend hours on the rest (they stay unevaluated)
                break
    return t_seen, outputs


def run_driver(t, case_lines):
    """Verdict lines for case lines. A driver crash (stack overflow, …) is isolated by bisection and the
    culprit gets a BADLINE verdict (a machinery error is never a silent pass)."""
    if not case_lines:
        return []
    data = f"@t {t}\n" + "\n".join(case_lines) + "\n"
    p = subprocess.run([GDRIVER], input=data, capture_output=True, text=True, timeout=3600)
    vs = p.stdout.splitlines()
    if len(vs) == len(case_lines):
        return vs
    if len(case_lines) == 1:
        return [f"BADLINE 0 - gdriver-crashed rc={p.returncode}"]
    mid = len(case_lines) // 2
    return run_driver(t, case_lines[:mid]) + run_driver(t, case_lines[mid:])


def parse_verdict(v):
    parts = v.split(" ", 3)
    while len(parts) < 4:
        parts.append("")
    status, nt, tags, detail = parts
    return status, nt == "1", ([] if tags in ("-", "") else tags.split(",")), detail


def evaluate(inputs, mask=None, variant="plain"):
    """inputs -> list of dicts {input, case, status, nt, tags, detail, t}"""
    t, outs = run_eval(inputs, mask, variant=variant)
    t = t or 1
    # a stall under heavy machine load is not a hang: retry a timed-out line once, alone, with a long limit
    retried = 0
    for i_, o_ in enumerate(outs):
        if o_.endswith(" => fault timeout") and retried < 2:
            retried += 1
            _t2, again = run_eval([inputs[i_]], mask, stall_s=100, variant=variant)
            if again:
                outs[i_] = again[0]
    res = []
    normal, idx = [], []
    for i, o in enumerate(outs):
        if " => fault " in o:
            res.append({"input": inputs[i], "case": o, "status": "PROPFAIL", "nt": True, "tags": ["fault"],
                        "detail": "the real code crashed or hung: " + o.split(" => ", 1)[1], "t": t})
        else:
            res.append(None)
            normal.append(o)
            idx.append(i)
    # shard the driver over cores for big runs
    verdicts = [None] * len(normal)
    if len(normal) > 4000 or (len(normal) > 24 and sum(len(x) for x in normal) > 400_000):
        # many cases, or few but big ones (stress tier): shard the driver over the cores
        k = min(NCPU, 8) if len(normal) > 4000 else min(NCPU, max(2, len(normal) // 3))
        size = (len(normal) + k - 1) // k
        procs = []
        for s in range(0, len(normal), size):
            part = normal[s:s + size]
            p = subprocess.Popen([GDRIVER], stdin=subprocess.PIPE, stdout=subprocess.PIPE, text=True)
            procs.append((s, part, p))
        import threading
        outs_d = {}

        def comm(s, part, p):
            o, _ = p.communicate(f"@t {t}\n" + "\n".join(part) + "\n")
            vs_ = o.splitlines()
            outs_d[s] = vs_ if len(vs_) == len(part) else run_driver(t, part)

        ths = [threading.Thread(target=comm, args=a) for a in procs]
        [x.start() for x in ths]
        [x.join() for x in ths]
        for s, part, _p in procs:
            vs = outs_d[s]
            if len(vs) != len(part):
                raise RuntimeError("gdriver shard answered a wrong number of lines")
            verdicts[s:s + len(part)] = vs
    else:
        verdicts = run_driver(t, normal)
    for j, v in enumerate(verdicts):
        status, nt, tags, detail = parse_verdict(v)
        res[idx[j]] = {"input": inputs[idx[j]], "case": normal[j], "status": status, "nt": nt, "tags": tags,
                       "detail": detail, "t": t}
    return [r for r in res if r is not None]


# ----------------------------------------------------------------------------- shrinking
def shrink_candidates(vs):
    """Yield structurally smaller variants of a parsed input line (list of values)."""
    def rec(v, path):
        if isinstance(v, list):
            for i in range(len(v)):
                yield path + [i], "del"
            for i, x in enumerate(v):
                yield from rec(x, path + [i])
        elif isinstance(v, int) and v > 0:
            yield path, "zero"
            if v > 1:
                yield path, "half"
                yield path, "dec"

    def apply(v, path, act):
        if not path:
            if act == "zero":
                return 0
            if act == "half":
                return v // 2
            if act == "dec":
                return v - 1
            return v
        i = path[0]
        if len(path) == 1 and act == "del":
            return v[:i] + v[i + 1:]
        return v[:i] + [apply(v[i], path[1:], act)] + v[i + 1:]

    args = vs[1:]
    for path, act in rec(args, []):
        if len(path) == 1 and act == "del":
            continue  # never drop a whole argument
        yield [vs[0]] + apply(args, path, act)


def shrink(rec, mask, budget=40):
    variant = rec.get("variant", "plain")
    """Greedy shrinking that keeps the verdict status. Bounded number of harness round trips."""
    want = rec["status"]
    best = rec
    if "fault timeout" in rec.get("detail", ""):
        return rec  # every shrinking probe of a hanging input costs a stall timeout
    t_start = time.time()
    for _ in range(budget):
        if time.time() - t_start > 45:
            break
        vs = parse_values(best["input"])
        if vs is None:
            break
        cands = []
        seen = set()
        # long lines: fewer candidates per round (each one is evaluated by harness + driver)
        cap = 400 if len(best["input"]) < 5_000 else (60 if len(best["input"]) < 100_000 else 12)
        for c in shrink_candidates(vs):
            s = show_line(c)
            if s not in seen and s != best["input"]:
                seen.add(s)
                cands.append(s)
            if len(cands) >= cap:
                break
        if not cands:
            break
        try:
            rs = evaluate(cands, mask, variant)
            for r_ in rs:
                r_["variant"] = variant
        except Exception:
            break
        hit = next((r for r in rs if r["status"] == want and len(r["input"]) < len(best["input"])), None)
        if hit is None:
            hit = next((r for r in rs if r["status"] == want and r["input"] < best["input"] and len(r["input"]) <= len(best["input"])), None)
        if hit is None:
            break
        best = hit
    return best


def isolate(rec, inputs, mask):
    """A verdict can depend on EARLIER calls in the same harness process (thread-local / static state in the code
    under test, e.g. a scratch buffer with a wrapping epoch).  If the failing line does not fail when evaluated
    alone, return the shortest tried window of the input stream that ends in it and reproduces the verdict
    ([] if none of the windows does); None if the line fails on its own."""
    variant = rec.get("variant", "plain")
    try:
        alone = evaluate([rec["input"]], mask, variant)
        if alone and alone[-1]["status"] == rec["status"]:
            return None
        idxs = [i for i, l in enumerate(inputs) if l == rec["input"]]
        for idx in idxs[:3]:
            for w in (300, 3_000, 30_000, len(inputs)):
                window = inputs[max(0, idx + 1 - w): idx + 1]
                rs = evaluate(window, mask, variant)
                if rs and rs[-1]["status"] == rec["status"]:
                    return window
                if w >= idx + 1:
                    break
    except Exception:
        pass
    return []


# ----------------------------------------------------------------------------- main flow
def write_replay(pid, n, payload):
    d = os.path.join(ROOT, "replays-alt" if ALT_REPO else "replays")
    os.makedirs(d, exist_ok=True)
    p = os.path.join(d, f"{pid}-{n}.json")
    with open(p, "w") as f:
        json.dump(payload, f, indent=1)
    return p


def main():
    ap = argparse.ArgumentParser()
    ap.add_argument("pid")
    ap.add_argument("--tier", default=os.environ.get("VERIF_TIER", "quick"))
    ap.add_argument("--seed", type=int, default=int(os.environ.get("VERIF_SEED", "20260927")))
    ap.add_argument("--replay")
    ap.add_argument("--no-proofs", action="store_true", help="debug: skip step 1")
    a = ap.parse_args()
    pid, tier, seed = a.pid, a.tier, a.seed
    if tier not in ("quick", "thorough"):
        tier = "quick"
    thorough = tier == "thorough"
    t0 = time.time()
    props = load_props(pid)
    props["_tier"] = tier
    plugin = load_plugin(pid)
    ctx = {"pid": pid, "tier": tier, "seed": seed, "root": ROOT, "lean": LEAN, "harness": HARNESS, "repo": ALT_REPO or "/repo",
           "props": props, "evaluate": evaluate, "variants": VARIANTS, "build_variant": build_variant, "sh": sh, "log": log}
    kf = known_findings(pid)
    masks = props.get("masks_thorough" if thorough else "masks_quick") or [None]
    repeat = props.get("repeat_thorough" if thorough else "repeat_quick", 1)

    # ---- replay mode
    if a.replay:
        payload = json.load(open(a.replay))
        err = build_tie(props)
        if err:
            print(err)
            sys.exit(2)
        lines = payload.get("inputs") or [payload["input"]]
        rv = payload.get("variant", "plain")
        if rv != "plain":
            props["variants_" + tier] = [rv]
            e = build_variant(rv)
            if e:
                print(e)
                sys.exit(2)
        rs = evaluate(lines, payload.get("mask"), rv)
        if payload.get("history_dependent") and payload.get("inputs"):
            rs = rs[-1:]  # the earlier lines of the window only set the state up
        bad = [r for r in rs if r["status"] != "OK"]
        for r in rs:
            print(f"{r['status']} {r['detail']}\n   {r['case']}")
        if bad:
            print(f"VIOLATION property={pid} replay={a.replay}")
            sys.exit(1)
        sys.exit(0)

    # ---- 0. models regenerated from /repo's source (translator ties), before the proofs are re-checked
    regen_notes = []
    if plugin is not None and hasattr(plugin, "pre_build"):
        regen_notes = plugin.pre_build(ctx) or []
        for n_ in regen_notes:
            log(f"{pid}: {n_}")

    # ---- 1. proofs
    thm_recs, proof_failures = ([], []) if a.no_proofs else check_proofs(pid, props, thorough)
    proof_failures = [f"translator: {x}" for x in regen_notes if x.startswith("ERROR")] + proof_failures
    log(f"{pid}: {sum(1 for r in thm_recs if r['ok'])}/{len(thm_recs)} property theorems check" +
        (f"; FAILURES: {proof_failures}" if proof_failures else ""))

    # ---- 2. tie
    err = build_tie(props)
    if err:
        # the harness no longer builds against /repo: the correspondence itself is broken
        path = write_replay(pid, 0, {"property": pid, "kind": "tie-build", "detail": err})
        write_evidence(pid, tier, seed, props, thm_recs, [], t0, violations=1, notes=["tie did not build"])
        print(err[-2000:])
        print(f"VIOLATION property={pid} replay={path} no-failing-input-found")
        sys.exit(1)

    # ---- 3. corpus + generated cases
    corpus = corpus_inputs(pid)
    inputs = corpus + gen_inputs(pid, seed, tier)
    if not inputs:
        raise SystemExit(f"{pid}: no inputs generated")
    all_recs = []
    variants = props.get("variants_" + tier) or ["plain"]
    for variant in variants:
        for mask in masks:
            for _rep in range(repeat):
                rs = evaluate(inputs, mask, variant)
                for r in rs:
                    r["mask"] = mask
                    r["variant"] = variant
                    if variant != "plain":
                        r["tags"] = r["tags"] + ["variant=" + variant]
                all_recs.extend(rs)
    # source pins: the correspondence was established for this source text (tools/srcpin.py)
    try:
        import srcpin
        ch_, ad_, rm_, npins = srcpin.diff(pid, ALT_REPO or "/repo")
    except Exception as e_:  # a broken pin tool is a broken tie, never a silent pass
        ch_, ad_, rm_, npins = [f"srcpin failed: {e_}"], [], [], 0
    pin_report = {"pinned_items": npins, "changed": ch_, "new": ad_, "removed": rm_}
    if ch_ or ad_ or rm_:
        proof_failures = proof_failures + [
            "source pin: the modelled code changed since the model was validated against it: "
            + "; ".join([f"changed {k}" for k in ch_] + [f"new {k}" for k in ad_] + [f"removed {k}" for k in rm_])[:1500]]
    if plugin is not None and hasattr(plugin, "pre_checks"):
        # source-level ties regenerated from /repo on every run (e.g. the C13 site inventory)
        proof_failures = proof_failures + [f"pre-check: {x}" for x in plugin.pre_checks(ctx)]
    if plugin is not None and hasattr(plugin, "extra_records"):
        all_recs.extend(plugin.extra_records(ctx, inputs))
    log(f"{pid}: {len(all_recs)} evaluations over masks {masks}, variants {variants}")

    # ---- 4. classification
    badlines = [r for r in all_recs if r["status"] == "BADLINE"]
    propfails = [r for r in all_recs if r["status"] == "PROPFAIL"]
    mismatches = [r for r in all_recs if r["status"] == "MISMATCH"]
    knowns = [r for r in all_recs if r["status"] == "KNOWN"]
    unlisted_known = [r for r in knowns if r["detail"].split(" ", 1)[0] not in kf]
    propfails += unlisted_known
    knowns = [r for r in knowns if r["detail"].split(" ", 1)[0] in kf]
    violations = []
    notes = []

    if badlines:
        # machinery error: never silently pass
        r = badlines[0]
        path = write_replay(pid, 0, {"property": pid, "kind": "badline", "input": r["input"], "case": r["case"],
                                     "detail": r["detail"], "mask": r.get("mask")})
        violations.append((path, " no-failing-input-found"))
        notes.append(f"{len(badlines)} BADLINE verdicts (protocol error), first: {r['case'][:200]}")

    if propfails:
        hist = isolate(propfails[0], inputs, propfails[0].get("mask"))
        r = propfails[0] if hist else shrink(propfails[0], propfails[0].get("mask"))
        payload = {"property": pid, "kind": "propfail", "input": r["input"], "case": r["case"],
                   "verdict": r["status"] + " " + r["detail"], "mask": propfails[0].get("mask"), "variant": propfails[0].get("variant", "plain"),
                   "unshrunk_input": propfails[0]["input"], "count": len(propfails)}
        if hist is not None:
            payload["history_dependent"] = ("the failing line does not fail when evaluated alone: its verdict depends on the earlier calls in the "
                                            "same process" + ("; `inputs` is a window of the input stream ending in it that reproduces the verdict "
                                                              "(replay evaluates the whole window in one process)" if hist else
                                                              "; no tried window of the stream reproduced it — re-run the check with the same --seed and --tier"))
            if hist:
                payload["inputs"] = hist
        path = write_replay(pid, 1, payload)
        violations.append((path, ""))
    elif mismatches or proof_failures:
        # search for a failing input at thorough size with the oracle only
        found = None
        budget_s = 300 if thorough else 90
        ts = time.time()
        k = 0
        while time.time() - ts < budget_s and found is None:
            k += 1
            extra = gen_inputs(pid, seed + 7919 * k, "stress" if k == 1 else "thorough")
            search_masks = [None] if len(masks) <= 1 else sorted(masks, key=lambda m_: (m_ not in (3, 16), m_ or 0))
            for mask in search_masks:
                if time.time() - ts > budget_s and mask is not search_masks[0]:
                    break
                rs = evaluate(extra, mask)
                hit = next((r for r in rs if r["status"] == "PROPFAIL" or
                            (r["status"] == "KNOWN" and r["detail"].split(" ", 1)[0] not in kf)), None)
                if hit:
                    hit["mask"] = mask
                    found = hit
                    break
        if found:
            r = shrink(found, found.get("mask"))
            path = write_replay(pid, 1, {"property": pid, "kind": "propfail", "input": r["input"], "case": r["case"],
                                         "verdict": r["status"] + " " + r["detail"], "mask": found.get("mask"),
                                         "found_by": "search after broken correspondence/proof"})
            violations.append((path, ""))
        else:
            if mismatches:
                r = shrink(mismatches[0], mismatches[0].get("mask"))
                path = write_replay(pid, 2, {"property": pid, "kind": "correspondence", "op": r["input"].split(" ", 1)[0],
                                             "input": r["input"], "case": r["case"], "model_output": r["detail"],
                                             "mask": mismatches[0].get("mask"), "count": len(mismatches),
                                             "searched_s": round(time.time() - ts, 1),
                                             "note": "model and implementation disagree; no input violating the property was found"})
                violations.append((path, " no-failing-input-found"))
            if proof_failures:
                path = write_replay(pid, 3, {"property": pid, "kind": "proof", "failures": proof_failures,
                                             "theorems": thm_recs,
                                             "note": "a property theorem / the audit no longer checks; no failing input was found"})
                violations.append((path, " no-failing-input-found"))

    # known findings: one line per class
    by_class = {}
    for r in knowns:
        by_class.setdefault(r["detail"].split(" ", 1)[0], []).append(r)
    for cls, rs in sorted(by_class.items()):
        ex = min(rs, key=lambda r: len(r["input"]))
        print(f"KNOWN-FINDING: property={pid} class={cls} {len(rs)} case(s), e.g. `{ex['case'][:300]}` ({ex['detail'][:200]})")

    # ---- 5. evidence
    write_evidence(pid, tier, seed, props, thm_recs, all_recs, t0, violations=len(violations), notes=notes,
                   extra={"mismatches": len(mismatches), "propfails": len(propfails), "known_finding_cases": len(knowns),
                          "proof_failures": proof_failures, "corpus_cases": len(corpus), "masks": masks, "repeat": repeat,
                          "source_pins": pin_report})
    for path, suffix in violations:
        print(f"VIOLATION property={pid} replay={path}{suffix}")
    if violations:
        sys.exit(1)
    log(f"{pid}: held on everything explored ({time.time() - t0:.1f}s)")
    sys.exit(0)


def write_evidence(pid, tier, seed, props, thm_recs, recs, t0, violations, notes=None, extra=None):
    evdir = os.path.join(ROOT, "evidence-alt" if ALT_REPO else "evidence")  # scratch-repo runs never touch the real evidence
    os.makedirs(evdir, exist_ok=True)
    distinct_nt = len({hashlib.sha1(r["case"].encode()).digest() for r in recs if r["nt"]})
    dist = {}
    for r in recs:
        for tg in r["tags"]:
            dist[tg] = dist.get(tg, 0) + 1
        dist["t=" + str(r.get("t"))] = dist.get("t=" + str(r.get("t")), 0) + 1
    ops = {}
    for r in recs:
        op = r["input"].split(" ", 1)[0]
        ops[op] = ops.get(op, 0) + 1
    samples = []
    seen_ops = set()
    for r in recs:
        op = r["input"].split(" ", 1)[0]
        if r["nt"] and op not in seen_ops and len(r["case"]) < 600:
            seen_ops.add(op)
            samples.append(r["case"])
    if not samples and recs:
        samples = [recs[0]["case"][:600]]
    low = [f"{tg}: {c}/{len(recs)}" for tg, c in sorted(dist.items()) if recs and c / len(recs) < 0.05 and not tg.startswith("t=")]
    ok_thms = sum(1 for r in thm_recs if r["ok"])
    cov = {
        "obligations": len(thm_recs),
        "discharged": ok_thms,
        "checker_cmd": f"cd {LEAN} && lake build {' '.join(props['thm_module']) if isinstance(props.get('thm_module'), list) else props.get('thm_module', 'GraafVerif.Thm.' + pid)} {' '.join(GLUE_MODULES)} && lake env lean .lake/audit_{pid}.lean  (#print axioms of every property theorem; thorough: + lake env leanchecker)",
        "trusted_base": props.get("trusted_base", []) + [
            "Lean 4.33.0 kernel; axioms allowed: propext, Classical.choice, Quot.sound (audited per theorem on every run)",
            "hand-written Lean model tied to /repo by the correspondence run reported below (gharness = real code, gdriver = compiled model)",
        ],
        "theorems": thm_recs,
        "open_statements": props.get("open_statements", []),
        "evaluations": len(recs),
        "distinct_nontrivial": distinct_nt,
        "rule": props.get("rule", ""),
        "samples": samples[:8],
        "traces_validated_against_impl": sum(1 for r in recs if r["status"] == "OK"),
        "ops": ops,
        "distribution": dist,
        "low_frequency_tags_warning": low,
        "exhaustive": False,
    }
    if extra:
        cov.update(extra)
    if notes:
        cov["notes"] = notes
    ev = {
        "property_id": pid,
        "tier": tier,
        "seed": seed,
        "level": props.get("level", "proof"),
        "coverage": cov,
        "assumptions": props.get("assumptions", []),
        "wall_s": round(time.time() - t0, 2),
        "violations": violations,
    }
    with open(os.path.join(evdir, f"{pid}.json"), "w") as f:
        json.dump(ev, f, indent=1)


if __name__ == "__main__":
    main()
