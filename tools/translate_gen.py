#!/usr/bin/env python3
"""Translate (A) the closed-form deterministic generators `impl Biclique/Circuit/Complete/Cycle/
Empty/Path/Star/Wheel for <Repr>` of `src/repr/*/mod.rs` (+ the default methods `trivial`, `claw`,
`utility` of `src/gen/{empty,biclique}.rs`) and (B) the query methods of
`src/algo/distance_matrix.rs` into Lean definitions (DESIGN.md §4.6, tag GenGen).

  tools/translate_gen.py [--repo /repo] [--out lean/GraafVerif/Model/GenGen.lean]
                         [--check] [--write-docs [docs/GenGen.md]] [--list]

Same contract as tools/translate_repr.py, whose machinery (tokenizer, parser, typed compiler,
renderer) is imported and EXTENDED IN THIS PROCESS ONLY — translate_repr.py and its output are
untouched.  Exit codes: 0 ok; 2 a TARGETED method left the supported subset; 3 with --check when
the file on disk differed.

Constructs added to the subset of translate_repr.py:
  expressions  Self { f: e, g } | vec![x; n] | [a, b, c] | if c { a } else { b } | a..=b | t.0
               once(x) | repeat_n(x, n) | .chain(it) | .collect() (target = field / parameter /
               turbofish type) | BTreeSet::from([..]) | BTreeSet::new() | BTreeMap::new()
               Vec::new() | Vec::with_capacity(n) | .clone() | .checked_mul(b) | .div_ceil(k)
               slice.chunks(k) (panics for k = 0) | it.max().unwrap_or(&d)
  statements   let mut x = e;  x = e;  x.push(e); x.extend(e); x.clear(); let _ = s.remove(&k);
               let _ = m.insert(k, v); g.add_arc(u, v);   (straight-line updates of a local = `let`)
               for p in e { updates of locals declared outside }  ->  List.foldl / List.foldlM
               match a.cmp(&b) { Less => .., Equal => .., Greater => .. }  ->  match compare a b
"""
import argparse
import os
import re
import sys

sys.path.insert(0, os.path.dirname(os.path.abspath(__file__)))
import translate_repr as T  # noqa: E402
from translate_repr import (TranslateError, Val, NAT, BOOL, BV, INT, PAIR, IDENT, coerce, flush,  # noqa: E402
                            bind_pattern, sanitize, elem_type)

SETN = ("set", NAT)

# --------------------------------------------------------------------------------------------
# Struct models: the four generator-bearing representations (from translate_repr) + DistanceMatrix
# --------------------------------------------------------------------------------------------
FILES = {k: f"src/repr/{T.REPRS[k]['dir']}/mod.rs" for k in T.REPR_ORDER}
T.REPRS["DM"] = dict(dir="distance_matrix", struct="DistanceMatrix", lean="DistMatrix.DM",
                     fields=[("dist", "Vec<W>", "dist", ("vec", INT)), ("infinity", "W", "infinity", INT),
                             ("order", "usize", "order", NAT)])
FILES["DM"] = "src/algo/distance_matrix.rs"
KEY_ORDER = ["AL", "AM", "MX", "EL", "WL", "DM"]

GEN_TRAITS = ["Empty", "Biclique", "Circuit", "Complete", "Cycle", "Path", "Star", "Wheel"]


def _gen_targets(key, skip=()):
    rows = [(key, "Empty", "empty", "empty"),
            (key, "@src/gen/empty.rs:Empty", "trivial", "trivial")]
    if key == "WL":
        return rows
    rows += [(key, "Biclique", "biclique", "biclique"),
             (key, "@src/gen/biclique.rs:Biclique", "claw", "claw"),
             (key, "@src/gen/biclique.rs:Biclique", "utility", "utility")]
    for tr in GEN_TRAITS[2:]:
        if tr not in skip:
            rows.append((key, tr, tr.lower(), tr.lower()))
    return rows


# (struct key, impl, rust fn, lean name[, options]); impl = full trait text of `impl … for <struct>`,
# None = inherent impl, "@<file>:<Trait>" = default method of `pub trait <Trait>` instantiated here.
TARGETS = (
    _gen_targets("AL", skip=("Complete",)) + _gen_targets("AM") + _gen_targets("MX") + _gen_targets("EL")
    + _gen_targets("WL")
    + [("DM", "Index<(usize, usize)>", "index", "index", {"ret": INT}),
       ("DM", "Index<usize>", "index", "indexFlat", {"ret": INT, "as": "index_flat"}),
       ("DM", None, "eccentricities", "eccentricities"),
       ("DM", None, "diameter", "diameter"),
       ("DM", None, "center", "center", {"ret": ("vec", NAT)}),
       ("DM", None, "is_connected", "isConnected"),
       ("DM", None, "periphery", "periphery", {"ret": ("iter", NAT)})]
)

NOT_COVERED = {
    ("AL", "Complete", "complete"): "worker threads (`spawn` / `join`) + sort of the joined chunks: hand model "
                                    "`Gen.AL.complete n t`, thread independence in C14 / C17",
    ("MX", "AddArc", "add_arc"): "`get_unchecked_mut` block; the generators call the hand model `Repr.AdjMatrix.addArc`",
    ("AL", "From<I>", "from"): "validation loop with `assert_ne!`; `empty` calls the hand model `Conv.AL.fromRows`",
    ("AM", "From<I>", "from"): "validation loop with `assert_ne!`; `empty` calls the hand model `Conv.AM.fromRows`",
    ("DM", None, "new"): "fills the buffer through a raw pointer (`set_len` + `ptr::write`)",
    ("DM", "IndexMut<(usize, usize)>", "index_mut"): "returns a place (`&mut W`), not a value; hand model `DistMatrix.set`",
    ("DM", "IndexMut<usize>", "index_mut"): "returns a place (`&mut W`)",
}

# Hand-modelled callees
EXTERNALS = {
    ("AL", "from"): dict(lean="Conv.AL.fromRows", params=[("vec", SETN)], ret=("self", "AL"), partial=True, has_self=False),
    ("AM", "from"): dict(lean="Conv.AM.fromRows", params=[("vec", SETN)], ret=("self", "AM"), partial=True, has_self=False),
    ("MX", "add_arc"): dict(lean="Repr.AdjMatrix.addArc", params=[NAT, NAT], ret=None, partial=True, has_self=True,
                            mutating=True),
}

HEADER = '''/-
GENERATED by tools/translate_gen.py from {repo}/src/repr/*/mod.rs, src/gen/*.rs, src/algo/distance_matrix.rs — do not edit by hand.
Regenerated on every run of the C14 / C18 checks; `Thm/GenGen.lean` is re-checked against it.
-/
import GraafVerif.Model.Gen
import GraafVerif.Model.Conv
import GraafVerif.Model.DistMatrix
set_option linter.unusedVariables false
namespace GraafVerif.GenGen
open GraafVerif

/-! ## Helpers the translator emits (fixed text) -/

/-- `Iterator::enumerate`: `(index, item)`. -/
def enumerate {α : Type} (l : List α) : List (Nat × α) := l.zipIdx.map (fun p => (p.2, p.1))

/-- `Iterator::map` with a closure that may panic (`none`): a panic aborts the chain. -/
def mapO {α β : Type} (f : α → Option β) : List α → Option (List β)
  | [] => some []
  | a :: as =>
    match f a with
    | none => none
    | some b =>
      match mapO f as with
      | none => none
      | some bs => some (b :: bs)

/-- `Iterator::all` with a predicate that may panic: stops at the first `false`. -/
def allO {α : Type} (f : α → Option Bool) : List α → Option Bool
  | [] => some true
  | a :: as =>
    match f a with
    | none => none
    | some false => some false
    | some true => allO f as

'''


# --------------------------------------------------------------------------------------------
# Parser extension
# --------------------------------------------------------------------------------------------
class GenParser(T.Parser):
    def angle(self):
        """`<` … matching `>` (a `>>` token closes two levels); returns the text inside."""
        self.eat("<")
        depth, out = 1, []
        while depth:
            c = self.eat()
            if c == "<":
                depth += 1
            elif c == ">":
                depth -= 1
            elif c == ">>":
                depth -= 2
                if depth > 0:
                    out.append(">")
                elif depth == 0 and out is not None:
                    out.append(">")
                    break
            if depth > 0:
                out.append(c)
        if depth < 0:
            raise TranslateError("unbalanced turbofish")
        return "".join(out)

    def block(self, until=None):
        stmts = []
        while self.peek() != until:
            cur = self.peek()
            if cur == "let":
                self.eat()
                mut = False
                if self.peek() == "mut":
                    self.eat()
                    mut = True
                pat = self.pattern()
                if self.peek() == ":":
                    raise TranslateError("type-annotated `let` is outside the supported subset")
                self.eat("=")
                e = self.expr()
                self.eat(";")
                stmts.append(("let", pat, mut, e))
            elif cur in ("assert!", "debug_assert!", "assert_ne!", "assert_eq!"):
                if cur != "assert!":
                    raise TranslateError(f"{cur} is outside the supported subset")
                self.eat()
                self.eat("(")
                c = self.expr()
                self.skip_macro_rest()
                self.eat(";")
                stmts.append(("assert", c))
            elif cur == "panic!":
                self.eat()
                self.eat("(")
                self.skip_macro_rest()
                if self.peek() == ";":
                    self.eat()
                stmts.append(("panic",))
            elif cur == "if":
                save = self.i
                self.eat()
                c = self.expr()
                self.eat("{")
                if self.peek() != "return":
                    # an `if … { a } else { b }` expression in tail position
                    self.i = save
                    e = self.expr()
                    stmts.append(("tail", e))
                    if self.peek() != until:
                        raise TranslateError("statements after an `if` expression")
                    continue
                self.eat("return")
                r = self.expr()
                self.eat(";")
                self.eat("}")
                if self.peek() == "else":
                    raise TranslateError("`if … { return … } else` is outside the supported subset")
                stmts.append(("ifret", c, r))
            elif cur == "for":
                self.eat()
                pat = self.pattern()
                self.eat("in")
                it = self.expr()
                self.eat("{")
                body = self.block("}")
                self.eat("}")
                stmts.append(("for", pat, it, body))
            elif cur == "match":
                self.eat()
                scrut = self.expr()
                if not (scrut[0] == "mcall" and scrut[2] == "cmp" and len(scrut[3]) == 1):
                    raise TranslateError("only `match a.cmp(&b) { Less / Equal / Greater }` is supported")
                self.eat("{")
                arms = {}
                while self.peek() != "}":
                    name = self.eat()
                    while self.peek() == "::":
                        self.eat()
                        name = self.eat()
                    if name not in ("Less", "Equal", "Greater") or name in arms:
                        raise TranslateError(f"unsupported match arm `{name}`")
                    self.eat("=>")
                    if self.peek() == "{":
                        self.eat()
                        arms[name] = self.block("}")
                        self.eat("}")
                    elif self.peek() == "(" and self.peek(1) == ")":
                        self.eat()
                        self.eat()
                        arms[name] = []
                    else:
                        arms[name] = [("exprstmt", self.expr())]
                    if self.peek() == ",":
                        self.eat()
                self.eat("}")
                if set(arms) != {"Less", "Equal", "Greater"}:
                    raise TranslateError("`match a.cmp(&b)` must have exactly the arms Less, Equal, Greater")
                stmts.append(("matchcmp", scrut[1], scrut[3][0], arms))
            elif cur == "return":
                self.eat()
                e = self.expr()
                if self.peek() == ";":
                    self.eat()
                stmts.append(("tail", e))
            else:
                e = self.expr()
                if self.peek() in T.ASSIGN_OPS:
                    op = self.eat()
                    rhs = self.expr()
                    self.eat(";")
                    stmts.append(("opassign", e, op, rhs))
                elif self.peek() == ";":
                    self.eat()
                    if e[0] != "mcall":
                        raise TranslateError("expression statement that is not a method call")
                    stmts.append(("exprstmt", e))
                else:
                    stmts.append(("tail", e))
                    if self.peek() != until:
                        raise TranslateError(f"trailing tokens after the tail expression: {self.t[self.i:self.i+8]}")
        return stmts

    def expr(self):
        lo = self.or_()
        if self.peek() == "..":
            self.eat()
            return ("range", lo, self.or_())
        if self.peek() == "..=":
            self.eat()
            return ("rangei", lo, self.or_())
        return lo

    def postfix(self):
        e = self.primary()
        while True:
            cur = self.peek()
            if cur == ".":
                self.eat()
                name = self.eat()
                if re.fullmatch(r"\d+", name):
                    e = ("tfield", e, int(name))
                    continue
                if not IDENT.match(name):
                    raise TranslateError(f"unsupported member `.{name}`")
                tf = None
                if self.peek() == "::":
                    self.eat()
                    tf = self.angle()
                if self.peek() == "(":
                    e = ("mcall", e, name, self.args()) + ((tf,) if tf else ())
                elif tf:
                    raise TranslateError("turbofish without a call")
                else:
                    e = ("field", e, name)
            elif cur == "[":
                self.eat()
                idx = self.expr()
                self.eat("]")
                e = ("index", e, idx)
            elif cur == "?":
                raise TranslateError("`?` is outside the supported subset")
            else:
                return e

    def primary(self):
        cur = self.peek()
        if cur == "vec!":
            self.eat()
            self.eat("[")
            x = self.expr()
            if self.peek() != ";":
                raise TranslateError("only `vec![x; n]` is supported")
            self.eat(";")
            n = self.expr()
            self.eat("]")
            return ("vecrep", x, n)
        if cur == "[":
            self.eat()
            items = []
            while self.peek() != "]":
                items.append(self.expr())
                if self.peek() == ",":
                    self.eat()
            self.eat("]")
            return ("array", items)
        if cur == "if":
            self.eat()
            c = self.expr()
            self.eat("{")
            a = self.block("}")
            self.eat("}")
            self.eat("else")
            if self.peek() == "if":
                raise TranslateError("`else if` is outside the supported subset")
            self.eat("{")
            b = self.block("}")
            self.eat("}")
            return ("ifexpr", c, a, b)
        if cur == "Self" and self.peek(1) == "{":
            self.eat()
            self.eat("{")
            fields = []
            while self.peek() != "}":
                name = self.eat()
                if not IDENT.match(name):
                    raise TranslateError(f"struct literal field {name!r}")
                if self.peek() == ":":
                    self.eat()
                    fields.append((name, self.expr()))
                else:
                    fields.append((name, ("var", name)))
                if self.peek() == ",":
                    self.eat()
            self.eat("}")
            return ("struct", fields)
        if cur in ("once", "repeat_n") and self.peek(1) == "(":
            self.eat()
            return ("fcall", cur, self.args())
        return super().primary()


# --------------------------------------------------------------------------------------------
# Compiler extension (installed into translate_repr's namespace for this process)
# --------------------------------------------------------------------------------------------
_base_expr, _base_mcall, _base_block = T.compile_expr, T.compile_mcall, T.compile_block
_base_partial, _base_type, _base_render = T.comp_partial, T.comp_type, T.render


def unify_ty(a, b):
    """Unify two types in which `None` stands for a not yet known element type."""
    if a is None:
        return b
    if b is None:
        return a
    if isinstance(a, tuple) and isinstance(b, tuple) and a[0] == b[0] and a[0] != "self":
        if a[0] == "tup":
            if len(a[1]) != len(b[1]):
                raise TranslateError(f"tuple types of different arity {a} / {b}")
            return ("tup", tuple(unify_ty(x, y) for x, y in zip(a[1], b[1])))
        return (a[0], unify_ty(a[1], b[1]))
    if a != b:
        raise TranslateError(f"type mismatch {a} / {b}")
    return a


def seq_like(t):
    return isinstance(t, tuple) and t[0] in ("vec", "iter", "slice", "set")


def collect_into(target, r):
    """`.collect()` of the iterator value `r` into a container of type `target`."""
    if not (isinstance(r.ty, tuple) and r.ty[0] in ("iter", "vec")):
        raise TranslateError(f".collect() on a value of type {r.ty}")
    et = r.ty[1]
    k = target[0] if isinstance(target, tuple) else target
    if k == "vec":
        return Val(r.code, ("vec", unify_ty(target[1], et)), r.pre)
    if k == "set" and unify_ty(target[1], et) == NAT:
        return Val(f"(Gen.ssetOf {r.code})", SETN, r.pre)
    if k == "set" and unify_ty(target[1], et) == PAIR:
        return Val(f"(Gen.psetOf {r.code})", ("set", PAIR), r.pre)
    if k == "map" and et == ("tup", (NAT, SETN)) and unify_ty(target[1], SETN) == SETN:
        return Val(f"(Gen.mapOf {r.code})", ("map", SETN), r.pre)
    raise TranslateError(f".collect() of {r.ty} into {target} is outside the supported subset")


def parse_turbofish(tf):
    tf = tf.replace(" ", "")
    if tf in ("BTreeSet<_>", "BTreeSet<usize>"):
        return ("set", None)
    if tf in ("Vec<_>",):
        return ("vec", None)
    raise TranslateError(f"turbofish `::<{tf}>` is outside the supported subset")


def compile_expr(e, env, ctx, expect=None):
    k = e[0]
    if k == "struct":
        info = T.REPRS[ctx.key]
        given = dict(e[1])
        if sorted(given) != sorted(f[0] for f in info["fields"]) or len(given) != len(e[1]):
            raise TranslateError(f"struct literal with fields {sorted(given)}")
        pre, parts = [], []
        for rname, _, lname, fty in info["fields"]:
            v = T.compile_expr(given[rname], env, ctx, fty)
            v = coerce(v, fty) if v.ty == "lit" else v
            unify_ty(v.ty, fty)
            pre += v.pre
            parts.append(f"{lname} := {v.code}")
        return Val(f"({{ {', '.join(parts)} }} : {info['lean']})", ("self", ctx.key), pre)
    if k == "vecrep":
        et = expect[1] if seq_like(expect) else None
        x = T.compile_expr(e[1], env, ctx, et)
        x = coerce(x, et) if x.ty == "lit" else x
        n = coerce(T.compile_expr(e[2], env, ctx, NAT), NAT)
        return Val(f"(List.replicate {n.code} {x.code})", ("vec", x.ty), x.pre + n.pre)
    if k == "array":
        et = expect[1] if seq_like(expect) else None
        vs = [T.compile_expr(x, env, ctx, et if et is not None else NAT) for x in e[1]]
        vs = [coerce(v, et if et is not None else NAT) if v.ty == "lit" else v for v in vs]
        ty = None
        for v in vs:
            ty = unify_ty(ty, v.ty)
        return Val("[" + ", ".join(v.code for v in vs) + "]", ("vec", ty), [p for v in vs for p in v.pre])
    if k == "ifexpr":
        c = coerce(T.compile_expr(e[1], env, ctx, None), BOOL)
        envc = dict(env)
        envc.pop("__top__", None)
        a = T.compile_block(e[2], envc, ctx, expect)
        b = T.compile_block(e[3], envc, ctx, expect)
        if T.comp_partial(a) or T.comp_partial(b) or c.pre:
            raise TranslateError("`if` expression with a branch that may panic")
        ty = unify_ty(T.comp_type(a), T.comp_type(b))
        cond = c.prop if c.prop else c.code
        return Val(f"(if {cond} then {T.render(a, False, False, ctx)} else {T.render(b, False, False, ctx)})", ty)
    if k == "rangei":
        lo = coerce(T.compile_expr(e[1], env, ctx, NAT), NAT)
        hi = coerce(T.compile_expr(e[2], env, ctx, NAT), NAT)
        return Val(f"(List.range' {lo.code} (({hi.code} + 1) - {lo.code}))", ("iter", NAT), lo.pre + hi.pre)
    if k == "tfield":
        v = T.compile_expr(e[1], env, ctx, None)
        if not (isinstance(v.ty, tuple) and v.ty[0] == "tup" and e[2] < len(v.ty[1])):
            raise TranslateError(f"tuple field .{e[2]} on a value of type {v.ty}")
        n = len(v.ty[1])
        proj = v.code + ".2" * e[2] + (".1" if e[2] + 1 < n else "")
        return Val(proj, v.ty[1][e[2]], v.pre)
    if k == "tup" and isinstance(expect, tuple) and expect[0] == "tup" and len(expect[1]) == len(e[1]):
        vs = [coerce(T.compile_expr(x, env, ctx, t), t if t in (NAT, BV) else None) for x, t in zip(e[1], expect[1])]
        return Val("(" + ", ".join(v.code for v in vs) + ")", ("tup", tuple(v.ty for v in vs)),
                   [p for v in vs for p in v.pre])
    if k == "fcall":
        name, args = e[1], e[2]
        et = expect[1] if seq_like(expect) else None
        if name == "once" and len(args) == 1:
            x = T.compile_expr(args[0], env, ctx, et)
            x = coerce(x, et if et in (NAT, BV) else NAT) if x.ty == "lit" else x
            return Val(f"[{x.code}]", ("iter", x.ty), x.pre)
        if name == "repeat_n" and len(args) == 2:
            x = T.compile_expr(args[0], env, ctx, et)
            n = coerce(T.compile_expr(args[1], env, ctx, NAT), NAT)
            return Val(f"(List.replicate {n.code} {x.code})", ("iter", x.ty), x.pre + n.pre)
        raise TranslateError(f"free function {name}/{len(args)}")
    if k == "call":
        segs, args = e[1], e[2]
        p = "::".join(segs)
        if p == "BTreeSet::from" and len(args) == 1 and args[0][0] == "array":
            a = T.compile_expr(args[0], env, ctx, ("vec", NAT))
            if a.ty != ("vec", NAT):
                raise TranslateError("BTreeSet::from of a non-usize array")
            return Val(f"(Gen.ssetOf {a.code})", SETN, a.pre)
        if p in ("BTreeSet::new", "BTreeMap::new", "Vec::new") and not args:
            kind = {"BTreeSet::new": "set", "BTreeMap::new": "map", "Vec::new": "vec"}[p]
            if isinstance(expect, tuple) and expect[0] == kind:
                return Val("[]", expect)
            return Val("[]", (kind, None))
        if p == "Vec::with_capacity" and len(args) == 1:
            n = T.compile_expr(args[0], env, ctx, NAT)
            if n.pre:
                raise TranslateError("Vec::with_capacity of an argument that may panic")
            return Val("[]", expect if (isinstance(expect, tuple) and expect[0] == "vec") else ("vec", None))
    return _base_expr(e, env, ctx, expect)


def compile_mcall(e, env, ctx, expect):
    recv, name, args = e[1], e[2], e[3]
    tf = e[4] if len(e) > 4 else None
    na = len(args)
    if recv != ("var", "self"):
        if name == "collect" and na == 0:
            target = parse_turbofish(tf) if tf else expect
            if target is None:
                raise TranslateError(".collect() whose target type is not determined by a field, parameter or turbofish")
            k = target[0] if isinstance(target, tuple) else target
            et = ("tup", (NAT, target[1])) if k == "map" else (target[1] if isinstance(target, tuple) else None)
            r = T.compile_expr(recv, env, ctx, ("iter", et) if et is not None else None)
            return collect_into(target, r)
        if name == "chain" and na == 1:
            a = T.compile_expr(recv, env, ctx, expect)
            b = T.compile_expr(args[0], env, ctx, expect if expect is not None else a.ty)
            if not (seq_like(a.ty) and seq_like(b.ty)):
                raise TranslateError(f".chain on {a.ty} / {b.ty}")
            return Val(f"({a.code} ++ {b.code})", ("iter", unify_ty(a.ty[1], b.ty[1])), a.pre + b.pre)
        if name in ("clone", "into_iter") and na == 0:
            r = T.compile_expr(recv, env, ctx, expect)
            if name == "into_iter" and seq_like(r.ty):
                return Val(r.code, ("iter", r.ty[1]), r.pre)
            return r
        if name == "unwrap_or" and na == 1 and recv[0] == "mcall" and recv[2] == "max" and not recv[3]:
            r = T.compile_expr(recv[1], env, ctx, None)
            if not (seq_like(r.ty) and r.ty[1] == INT):
                raise TranslateError(f".max().unwrap_or(..) over {r.ty}")
            d = coerce(T.compile_expr(args[0], env, ctx, INT), INT)
            return Val(f"(DistMatrix.maxOr {d.code} {r.code})", INT, r.pre + d.pre)
    if name in ("checked_mul", "div_ceil", "chunks"):
        r = T.compile_expr(recv, env, ctx, None)
        if name == "chunks" and na == 1 and isinstance(r.ty, tuple) and r.ty[0] in ("vec", "slice"):
            kk = coerce(T.compile_expr(args[0], env, ctx, NAT), NAT)
            x = ctx.fresh("r")
            # `slice::chunks(0)` panics
            return Val(x, ("iter", ("slice", r.ty[1])), r.pre + kk.pre
                       + [(x, f"(if {kk.code} = 0 then none else some (DistMatrix.chunks {kk.code} {r.code}))")])
        r = coerce(r, NAT)
        if name == "checked_mul" and na == 1:
            b = coerce(T.compile_expr(args[0], env, ctx, NAT), NAT)
            return Val(f"(if {r.code} * {b.code} < 2 ^ 64 then some ({r.code} * {b.code}) else none)", ("opt", NAT),
                       r.pre + b.pre)
        if name == "div_ceil" and na == 1 and args[0][0] == "lit" and args[0][1] > 0:
            return Val(f"(({r.code} + {args[0][1] - 1}) / {args[0][1]})", NAT, r.pre)
        raise TranslateError(f"method .{name}/{na} on {r.ty}")
    return _base_mcall(e, env, ctx, expect)


def mutation(stmt_expr, env, ctx):
    """`x.m(args)` on a `let mut` local -> (rust name, new Val of x) or None."""
    e = stmt_expr
    if not (e[0] == "mcall" and e[1][0] == "var" and e[1][1] in ctx.mut_locals and e[1][1] in env):
        return None
    x = e[1][1]
    xv = env[x]
    name, args = e[2], e[3]
    ty = xv.ty
    k = ty[0] if isinstance(ty, tuple) else ty
    if k == "vec":
        if name == "extend" and len(args) == 1:
            a = T.compile_expr(args[0], env, ctx, ("vec", ty[1]) if ty[1] is not None else None)
            if not seq_like(a.ty):
                raise TranslateError(f"extend with a value of type {a.ty}")
            return x, Val(f"({xv.code} ++ {a.code})", ("vec", unify_ty(ty[1], a.ty[1])), a.pre)
        if name == "push" and len(args) == 1:
            a = T.compile_expr(args[0], env, ctx, ty[1])
            a = coerce(a, ty[1] if ty[1] in (NAT, BV) else NAT) if a.ty == "lit" else a
            return x, Val(f"({xv.code} ++ [{a.code}])", ("vec", unify_ty(ty[1], a.ty)), a.pre)
        if name == "clear" and not args:
            return x, Val("[]", ty)
    if ty == SETN and len(args) == 1 and name in ("remove", "insert"):
        a = coerce(T.compile_expr(args[0], env, ctx, NAT), NAT)
        f = "Repr.serase" if name == "remove" else "Repr.sinsert"
        return x, Val(f"({f} {a.code} {xv.code})", SETN, a.pre)
    if k == "map" and name == "insert" and len(args) == 2:
        kk = coerce(T.compile_expr(args[0], env, ctx, NAT), NAT)
        v = T.compile_expr(args[1], env, ctx, ty[1])
        return x, Val(f"(Repr.mupsert {kk.code} {v.code} (fun _ => {v.code}) {xv.code})", ("map", unify_ty(ty[1], v.ty)),
                      kk.pre + v.pre)
    if k == "self":
        sig = ctx.fntab.get((ty[1], name))
        if sig is not None and sig.get("mutating") and sig["ret"] is None:
            pre, codes = T.compile_args(args, sig["params"], env, ctx)
            code = "(" + " ".join([sig["lean"], xv.code] + codes) + ")"
            if sig["partial"]:
                r = ctx.fresh("r")
                return x, Val(r, ty, pre + [(r, code)])
            return x, Val(code, ty, pre)
    raise TranslateError(f"update `{x}.{name}(…)` of a local of type {ty} is outside the supported subset")


def assigned_locals(stmts, ctx, env, out):
    """Rust names of outer `let mut` locals updated inside `stmts` (in order of first update)."""
    def note(x):
        if x in ctx.mut_locals and x in env and x not in out:
            out.append(x)
    for s in stmts:
        if s[0] == "exprstmt" and s[1][0] == "mcall" and s[1][1][0] == "var":
            note(s[1][1][1])
        elif s[0] == "let" and s[3][0] == "mcall" and s[3][1][0] == "var" and s[1][0] == "pwild":
            note(s[3][1][1])
        elif s[0] == "opassign" and s[1][0] == "var":
            note(s[1][1])
        elif s[0] == "for":
            assigned_locals(s[3], ctx, env, out)
        elif s[0] == "matchcmp":
            for arm in ("Less", "Equal", "Greater"):
                assigned_locals(s[3][arm], ctx, env, out)
    return out


def rebind(x, v, env, ctx, rest_fn):
    """`let x := v` (or a direct bind when `v` is just its last partial computation), then the rest."""
    nm = env[x].code
    env2 = dict(env)
    env2[x] = Val(nm, v.ty)
    rest = rest_fn(env2)
    if v.pre and v.code == v.pre[-1][0] and re.fullmatch(r"r_\d+", v.code):
        return ("pre", v.pre[:-1] + [(nm, v.pre[-1][1])], rest)
    return ("let", nm, v, rest)


def compile_block(stmts, env, ctx, ret_ty):
    if not hasattr(ctx, "mut_locals"):
        ctx.mut_locals = set()
    if not stmts:
        raise TranslateError("empty body / missing tail expression")
    s, rest = stmts[0], stmts[1:]
    k = s[0]

    def go(env2):
        return T.compile_block(rest, env2, ctx, ret_ty)

    if k == "exprstmt":
        m = mutation(s[1], env, ctx)
        if m is None:
            raise TranslateError("method-call statement on something that is not a `let mut` local")
        return rebind(m[0], m[1], env, ctx, go)
    if k == "let" and s[1][0] == "pwild" and not s[2]:
        m = mutation(s[3], env, ctx)
        if m is None:
            raise TranslateError("`let _ = …` of something that is not an update of a `let mut` local")
        return rebind(m[0], m[1], env, ctx, go)
    if k == "let" and s[2] and s[1][0] == "pvar":
        v = T.compile_expr(s[3], env, ctx, None)
        v = coerce(v, NAT) if v.ty == "lit" else v
        if not (isinstance(v.ty, tuple) and v.ty[0] == "iter"):
            ctx.mut_locals.add(s[1][1])
            nm = sanitize(s[1][1])
            env2 = dict(env)
            env2[s[1][1]] = Val(nm, v.ty)
            return ("let", nm, v, go(env2))
    if k == "opassign" and s[2] == "=" and s[1][0] == "var" and s[1][1] in ctx.mut_locals and s[1][1] in env:
        x = s[1][1]
        v = T.compile_expr(s[3], env, ctx, env[x].ty)
        v = coerce(v, env[x].ty) if v.ty == "lit" else v
        return rebind(x, Val(v.code, unify_ty(env[x].ty, v.ty), v.pre), env, ctx, go)
    if k == "for" and not any(b[0] == "ifret" for b in s[3]) and not (len(s[3]) == 1 and s[3][0][0] == "for"
                                                                   and _is_search_loop(s[3][0])):
        return compile_fold(s, rest, env, ctx, ret_ty)
    if k == "matchcmp":
        a = T.compile_expr(s[1], env, ctx, None)
        b = T.compile_expr(s[2], env, ctx, a.ty if a.ty != "lit" else None)
        a, b = T.unify(a, b)
        if a.ty not in (NAT, INT):
            raise TranslateError(f"`cmp` on {a.ty}")
        arms = [T.compile_block(s[3][arm] + rest, env, ctx, ret_ty) for arm in ("Less", "Equal", "Greater")]
        return ("cmp3", a, b, arms[0], arms[1], arms[2])
    if k == "tail" and not rest and s[1][0] == "var" and s[1][1] in env and env[s[1][1]].ty is not None \
            and has_unknown(env[s[1][1]].ty) and ret_ty is not None:
        v = env[s[1][1]]
        return T.mkret(Val(v.code, unify_ty(v.ty, ret_ty)), env, ctx)
    return _base_block(stmts, env, ctx, ret_ty)


def has_unknown(t):
    return t is None or (isinstance(t, tuple) and t[0] != "self" and any(
        has_unknown(x) for x in (t[1] if t[0] == "tup" else (t[1],))))


def _is_search_loop(s):
    body = s[3]
    return any(b[0] == "ifret" for b in body) or (len(body) == 1 and body[0][0] == "for" and _is_search_loop(body[0]))


def compile_fold(s, rest, env, ctx, ret_ty):
    """`for p in e { updates of outer locals }` -> fold over the state; then the rest."""
    pat, it, body = s[1], s[2], s[3]
    state = assigned_locals(body, ctx, env, [])
    if not state:
        raise TranslateError("`for` loop that neither returns nor updates a local")
    itv = T.compile_expr(it, env, ctx, None)
    et = elem_type(itv.ty)
    envb = dict(env)
    envb.pop("__top__", None)
    if pat[0] == "pvar":
        pn = sanitize(pat[1])
        envb[pat[1]] = Val(pn, et)
    else:
        pn = ctx.fresh("p")
        bind_pattern(pat, et, pn, envb)
    if len(state) == 1:
        sn = env[state[0]].code
        tail = ("var", state[0])
        prologue = []
    else:
        sn = ctx.fresh("p")
        tail = ("tup", [("var", x) for x in state])
        prologue = state
    saved = set(ctx.mut_locals)
    bodyc = T.compile_block(list(body) + [("tail", tail)], envb, ctx, None)
    ctx.mut_locals = saved
    partial = T.comp_partial(bodyc)
    code = T.render(bodyc, partial, False, ctx)
    n = len(state)
    for i, x in reversed(list(enumerate(prologue))):
        proj = sn + ".2" * i + (".1" if i + 1 < n else "")
        code = f"(let {env[x].code} := {proj}; {code})"
    lam = f"(fun {sn} {pn} => {code})"
    init = env[state[0]].code if n == 1 else "(" + ", ".join(env[x].code for x in state) + ")"
    sty = T.comp_type(bodyc)

    def after(envr):
        return T.compile_block(rest, envr, ctx, ret_ty)

    if n == 1:
        if partial:
            r = ctx.fresh("r")
            v = Val(r, sty, itv.pre + [(r, f"List.foldlM {lam} {init} {itv.code}")])
        else:
            v = Val(f"(List.foldl {lam} {init} {itv.code})", sty, itv.pre)
        return rebind(state[0], v, env, ctx, after)
    # several state variables: fold over a tuple, then unpack
    if partial:
        v = Val(sn, sty, itv.pre + [(sn, f"List.foldlM {lam} {init} {itv.code}")])
    else:
        v = Val(f"(List.foldl {lam} {init} {itv.code})", sty, itv.pre)
    envr = dict(env)
    comp_rest = None

    def unpack(i, envr):
        if i == n:
            return after(envr)
        x = state[i]
        proj = sn + ".2" * i + (".1" if i + 1 < n else "")
        envn = dict(envr)
        envn[x] = Val(env[x].code, sty[1][i])
        return ("let", env[x].code, Val(proj, sty[1][i]), unpack(i + 1, envn))

    comp_rest = unpack(0, envr)
    if partial:
        return ("pre", v.pre, comp_rest)
    return ("let", sn, v, comp_rest)


def comp_partial(c):
    if c[0] == "pre":
        return True
    if c[0] == "cmp3":
        return bool(c[1].pre or c[2].pre) or any(T.comp_partial(x) for x in c[3:6])
    return _base_partial(c)


def comp_type(c):
    if c[0] == "pre":
        return T.comp_type(c[2])
    if c[0] == "cmp3":
        t = None
        for x in c[3:6]:
            t = unify_ty(t, T.comp_type(x))
        return t
    if c[0] == "if":
        return unify_ty(T.comp_type(c[2]), T.comp_type(c[3]))
    return _base_type(c)


def render(c, partial, top, ctx):
    nl = "\n  " if top else " "
    if c[0] == "pre":
        return flush(c[1], T.render(c[2], True, top, ctx), nl)
    if c[0] == "cmp3":
        arms = [T.render(x, partial, False, ctx) for x in c[3:6]]
        body = f"(match compare {c[1].code} {c[2].code} with | .lt => {arms[0]} | .eq => {arms[1]} | .gt => {arms[2]})"
        return flush(c[1].pre + c[2].pre, body, nl) if partial else body
    return _base_render(c, partial, top, ctx)


def install():
    T.Parser = GenParser
    T.compile_expr, T.compile_mcall, T.compile_block = compile_expr, compile_mcall, compile_block
    T.comp_partial, T.comp_type, T.render = comp_partial, comp_type, render


# --------------------------------------------------------------------------------------------
# Source location: impl blocks keyed by their full trait text; trait default methods
# --------------------------------------------------------------------------------------------
def strip_generics(s):
    s = s.strip()
    if s.startswith("<"):
        depth = 0
        for i, c in enumerate(s):
            depth += {"<": 1, ">": -1}.get(c, 0)
            if depth == 0:
                return s[i + 1:].strip()
    return s


def impl_blocks(region, struct):
    """[(trait text or None, block)] for every top-level `impl … for struct…` / `impl struct…`."""
    out = []
    for m in re.finditer(r"^impl\b", region, re.M):
        k = region.find("{", m.end())
        semi = region.find(";", m.end())
        if k < 0 or (0 <= semi < k):
            continue
        head = " ".join(region[m.end():k].split())
        head = strip_generics(head)
        head = head.split(" where ")[0].strip()
        if " for " in head:
            trait, target = head.rsplit(" for ", 1)
        else:
            trait, target = None, head
        tm = re.match(r"\w+", target.strip())
        if not tm or tm.group(0) != struct:
            continue
        end = T.match_close(region, k + 1, "{", "}")
        out.append((trait.strip() if trait else None, region[k + 1:end - 1]))
    return out


def trait_defaults(region, trait):
    m = re.search(r"^pub trait " + re.escape(trait) + r"\b[^{]*\{", region, re.M)
    if not m:
        raise TranslateError(f"`pub trait {trait}` not found")
    end = T.match_close(region, m.end(), "{", "}")
    return T.fns_of(region[m.end():end - 1])


def load_sources(repo):
    srcs, regions = {}, {}
    for key in KEY_ORDER:
        region = T.non_test_region(open(os.path.join(repo, FILES[key])).read())
        T.check_struct(region, key)
        regions[key] = region
        srcs[key] = [(trait, T.fns_of(b)) for trait, b in impl_blocks(region, T.REPRS[key]["struct"])]
    return srcs


def norm_ret(ret):
    ret = " ".join(ret.split())
    ret = ret.split(" where ")[0].strip()
    return re.sub(r"\s*\+\s*'_\s*$", "", ret)


def translate(repo):
    install()
    srcs = load_sources(repo)
    traits = {}
    out = [HEADER.replace("{repo}", repo)]
    fntab = dict(EXTERNALS)
    cur = None
    for row in TARGETS:
        key, impl, rname, lname = row[:4]
        opts = row[4] if len(row) > 4 else {}
        info = T.REPRS[key]
        if key != cur:
            if cur is not None:
                out.append(f"end {cur}\n")
            out.append(f"/-! ## `{info['struct']}` (`{FILES[key]}`) -/\nnamespace {key}\n")
            cur = key
        where = FILES[key][4:]
        try:
            if impl is not None and impl.startswith("@"):
                f, trait = impl[1:].split(":")
                if (f, trait) not in traits:
                    traits[(f, trait)] = trait_defaults(T.non_test_region(open(os.path.join(repo, f)).read()), trait)
                fns = traits[(f, trait)]
                if rname not in fns:
                    raise TranslateError("default method not found in the trait")
                where = f[4:]
                label = f"trait {trait} (default method), Self := {info['struct']}"
            else:
                cands = [fns for tr, fns in srcs[key] if tr == impl and rname in fns]
                if not cands:
                    raise TranslateError("impl / fn not found")
                if len(cands) > 1:
                    raise TranslateError("more than one matching impl")
                fns = cands[0]
                label = f"impl {impl} for {info['struct']}" if impl else f"impl {info['struct']}"
            params, ret, body = fns[rname]
            tabname = opts.get("as", rname)
            prev = fntab.get((key, rname))
            text = T.translate_fn(key, where, rname, lname, opts, params, norm_ret(ret), body, fntab, label)
            if tabname != rname:
                fntab[(key, tabname)] = fntab.pop((key, rname))
                if prev is not None:
                    fntab[(key, rname)] = prev
        except TranslateError as e:
            raise TranslateError(f"{FILES[key]}: {impl or 'inherent'}::{rname}: {e}")
        out.append(text)
    out.append(f"end {cur}\n")
    out.append("end GraafVerif.GenGen\n")
    text = "\n".join(out)
    body_only = text.split("-/", 1)[1]
    for tok in T.FORBIDDEN:
        if tok in body_only:
            raise TranslateError(f"generated text would contain the forbidden token {tok!r}")
    return text, srcs, fntab


# --------------------------------------------------------------------------------------------
# Coverage
# --------------------------------------------------------------------------------------------
def in_scope(key, trait, fn):
    if key == "DM":
        return True
    base = (trait or "").split("<")[0]
    return base in GEN_TRAITS or (key, trait, fn) in NOT_COVERED


def coverage(srcs, fntab):
    targeted = {}
    for r in TARGETS:
        if not (r[1] or "").startswith("@"):
            targeted[(r[0], r[1], r[2])] = r
    rows = []
    for key in KEY_ORDER:
        for trait, fns in srcs[key]:
            for fn in fns:
                k = (key, trait, fn)
                if k in targeted:
                    r = targeted[k]
                    sig = fntab[(key, (r[4] if len(r) > 4 else {}).get("as", fn))]
                    rows.append((key, trait, fn, "covered", f"`GenGen.{key}.{r[3]}`" + (" (Option: may panic)" if sig["partial"] else "")))
                elif k in NOT_COVERED:
                    rows.append((key, trait, fn, "not covered", NOT_COVERED[k]))
                elif in_scope(key, trait, fn):
                    rows.append((key, trait, fn, "not targeted", "out of scope"))
        for r in TARGETS:
            if r[0] == key and (r[1] or "").startswith("@"):
                sig = fntab[(key, r[2])]
                rows.append((key, r[1], r[2], "covered", f"`GenGen.{key}.{r[3]}` (default method of {r[1][1:]} at this type"
                             + (", Option)" if sig["partial"] else ")")))
    return rows


def coverage_md(rows):
    lines = []
    for key in KEY_ORDER:
        info = T.REPRS[key]
        cov = [r for r in rows if r[0] == key and r[3] == "covered"]
        ncv = [r for r in rows if r[0] == key and r[3] == "not covered"]
        ntg = [r for r in rows if r[0] == key and r[3] == "not targeted"]
        lines.append(f"### `{info['struct']}` (`{FILES[key]}`) — {len(cov)} covered, {len(ncv)} not covered\n")
        lines.append("| impl | fn | status | generated def / reason |")
        lines.append("|---|---|---|---|")
        for r in cov + ncv:
            lines.append(f"| `{r[1] or 'inherent'}` | `{r[2]}` | {r[3]} | {r[4]} |")
        lines.append("")
        if ntg:
            lines.append("Not targeted: " + ", ".join(f"`{(r[1] or 'inherent')}::{r[2]}`" for r in ntg) + ".\n")
    return "\n".join(lines)


def main():
    root = os.path.dirname(os.path.dirname(os.path.abspath(__file__)))
    ap = argparse.ArgumentParser()
    ap.add_argument("--repo", default="/repo")
    ap.add_argument("--out", default=os.path.join(root, "lean", "GraafVerif", "Model", "GenGen.lean"))
    ap.add_argument("--check", action="store_true", help="exit 3 if the file on disk differs (after rewriting it)")
    ap.add_argument("--list", action="store_true", help="print the full coverage table")
    ap.add_argument("--write-docs", nargs="?", const=os.path.join(root, "docs", "GenGen.md"), default=None,
                    help="rewrite the coverage table between the COVERAGE markers of docs/GenGen.md")
    a = ap.parse_args()
    try:
        text, srcs, fntab = translate(a.repo)
    except (TranslateError, OSError, ValueError, KeyError, IndexError, TypeError) as e:
        print(f"translate_gen: ERROR {e}")
        sys.exit(2)
    rows = coverage(srcs, fntab)
    for key in KEY_ORDER:
        cov = [r[2] for r in rows if r[0] == key and r[3] == "covered"]
        ncv = [r[2] for r in rows if r[0] == key and r[3] == "not covered"]
        print(f"translate_gen: {T.REPRS[key]['struct']}: covered {len(cov)}: {' '.join(cov)}")
        print(f"translate_gen: {T.REPRS[key]['struct']}: NOT covered {len(ncv)}: {' '.join(ncv) or '-'}")
    if a.list:
        print(coverage_md(rows))
    if a.write_docs:
        begin, end = "<!-- COVERAGE:BEGIN (written by tools/translate_gen.py --write-docs) -->", "<!-- COVERAGE:END -->"
        doc = open(a.write_docs).read() if os.path.exists(a.write_docs) else f"# GenGen\n\n{begin}\n{end}\n"
        if begin not in doc or end not in doc:
            doc += f"\n{begin}\n{end}\n"
        pre, rest = doc.split(begin, 1)
        post = rest.split(end, 1)[1]
        open(a.write_docs, "w").write(pre + begin + "\n" + coverage_md(rows) + "\n" + end + post)
    old = open(a.out).read() if os.path.exists(a.out) else None
    norm = lambda s: re.sub(r"GENERATED by tools/translate_gen.py from \S+", "GENERATED", s) if s else s
    if norm(old) != norm(text):
        open(a.out, "w").write(text)
        print("translate_gen: regenerated", a.out, "(content changed)")
        if a.check:
            sys.exit(3)
    else:
        print("translate_gen: up to date")


if __name__ == "__main__":
    main()
