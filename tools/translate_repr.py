#!/usr/bin/env python3
"""Translate the loop-free per-representation method bodies of graaf's `src/repr/*/mod.rs`
into Lean definitions over the structures of `Model/Repr.lean` (DESIGN.md §4.6, tag ReprGen).

  tools/translate_repr.py [--repo /repo] [--out lean/GraafVerif/Model/ReprGen.lean]
                          [--check] [--write-docs [docs/ReprGen.md]] [--list]

`Model/ReprGen.lean` is regenerated from the source on every run of the C01/C02/C12 checks and
`Thm/ReprGen.lean` (every generated def EQUALS the hand-written model function the C01/C02/C12
theorems speak about) is re-checked against what the code says NOW: a changed comparison, a
swapped argument, a dropped guard breaks a PROOF.

Exit codes: 0 ok; 2 a TARGETED method left the supported subset (broken tie); 3 with --check
when the file on disk differed (it is rewritten first).

Supported Rust subset (typed; anything else in a targeted method is a hard error):
  statements   let x = e; | let (a, b) = e; | let mut it = e; ... let p = it.next().expect("..");
               assert!(c, ..); | if c { return k; } | for p in e { [for ..] if c { return false; } }
               self.f[i] OP= e;  (only in `&mut self` methods) | tail expression
  expressions  literals, tuples, ranges a..b, field reads self.f, self.m(args), Self::m(args),
               == != < <= > >= && || ! + - * / % & | ^ << >> `as usize`, v[i], closures
  containers   Vec: len get iter [i] | BTreeSet: contains len is_empty iter remove(&mut)
               BTreeMap: get contains_key len is_empty iter keys values remove(&mut)
               slices: len iter
  iterators    map filter filter_map flat_map all any count sum enumerate zip skip copied
  Option/bool  is_some_and and_then map map_or map_or_else(|| panic!, f) is_some expect then_some
Conventions: usize -> Nat (no wrap-around; `a - b` is truncated subtraction), a block of the bit
matrix -> BitVec 64, W -> Int, panic (assert!/panic!/expect/indexing) -> `none`.  A closure that
can panic inside `map`/`filter` aborts the whole chain (`mapO`/`filterO`: the chain is modelled as
consumed); inside `all` evaluation stops at the first `false` (`allO`), as `Iterator::all` does.
"""
import argparse
import os
import re
import sys


class TranslateError(Exception):
    pass


# --------------------------------------------------------------------------------------------
# The typed field model of the five structs (checked against the `pub struct` in the source)
# --------------------------------------------------------------------------------------------
NAT, BOOL, BV, INT = "nat", "bool", "bv", "int"
PAIR = ("tup", (NAT, NAT))

REPRS = {
    "AL": dict(dir="adjacency_list", struct="AdjacencyList", lean="Repr.AdjList",
               fields=[("arcs", "Vec<BTreeSet<usize>>", "rows", ("vec", ("set", NAT)))]),
    "AM": dict(dir="adjacency_map", struct="AdjacencyMap", lean="Repr.AdjMap",
               fields=[("arcs", "BTreeMap<usize, BTreeSet<usize>>", "rows", ("map", ("set", NAT)))]),
    "MX": dict(dir="adjacency_matrix", struct="AdjacencyMatrix", lean="Repr.AdjMatrix",
               fields=[("blocks", "Vec<usize>", "blocks", ("vec", BV)), ("order", "usize", "order", NAT)]),
    "EL": dict(dir="edge_list", struct="EdgeList", lean="Repr.EdgeList",
               fields=[("arcs", "BTreeSet<(usize, usize)>", "arcs", ("set", PAIR)), ("order", "usize", "order", NAT)]),
    "WL": dict(dir="adjacency_list_weighted", struct="AdjacencyListWeighted", lean="Repr.AdjListW",
               fields=[("arcs", "Vec<BTreeMap<usize, W>>", "rows", ("vec", ("map", INT)))]),
}
REPR_ORDER = ["AL", "AM", "MX", "EL", "WL"]

# --------------------------------------------------------------------------------------------
# TARGETS: (repr, impl, rust fn, lean name[, options]).  impl = trait name, None = inherent impl,
# "@op/<file>.rs" = the blanket impl `impl<D> Trait for D` of src/op instantiated at this repr.
# Order = emission order (a callee must precede its callers).
# --------------------------------------------------------------------------------------------
def _common(r, has_walk=True, seqs=True, semi=True):
    t = [(r, "Order", "order", "order"),
         (r, "Vertices", "vertices", "vertices"),
         (r, "HasArc", "has_arc", "hasArc"),
         (r, "HasEdge", "has_edge", "hasEdge")]
    if has_walk:
        t.append((r, "HasWalk", "has_walk", "hasWalk"))
    t += [(r, "Size", "size", "size"),
          (r, "Indegree", "indegree", "indegree"),
          (r, "Indegree", "is_source", "isSource"),
          (r, "Outdegree", "outdegree", "outdegree"),
          (r, "Outdegree", "is_sink", "isSink"),
          (r, "@op/degree.rs", "degree", "degree"),
          (r, "@op/semidegree_sequence.rs", "semidegree_sequence", "semidegreeSequence")]
    if seqs:
        t += [(r, "DegreeSequence", "degree_sequence", "degreeSequence"),
              (r, "IndegreeSequence", "indegree_sequence", "indegreeSequence")]
    t += [(r, "IsComplete", "is_complete", "isComplete"),
          (r, "IsRegular", "is_regular", "isRegular"),
          (r, "IsSimple", "is_simple", "isSimple")]
    if semi:
        t += [(r, "IsSemicomplete", "is_semicomplete", "isSemicomplete"),
              (r, "IsTournament", "is_tournament", "isTournament")]
    t.append((r, "RemoveArc", "remove_arc", "removeArc"))
    return t


TARGETS = (
    _common("AL", has_walk=False, seqs=False, semi=False)
    + [("AL", "ContiguousOrder", "contiguous_order", "contiguousOrder")]
    + _common("AM", has_walk=False)
    + [("AM", "Arcs", "arcs", "arcs"),
       ("AM", "InNeighbors", "in_neighbors", "inNeighbors")]
    + [("MX", None, "mask", "mask", {"ret": BV}),
       ("MX", None, "index", "index")]
    + _common("MX")
    + [("MX", "InNeighbors", "in_neighbors", "inNeighbors"),
       ("MX", "OutNeighbors", "out_neighbors", "outNeighbors"),
       ("MX", "ContiguousOrder", "contiguous_order", "contiguousOrder")]
    + _common("EL")
    + [("EL", "Arcs", "arcs", "arcs"),
       ("EL", "InNeighbors", "in_neighbors", "inNeighbors"),
       ("EL", "OutNeighbors", "out_neighbors", "outNeighbors"),
       ("EL", "ContiguousOrder", "contiguous_order", "contiguousOrder")]
    + _common("WL")
    + [("WL", "Arcs", "arcs", "arcs"),
       ("WL", "ArcsWeighted", "arcs_weighted", "arcsWeighted"),
       ("WL", "ArcWeight", "arc_weight", "arcWeight"),
       ("WL", "InNeighbors", "in_neighbors", "inNeighbors"),
       ("WL", "OutNeighbors", "out_neighbors", "outNeighbors"),
       ("WL", "OutNeighborsWeighted", "out_neighbors_weighted", "outNeighborsWeighted"),
       ("WL", "ContiguousOrder", "contiguous_order", "contiguousOrder")]
)

# Candidate methods deliberately NOT translated (they stay hand-modelled + correspondence-tied).
NOT_COVERED = {
    ("AL", "HasWalk", "has_walk"): "raw-pointer `while` loop",
    ("AL", "Arcs", "arcs"): "hand-written iterator struct (`ArcsIterator`, stateful `next`)",
    ("AL", "InNeighbors", "in_neighbors"): "raw-pointer iterator struct (`InNeighborsIterator`)",
    ("AL", "OutNeighbors", "out_neighbors"): "`get_unchecked` block",
    ("AL", "DegreeSequence", "degree_sequence"): "scoped threads + unchecked histogram writes",
    ("AL", "IndegreeSequence", "indegree_sequence"): "raw-pointer histogram loop (mutation in a loop)",
    ("AL", "IsSemicomplete", "is_semicomplete"): "scoped threads sharing an AtomicBool",
    ("AL", "IsTournament", "is_tournament"): "raw-pointer row access in the pair loop",
    ("AM", "HasWalk", "has_walk"): "raw-pointer `while` loop",
    ("AM", "OutNeighbors", "out_neighbors"): "`unwrap_unchecked` block",
    ("MX", "Arcs", "arcs"): "hand-written iterator struct (`ArcsIterator`, `while` loop over blocks); "
                            "used by `in_neighbors` through the hand model `Repr.AdjMatrix.arcs`",
}

# Hand-modelled callees a generated body may call: (repr, rust fn) -> signature.
EXTERNALS = {
    ("MX", "arcs"): dict(lean="Repr.AdjMatrix.arcs", params=[], ret=("iter", PAIR), partial=False, has_self=True),
    ("MX", "complete"): dict(lean="Pred.MX.complete", params=[NAT], ret=("self", "MX"), partial=True, has_self=False),
    ("EL", "complete"): dict(lean="Pred.EL.complete", params=[NAT], ret=("self", "EL"), partial=True, has_self=False),
}

FORBIDDEN = ["sorry", "admit", "axiom", "native_decide", "bv_decide", "implemented_by", "unsafe ",
             "maxHeartbeats 0", "@[extern", "opaque"]
# constructs that put a body outside the subset whatever the parser thinks of it
BANNED_WORDS = ["unsafe", "while", "loop", "spawn", "scope", "as_ptr", "as_mut_ptr", "break", "continue"]

HEADER = '''/-
GENERATED by tools/translate_repr.py from {repo}/src/repr/*/mod.rs — do not edit by hand.
Regenerated on every run of the C01 / C02 / C12 checks; `Thm/ReprGen.lean` is re-checked against it.
-/
import GraafVerif.Model.Pred
namespace GraafVerif.ReprGen
open GraafVerif

/-! ## Helpers the translator emits (fixed text) -/

/-- `Iterator::map` with a closure that may panic (`none`): a panic aborts the chain. -/
def mapO {α β : Type} (f : α → Option β) : List α → Option (List β)
  | [] => some []
  | a :: as =>
    match f a with
    | none => none
    | some b =>
      match mapO f as with
      | none => none
      | some bs => some (b :: bs)

/-- `Iterator::filter` with a predicate that may panic. -/
def filterO {α : Type} (f : α → Option Bool) : List α → Option (List α)
  | [] => some []
  | a :: as =>
    match f a with
    | none => none
    | some b =>
      match filterO f as with
      | none => none
      | some bs => some (if b then a :: bs else bs)

/-- `Iterator::all` with a predicate that may panic: stops at the first `false`. -/
def allO {α : Type} (f : α → Option Bool) : List α → Option Bool
  | [] => some true
  | a :: as =>
    match f a with
    | none => none
    | some false => some false
    | some true => allO f as

/-- `Iterator::enumerate`: `(index, item)`. -/
def enumerate {α : Type} (l : List α) : List (Nat × α) := l.zipIdx.map (fun p => (p.2, p.1))

/-- `usize::count_ones` of a 64-bit block. -/
def popcount (x : BitVec 64) : Nat := ((List.range 64).filter (fun k => x.getLsbD k)).length

/-- `*map.get_mut(&k).unwrap() = x` (same search order as `Repr.mget`). -/
def mset {X : Type} (k : Nat) (x : X) : List (Nat × X) → List (Nat × X)
  | [] => []
  | (k', y) :: rest =>
    if k = k' then (k', x) :: rest else if k < k' then (k', y) :: rest else (k', y) :: mset k x rest

/-- `BTreeSet<usize>::remove(&x)`: the set afterwards, and whether `x` was present. -/
def setRemove (x : Nat) (s : List Nat) : List Nat × Bool := (Repr.serase x s, s.contains x)
/-- `BTreeSet<(usize, usize)>::remove(&x)`. -/
def psetRemove (x : Nat × Nat) (s : List (Nat × Nat)) : List (Nat × Nat) × Bool := (Repr.perase x s, s.contains x)
/-- `BTreeMap<usize, X>::remove(&k)`: the map afterwards, and the removed value. -/
def mapRemove {X : Type} (k : Nat) (m : List (Nat × X)) : List (Nat × X) × Option X :=
  (Repr.AdjListW.merase k m, Repr.mget k m)

'''

# --------------------------------------------------------------------------------------------
# Source scanning (string / comment aware)
# --------------------------------------------------------------------------------------------
def strip_comments(src):
    out, i, n = [], 0, len(src)
    while i < n:
        c = src[i]
        if c == '"':
            j = i + 1
            while j < n and src[j] != '"':
                j += 2 if src[j] == "\\" else 1
            out.append(src[i:j + 1])
            i = j + 1
        elif src.startswith("//", i):
            j = src.find("\n", i)
            i = n if j < 0 else j
        elif src.startswith("/*", i):
            j = src.find("*/", i + 2)
            i = n if j < 0 else j + 2
        elif c == "'":
            m = re.match(r"'(\\.|[^\\'])'", src[i:])
            if m:
                out.append(m.group(0))
                i += m.end()
            else:
                out.append(c)
                i += 1
        else:
            out.append(c)
            i += 1
    return "".join(out)


def match_close(src, i, open_c, close_c):
    """src[i] is just after an `open_c`; return the index just after the matching `close_c`."""
    depth, n = 1, len(src)
    while i < n:
        c = src[i]
        if c == '"':
            i += 1
            while i < n and src[i] != '"':
                i += 2 if src[i] == "\\" else 1
        elif c == open_c:
            depth += 1
        elif c == close_c:
            depth -= 1
            if depth == 0:
                return i + 1
        i += 1
    raise TranslateError(f"unbalanced {open_c}{close_c}")


def non_test_region(src):
    src = strip_comments(src)
    k = src.find("#[cfg(test)]")
    return src if k < 0 else src[:k]


IMPL_RE = re.compile(r"^impl(?:<[^>{}]*>)?\s+(?:(\w+)(?:<[^>{}]*>)?\s+for\s+)?(\w+)(?:<[^>{}]*>)?[^{;]*\{", re.M)
FN_RE = re.compile(r"\bfn\s+(\w+)\s*(?:<[^>()]*>)?\s*\(")


def impl_blocks(region, struct):
    """[(trait or None, block text)] for every `impl … for struct` / `impl struct` (in source order)."""
    out = []
    for m in IMPL_RE.finditer(region):
        if m.group(2) != struct:
            continue
        end = match_close(region, m.end(), "{", "}")
        out.append((m.group(1), region[m.end():end - 1]))
    return out


def blanket_block(region):
    m = re.search(r"^impl<D>\s+(\w+)\s+for\s+D\b[^{;]*\{", region, re.M)
    if not m:
        raise TranslateError("blanket impl `impl<D> … for D` not found")
    end = match_close(region, m.end(), "{", "}")
    return m.group(1), region[m.end():end - 1]


def fns_of(block):
    """{name: (params text, return type text, body text)} of the fns directly inside an impl block."""
    out, pos = {}, 0
    while True:
        m = FN_RE.search(block, pos)
        if not m:
            break
        pe = match_close(block, m.end(), "(", ")")
        params = block[m.end():pe - 1]
        k = block.find("{", pe)
        semi = block.find(";", pe)
        if k < 0 or (0 <= semi < k):
            pos = pe
            continue
        ret = block[pe:k]
        be = match_close(block, k + 1, "{", "}")
        out.setdefault(m.group(1), (params, ret, block[k + 1:be - 1]))
        pos = be
    return out


def check_struct(region, key):
    info = REPRS[key]
    m = re.search(r"pub struct " + info["struct"] + r"(?:<\w+>)?\s*\{", region)
    if not m:
        raise TranslateError(f"{info['dir']}: `pub struct {info['struct']}` not found")
    end = match_close(region, m.end(), "{", "}")
    got = [(a, " ".join(b.split())) for a, b in re.findall(r"(\w+)\s*:\s*([^\n]+?),?\s*(?:\n|$)", region[m.end():end - 1])]
    want = [(f[0], f[1]) for f in info["fields"]]
    if got != want:
        raise TranslateError(f"{info['dir']}: struct fields are {got}, the typed field model expects {want}")


# --------------------------------------------------------------------------------------------
# Tokenizer / parser
# --------------------------------------------------------------------------------------------
TOKEN = re.compile(r'''\s*("(?:[^"\\]|\\.)*"|\d[\d_]*(?:usize|u64|u32|isize)?|[A-Za-z_]\w*(?:!(?!=))?|'''
                   r'''::|==|!=|<=|>=|&&|\|\||->|=>|\.\.=|\.\.|<<|>>|&=|\|=|\^=|\+=|-=|\*=|[(){}\[\].,;|&!+\-*/%^=<>:#?'])''')


def tokenize(src):
    out, i = [], 0
    src = src.strip()
    while i < len(src):
        m = TOKEN.match(src, i)
        if not m:
            if src[i:].strip() == "":
                break
            raise TranslateError(f"cannot tokenize at: {src[i:i+40]!r}")
        out.append(m.group(1))
        i = m.end()
    return out


IDENT = re.compile(r"[A-Za-z_]\w*\Z")
CMP = ("==", "!=", "<", ">", "<=", ">=")
ASSIGN_OPS = ("&=", "|=", "^=", "+=", "-=", "*=", "=")


class Parser:
    def __init__(self, toks):
        self.t, self.i = toks, 0

    def peek(self, k=0):
        return self.t[self.i + k] if self.i + k < len(self.t) else None

    def eat(self, tok=None):
        cur = self.peek()
        if cur is None or (tok is not None and cur != tok):
            ctx = " ".join(self.t[max(0, self.i - 6):self.i + 6])
            raise TranslateError(f"expected {tok!r}, found {cur!r} near `{ctx}`")
        self.i += 1
        return cur

    # ---- statements ----
    def block(self, until=None):
        """stmts until `until` (a closing token, not consumed) or end of input."""
        stmts = []
        while self.peek() != until:
            cur = self.peek()
            if cur == "let":
                self.eat()
                mut = False
                if self.peek() == "mut":
                    self.eat()
                    mut = True
                pat = self.pattern()
                self.eat("=")
                e = self.expr()
                self.eat(";")
                stmts.append(("let", pat, mut, e))
            elif cur in ("assert!", "debug_assert!"):
                if cur != "assert!":
                    raise TranslateError(f"{cur} is outside the supported subset")
                self.eat()
                self.eat("(")
                c = self.expr()
                self.skip_macro_rest()
                self.eat(";")
                stmts.append(("assert", c))
            elif cur == "panic!":
                self.eat()
                self.eat("(")
                self.skip_macro_rest()
                if self.peek() == ";":
                    self.eat()
                stmts.append(("panic",))
            elif cur == "if":
                self.eat()
                c = self.expr()
                self.eat("{")
                self.eat("return")
                r = self.expr()
                self.eat(";")
                self.eat("}")
                if self.peek() == "else":
                    raise TranslateError("`if … { return … } else` is outside the supported subset")
                stmts.append(("ifret", c, r))
            elif cur == "for":
                self.eat()
                pat = self.pattern()
                self.eat("in")
                it = self.expr()
                self.eat("{")
                body = self.block("}")
                self.eat("}")
                stmts.append(("for", pat, it, body))
            elif cur == "return":
                self.eat()
                e = self.expr()
                if self.peek() == ";":
                    self.eat()
                stmts.append(("tail", e))
            else:
                e = self.expr()
                if self.peek() in ASSIGN_OPS:
                    op = self.eat()
                    rhs = self.expr()
                    self.eat(";")
                    stmts.append(("opassign", e, op, rhs))
                elif self.peek() == ";":
                    raise TranslateError("expression statement `…;` is outside the supported subset")
                else:
                    stmts.append(("tail", e))
                    if self.peek() != until:
                        raise TranslateError(f"trailing tokens after the tail expression: {self.t[self.i:self.i+8]}")
        return stmts

    def skip_macro_rest(self):
        depth = 1
        while depth:
            c = self.eat()
            depth += {"(": 1, ")": -1}.get(c, 0)

    def pattern(self):
        while self.peek() in ("&", "&&"):
            self.eat()
        cur = self.peek()
        if cur == "mut":
            raise TranslateError("`mut` binding in a pattern is outside the supported subset")
        if cur == "(":
            self.eat()
            items = []
            while self.peek() != ")":
                items.append(self.pattern())
                if self.peek() == ",":
                    self.eat()
            self.eat(")")
            return ("ptup", items)
        if cur == "_":
            self.eat()
            return ("pwild",)
        if cur and IDENT.match(cur):
            self.eat()
            return ("pvar", cur)
        raise TranslateError(f"unsupported pattern at {cur!r}")

    # ---- expressions (Rust precedence) ----
    def expr(self):
        lo = self.or_()
        if self.peek() == "..":
            self.eat()
            return ("range", lo, self.or_())
        if self.peek() == "..=":
            raise TranslateError("inclusive range is outside the supported subset")
        return lo

    def binl(self, sub, ops):
        l = sub()
        while self.peek() in ops:
            op = self.eat()
            l = ("bin", op, l, sub())
        return l

    def or_(self):
        return self.binl(self.and_, ("||",))

    def and_(self):
        return self.binl(self.cmp, ("&&",))

    def cmp(self):
        l = self.bitor()
        if self.peek() in CMP:
            op = self.eat()
            return ("bin", op, l, self.bitor())
        return l

    def bitor(self):
        return self.binl(self.bitxor, ("|",))

    def bitxor(self):
        return self.binl(self.bitand, ("^",))

    def bitand(self):
        return self.binl(self.shift, ("&",))

    def shift(self):
        return self.binl(self.add, ("<<", ">>"))

    def add(self):
        return self.binl(self.mul, ("+", "-"))

    def mul(self):
        return self.binl(self.cast, ("*", "/", "%"))

    def cast(self):
        e = self.unary()
        while self.peek() == "as":
            self.eat()
            e = ("cast", e, self.eat())
        return e

    def unary(self):
        cur = self.peek()
        if cur == "!":
            self.eat()
            return ("un", "!", self.unary())
        if cur == "-":
            raise TranslateError("unary minus is outside the supported subset")
        if cur in ("&", "&&", "*"):
            self.eat()
            if self.peek() == "mut":
                raise TranslateError("`&mut` expression is outside the supported subset")
            return self.unary()
        return self.postfix()

    def closure(self):
        if self.peek() == "move":
            self.eat()
        params = []
        if self.peek() == "||":
            self.eat()
        else:
            self.eat("|")
            while self.peek() != "|":
                params.append(self.pattern())
                if self.peek() == ",":
                    self.eat()
            self.eat("|")
        if self.peek() == "{":
            self.eat("{")
            body = self.block("}")
            self.eat("}")
        else:
            body = [("tail", self.expr())]
        return ("lam", params, body)

    def args(self):
        self.eat("(")
        out = []
        while self.peek() != ")":
            if self.peek() in ("|", "||", "move"):
                out.append(self.closure())
            else:
                out.append(self.expr())
            if self.peek() == ",":
                self.eat()
        self.eat(")")
        return out

    def postfix(self):
        e = self.primary()
        while True:
            cur = self.peek()
            if cur == ".":
                self.eat()
                name = self.eat()
                if not IDENT.match(name):
                    raise TranslateError(f"unsupported member `.{name}`")
                if self.peek() == "::":
                    raise TranslateError(f"turbofish on .{name} is outside the supported subset")
                if self.peek() == "(":
                    e = ("mcall", e, name, self.args())
                else:
                    e = ("field", e, name)
            elif cur == "[":
                self.eat()
                idx = self.expr()
                self.eat("]")
                e = ("index", e, idx)
            elif cur == "?":
                raise TranslateError("`?` is outside the supported subset")
            else:
                return e

    def primary(self):
        cur = self.peek()
        if cur is None:
            raise TranslateError("unexpected end of body")
        if cur == "(":
            self.eat()
            items = []
            trailing = False
            while self.peek() != ")":
                items.append(self.expr())
                trailing = False
                if self.peek() == ",":
                    self.eat()
                    trailing = True
            self.eat(")")
            if len(items) == 1 and not trailing:
                return items[0]
            return ("tup", items)
        if cur.startswith('"'):
            self.eat()
            return ("str", cur)
        if re.match(r"\d", cur):
            self.eat()
            return ("lit", int(re.sub(r"(usize|u64|u32|isize)\Z", "", cur).replace("_", "")))
        if cur in ("true", "false"):
            self.eat()
            return ("bool", cur)
        if cur in ("if", "match", "unsafe", "while", "loop", "for", "let", "return", "break", "continue"):
            raise TranslateError(f"`{cur}` in expression position is outside the supported subset")
        if IDENT.match(cur):
            self.eat()
            segs = [cur]
            while self.peek() == "::":
                self.eat()
                nxt = self.eat()
                if not IDENT.match(nxt):
                    raise TranslateError(f"unsupported path segment {nxt!r}")
                segs.append(nxt)
            if self.peek() == "{" and cur[0].isupper():
                raise TranslateError(f"struct literal `{cur} {{ … }}` is outside the supported subset")
            if len(segs) == 1:
                if self.peek() == "(":
                    raise TranslateError(f"free function call `{cur}(…)` is outside the supported subset")
                return ("var", cur)
            if self.peek() == "(":
                return ("call", segs, self.args())
            return ("path", segs)
        raise TranslateError(f"unexpected token {cur!r}")


# --------------------------------------------------------------------------------------------
# Types
# --------------------------------------------------------------------------------------------
def lean_ty(t):
    if t == NAT:
        return "Nat"
    if t == BOOL:
        return "Bool"
    if t == BV:
        return "BitVec 64"
    if t == INT:
        return "Int"
    k = t[0]
    if k in ("vec", "set", "slice", "iter"):
        return f"List ({lean_ty(t[1])})"
    if k == "map":
        return f"List (Nat × {lean_ty_atom(t[1])})"
    if k == "opt":
        return f"Option ({lean_ty(t[1])})"
    if k == "tup":
        return " × ".join(lean_ty_atom(x) if i + 1 < len(t[1]) else lean_ty(x) for i, x in enumerate(t[1]))
    if k == "self":
        return REPRS[t[1]]["lean"]
    raise TranslateError(f"no Lean type for {t}")


def lean_ty_atom(t):
    s = lean_ty(t)
    return s if re.fullmatch(r"[\w.]+", s) else f"({s})"


def parse_rust_type(s, repr_key):
    s = " ".join(s.split())
    s = re.sub(r"^&\s*(?:'\w+\s*)?", "", s)
    if s in ("usize",):
        return NAT
    if s == "bool":
        return BOOL
    if s in ("W", "Self::Weight"):
        return INT
    if s == "Self":
        return ("self", repr_key)
    m = re.fullmatch(r"\[(.*)\]", s)
    if m:
        return ("slice", parse_rust_type(m.group(1), repr_key))
    m = re.fullmatch(r"Option<(.*)>", s)
    if m:
        return ("opt", parse_rust_type(m.group(1), repr_key))
    m = re.fullmatch(r"impl Iterator<Item = (.*)>", s)
    if m:
        return ("iter", parse_rust_type(m.group(1), repr_key))
    if s.startswith("(") and s.endswith(")"):
        parts, depth, cur = [], 0, ""
        for c in s[1:-1]:
            if c == "," and depth == 0:
                parts.append(cur)
                cur = ""
            else:
                depth += {"(": 1, "<": 1, "[": 1, ")": -1, ">": -1, "]": -1}.get(c, 0)
                cur += c
        if cur.strip():
            parts.append(cur)
        return ("tup", tuple(parse_rust_type(p, repr_key) for p in parts))
    raise TranslateError(f"type `{s}` is outside the supported subset")


def elem_type(t):
    """Item type of `for x in e` / `e.iter()`."""
    if isinstance(t, tuple):
        if t[0] in ("vec", "set", "slice", "iter"):
            return t[1]
        if t[0] == "map":
            return ("tup", (NAT, t[1]))
    raise TranslateError(f"cannot iterate over a value of type {t}")


# --------------------------------------------------------------------------------------------
# Compilation to Lean
# --------------------------------------------------------------------------------------------
LEAN_RESERVED = {"at", "end", "from", "fun", "have", "show", "then", "else", "open", "in", "do", "by", "with",
                 "match", "let", "if", "def", "theorem", "where", "instance", "structure", "class", "namespace",
                 "section", "variable", "universe", "import", "export", "Type", "Prop", "Sort", "forall", "exists",
                 "calc", "using", "mut", "return", "try", "catch", "finally", "for", "unless", "while", "nomatch",
                 "d", "some", "none", "true", "false"}


def sanitize(name):
    if re.fullmatch(r"[rpx]_\d+", name):
        raise TranslateError(f"identifier `{name}` clashes with the translator's fresh names")
    return name + "'" if name in LEAN_RESERVED else name


class Val:
    """A translated expression: `pre` = partial computations that must succeed first (in order),
    `code` = total Lean term over the variables bound by `pre`, `prop` = Prop form of a comparison."""

    def __init__(self, code, ty, pre=None, prop=None, lit=None):
        self.code, self.ty, self.pre, self.prop, self.lit = code, ty, list(pre or []), prop, lit


def flush(pre, body, nl=" "):
    """Sequence the partial computations `pre`, then the Option-valued `body`."""
    for name, code in reversed(pre):
        if body == f"some {name}":
            body = code
        else:
            body = f"({code}).bind (fun {name} =>{nl}{body})"
    return body


class Ctx:
    def __init__(self, key, fntab, mutating=False):
        self.key, self.fntab, self.mutating = key, fntab, mutating
        self.n = 0
        self.mut_iters = set()

    def fresh(self, p):
        self.n += 1
        return f"{p}_{self.n}"


def coerce(v, ty):
    if v.ty == "lit":
        if ty in (None, NAT, "lit"):
            return Val(str(v.lit), NAT, v.pre)
        if ty == BV:
            return Val(f"{v.lit}#64", BV, v.pre)
        raise TranslateError(f"integer literal {v.lit} where a value of type {ty} is expected")
    if ty is not None and ty != "lit" and v.ty != ty:
        raise TranslateError(f"type mismatch: expected {ty}, found {v.ty} in `{v.code}`")
    return v


def unify(a, b, expect=None):
    if a.ty == "lit" and b.ty == "lit":
        t = expect if expect in (NAT, BV) else NAT
        return coerce(a, t), coerce(b, t)
    if a.ty == "lit":
        return coerce(a, b.ty), b
    if b.ty == "lit":
        return a, coerce(b, a.ty)
    if a.ty != b.ty:
        raise TranslateError(f"operands of different types {a.ty} / {b.ty}: `{a.code}` `{b.code}`")
    return a, b


def is_small_mask(e):
    """`x & K` with a literal K <= 63: a shift amount that is provably < 64."""
    return e[0] == "bin" and e[1] == "&" and ((e[3][0] == "lit" and e[3][1] <= 63) or (e[2][0] == "lit" and e[2][1] <= 63))


def bind_pattern(pat, ty, code, env):
    """Bind the variables of a (tuple) pattern to projections of `code`."""
    if pat[0] == "pwild":
        return
    if pat[0] == "pvar":
        env[pat[1]] = Val(code, ty)
        return
    if not (isinstance(ty, tuple) and ty[0] == "tup" and len(ty[1]) == len(pat[1])):
        raise TranslateError(f"tuple pattern of arity {len(pat[1])} against a value of type {ty}")
    n = len(pat[1])
    for i, (p, t) in enumerate(zip(pat[1], ty[1])):
        proj = code + ".2" * i + (".1" if i + 1 < n else "")
        bind_pattern(p, t, proj, env)


def compile_closure(lam, param_tys, env, ctx):
    """-> (lean fun, return type, partial?)"""
    if lam[0] == "path":
        x = ctx.fresh("x")
        lam = ("lam", [("pvar", x)], [("tail", ("mcall", ("var", x), lam[1][-1], []))])
        fresh_param = True
    else:
        fresh_param = False
    if lam[0] != "lam":
        raise TranslateError("a closure or a method path is expected as the argument")
    params, body = lam[1], lam[2]
    if len(params) != len(param_tys):
        raise TranslateError(f"closure with {len(params)} parameters where {len(param_tys)} are expected")
    env = dict(env)
    env.pop("__top__", None)
    names = []
    for p, t in zip(params, param_tys):
        if p[0] == "pvar":
            nm = p[1] if fresh_param else sanitize(p[1])
            env[p[1]] = Val(nm, t)
            names.append(nm)
        else:
            nm = ctx.fresh("p")
            bind_pattern(p, t, nm, env)
            names.append(nm)
    comp = compile_block(body, env, ctx, None)
    partial = comp_partial(comp)
    ty = comp_type(comp)
    code = render(comp, partial, False, ctx)
    head = " ".join(names) if names else "_"
    return f"(fun {head} => {code})", ty, partial, (names, comp)


def compile_args(args, tys, env, ctx):
    if len(args) != len(tys):
        raise TranslateError(f"{len(args)} arguments where {len(tys)} are expected")
    pre, codes = [], []
    for a, t in zip(args, tys):
        v = coerce(compile_expr(a, env, ctx, t), t)
        pre += v.pre
        codes.append(v.code)
    return pre, codes


def call_fn(sig, args, env, ctx):
    pre, codes = compile_args(args, sig["params"], env, ctx)
    recv = [env["self"].code] if sig["has_self"] else []
    code = "(" + " ".join([sig["lean"]] + recv + codes) + ")"
    if sig.get("mutating"):
        raise TranslateError(f"call of the mutating method {sig['lean']} is outside the supported subset")
    if sig["partial"]:
        r = ctx.fresh("r")
        return Val(r, sig["ret"], pre + [(r, code)])
    return Val(code, sig["ret"], pre)


def compile_expr(e, env, ctx, expect=None):
    k = e[0]
    if k == "lit":
        v = Val(str(e[1]), "lit", lit=e[1])
        return coerce(v, expect) if expect in (NAT, BV) else v
    if k == "bool":
        return Val(e[1], BOOL)
    if k == "str":
        raise TranslateError("string literal in expression position")
    if k == "var":
        if e[1] not in env:
            raise TranslateError(f"unknown identifier `{e[1]}`")
        v = env[e[1]]
        return Val(v.code, v.ty)
    if k == "field":
        if e[1] == ("var", "self"):
            for rname, _, lname, ty in REPRS[ctx.key]["fields"]:
                if rname == e[2]:
                    return Val(f"{env['self'].code}.{lname}", ty)
            raise TranslateError(f"unknown field self.{e[2]}")
        raise TranslateError(f"field access .{e[2]} on a non-self value is outside the supported subset")
    if k == "cast":
        v = compile_expr(e[1], env, ctx, None)
        if e[2] == "usize" and v.ty in (NAT, "lit"):
            return coerce(v, NAT)
        raise TranslateError(f"cast of a {v.ty} value `as {e[2]}` is outside the supported subset")
    if k == "un":
        v = compile_expr(e[2], env, ctx, expect)
        if v.ty == BOOL:
            return Val(f"(!{v.code})", BOOL, v.pre)
        if v.ty == BV:
            return Val(f"(~~~{v.code})", BV, v.pre)
        raise TranslateError(f"`!` on a value of type {v.ty} is outside the supported subset")
    if k == "tup":
        vs = [coerce(compile_expr(x, env, ctx, None), None) for x in e[1]]
        return Val("(" + ", ".join(v.code for v in vs) + ")", ("tup", tuple(v.ty for v in vs)),
                   [p for v in vs for p in v.pre])
    if k == "range":
        lo = coerce(compile_expr(e[1], env, ctx, NAT), NAT)
        hi = coerce(compile_expr(e[2], env, ctx, NAT), NAT)
        if e[1] == ("lit", 0):
            return Val(f"(List.range {hi.code})", ("iter", NAT), lo.pre + hi.pre)
        return Val(f"(List.range' {lo.code} ({hi.code} - {lo.code}))", ("iter", NAT), lo.pre + hi.pre)
    if k == "index":
        a = compile_expr(e[1], env, ctx, None)
        i = coerce(compile_expr(e[2], env, ctx, NAT), NAT)
        if not (isinstance(a.ty, tuple) and a.ty[0] in ("vec", "slice")):
            raise TranslateError(f"indexing a value of type {a.ty} is outside the supported subset")
        r = ctx.fresh("r")
        return Val(r, a.ty[1], a.pre + i.pre + [(r, f"{a.code}[{i.code}]?")])
    if k == "bin":
        return compile_bin(e, env, ctx, expect)
    if k == "call":
        segs, args = e[1], e[2]
        if len(segs) == 2 and segs[0] == "Self":
            sig = ctx.fntab.get((ctx.key, segs[1]))
            if sig is None:
                raise TranslateError(f"callee Self::{segs[1]} is not translated (nor a declared hand-modelled callee)")
            if sig["has_self"]:
                raise TranslateError(f"Self::{segs[1]} called without a receiver")
            return call_fn(sig, args, env, ctx)
        raise TranslateError(f"call of `{'::'.join(segs)}` is outside the supported subset")
    if k == "mcall":
        return compile_mcall(e, env, ctx, expect)
    if k == "path":
        raise TranslateError(f"path `{'::'.join(e[1])}` in expression position")
    if k == "lam":
        raise TranslateError("closure in expression position")
    raise TranslateError(f"unknown node {k}")


def compile_bin(e, env, ctx, expect):
    op = e[1]
    if op in ("&&", "||"):
        a = coerce(compile_expr(e[2], env, ctx, None), BOOL)
        b = coerce(compile_expr(e[3], env, ctx, None), BOOL)
        if not b.pre:
            return Val(f"({a.code} {op} {b.code})", BOOL, a.pre)
        # the right operand may panic, but is evaluated only when the left one does not decide
        r = ctx.fresh("r")
        rhs = flush(b.pre, f"some {b.code}")
        code = f"(if {a.code} then {rhs} else some false)" if op == "&&" else f"(if {a.code} then some true else {rhs})"
        return Val(r, BOOL, a.pre + [(r, code)])
    if op in CMP:
        a = compile_expr(e[2], env, ctx, None)
        b = compile_expr(e[3], env, ctx, None)
        a, b = unify(a, b)
        pre = a.pre + b.pre
        if op in ("==", "!="):
            return Val(f"({a.code} {op} {b.code})", BOOL, pre)
        if a.ty not in (NAT, INT):
            raise TranslateError(f"ordering comparison on {a.ty}")
        return Val(f"decide ({a.code} {op} {b.code})", BOOL, pre, prop=f"{a.code} {op} {b.code}")
    if op in ("+", "-", "*", "/", "%"):
        a = compile_expr(e[2], env, ctx, NAT)
        b = compile_expr(e[3], env, ctx, NAT)
        a, b = unify(a, b, NAT)
        if a.ty != NAT:
            raise TranslateError(f"arithmetic `{op}` on {a.ty} is outside the supported subset")
        return Val(f"({a.code} {op} {b.code})", NAT, a.pre + b.pre)
    if op in ("&", "|", "^"):
        a = compile_expr(e[2], env, ctx, expect)
        b = compile_expr(e[3], env, ctx, expect)
        a, b = unify(a, b, expect)
        pre = a.pre + b.pre
        if a.ty == BOOL:
            lop = {"&": "&&", "|": "||", "^": "^^"}[op]
            return Val(f"({a.code} {lop} {b.code})", BOOL, pre)
        if a.ty in (BV, NAT):
            return Val(f"({a.code} {op * 3} {b.code})", a.ty, pre)
        raise TranslateError(f"`{op}` on {a.ty}")
    if op in ("<<", ">>"):
        a = compile_expr(e[2], env, ctx, expect)
        a = coerce(a, expect if (a.ty == "lit" and expect in (NAT, BV)) else (NAT if a.ty == "lit" else a.ty))
        b = coerce(compile_expr(e[3], env, ctx, NAT), NAT)
        pre = a.pre + b.pre
        if op == ">>" and a.ty == NAT:
            return Val(f"({a.code} >>> {b.code})", NAT, pre)
        if a.ty == BV:
            small = is_small_mask(e[3]) or (e[3][0] == "lit" and e[3][1] <= 63)
            if not small:
                raise TranslateError("shift of a 64-bit block by an amount that is not visibly < 64 (`x & K`, K <= 63)")
            return Val(f"({a.code} {'<<<' if op == '<<' else '>>>'} {b.code})", BV, pre)
        raise TranslateError(f"`{op}` on {a.ty} is outside the supported subset (overflow semantics)")
    raise TranslateError(f"operator {op}")


def compile_mcall(e, env, ctx, expect):
    recv, name, args = e[1], e[2], e[3]
    if recv == ("var", "self"):
        sig = ctx.fntab.get((ctx.key, name))
        if sig is None:
            raise TranslateError(f"callee self.{name} is not translated (nor a declared hand-modelled callee)")
        if not sig["has_self"]:
            raise TranslateError(f"self.{name}: not a method")
        return call_fn(sig, args, env, ctx)
    if name == "expect" and recv[0] == "mcall" and recv[2] == "next":
        raise TranslateError("`.next().expect(…)` is only supported as `let p = it.next().expect(…);` on a `let mut` iterator")
    r = compile_expr(recv, env, ctx, None)
    if r.ty == "lit":
        r = coerce(r, NAT)
    ty = r.ty
    kind = ty[0] if isinstance(ty, tuple) else ty
    na = len(args)

    def arg(i, t):
        return coerce(compile_expr(args[i], env, ctx, t), t)

    def clos(i, tys):
        return compile_closure(args[i], tys, env, ctx)

    # ---- containers ----
    if kind in ("vec", "set", "map", "slice"):
        if name == "len" and na == 0:
            return Val(f"(List.length {r.code})", NAT, r.pre)
        if name == "is_empty" and na == 0:
            return Val(f"(List.isEmpty {r.code})", BOOL, r.pre)
        if name == "iter" and na == 0:
            return Val(r.code, ("iter", elem_type(ty)), r.pre)
    if kind == "vec" and name == "get" and na == 1:
        i = arg(0, NAT)
        return Val(f"{r.code}[{i.code}]?", ("opt", ty[1]), r.pre + i.pre)
    if kind == "set" and name == "contains" and na == 1:
        x = arg(0, ty[1])
        return Val(f"(List.contains {r.code} {x.code})", BOOL, r.pre + x.pre)
    if kind == "map":
        if name == "get" and na == 1:
            x = arg(0, NAT)
            return Val(f"(Repr.mget {x.code} {r.code})", ("opt", ty[1]), r.pre + x.pre)
        if name == "contains_key" and na == 1:
            x = arg(0, NAT)
            return Val(f"(Repr.mget {x.code} {r.code}).isSome", BOOL, r.pre + x.pre)
        if name == "keys" and na == 0:
            return Val(f"(List.map (fun p => p.1) {r.code})", ("iter", NAT), r.pre)
        if name == "values" and na == 0:
            return Val(f"(List.map (fun p => p.2) {r.code})", ("iter", ty[1]), r.pre)
    # ---- iterators ----
    if kind == "iter":
        t = ty[1]
        if name in ("copied", "cloned") and na == 0:
            return r
        if name == "count" and na == 0:
            return Val(f"(List.length {r.code})", NAT, r.pre)
        if name == "sum" and na == 0:
            if t != NAT:
                raise TranslateError(f"sum over {t}")
            return Val(f"(List.sum {r.code})", NAT, r.pre)
        if name == "enumerate" and na == 0:
            return Val(f"(enumerate {r.code})", ("iter", ("tup", (NAT, t))), r.pre)
        if name == "skip" and na == 1:
            n = arg(0, NAT)
            return Val(f"(List.drop {n.code} {r.code})", ty, r.pre + n.pre)
        if name == "zip" and na == 1:
            o = compile_expr(args[0], env, ctx, None)
            return Val(f"(List.zip {r.code} {o.code})", ("iter", ("tup", (t, elem_type(o.ty)))), r.pre + o.pre)
        if name in ("map", "filter", "all", "any", "filter_map", "flat_map") and na == 1:
            f, rt, partial, _ = clos(0, [t])
            if name == "map":
                if partial:
                    x = ctx.fresh("r")
                    return Val(x, ("iter", rt), r.pre + [(x, f"mapO {f} {r.code}")])
                return Val(f"(List.map {f} {r.code})", ("iter", rt), r.pre)
            if name in ("filter", "all", "any") and rt != BOOL:
                raise TranslateError(f".{name} with a closure returning {rt}")
            if name == "filter":
                if partial:
                    x = ctx.fresh("r")
                    return Val(x, ty, r.pre + [(x, f"filterO {f} {r.code}")])
                return Val(f"(List.filter {f} {r.code})", ty, r.pre)
            if name == "all":
                if partial:
                    x = ctx.fresh("r")
                    return Val(x, BOOL, r.pre + [(x, f"allO {f} {r.code}")])
                return Val(f"(List.all {r.code} {f})", BOOL, r.pre)
            if partial:
                raise TranslateError(f".{name} with a closure that may panic is outside the supported subset")
            if name == "any":
                return Val(f"(List.any {r.code} {f})", BOOL, r.pre)
            if name == "filter_map":
                if not (isinstance(rt, tuple) and rt[0] == "opt"):
                    raise TranslateError("filter_map with a closure that does not return an Option")
                return Val(f"(List.filterMap {f} {r.code})", ("iter", rt[1]), r.pre)
            if name == "flat_map":
                return Val(f"(List.flatMap {f} {r.code})", ("iter", elem_type(rt)), r.pre)
    # ---- Option ----
    if kind == "opt":
        t = ty[1]
        if name == "is_some" and na == 0:
            return Val(f"({r.code}).isSome", BOOL, r.pre)
        if name in ("is_some_and", "and_then", "map") and na == 1:
            _, rt, partial, (names, comp) = clos(0, [t])
            if partial:
                raise TranslateError(f".{name} with a closure that may panic is outside the supported subset")
            body = render(comp, False, False, ctx)
            if name == "is_some_and":
                if rt != BOOL:
                    raise TranslateError("is_some_and with a non-bool closure")
                return Val(f"(match {r.code} with | none => false | some {names[0]} => {body})", BOOL, r.pre)
            if name == "and_then":
                if not (isinstance(rt, tuple) and rt[0] == "opt"):
                    raise TranslateError("and_then with a closure that does not return an Option")
                return Val(f"(match {r.code} with | none => none | some {names[0]} => {body})", rt, r.pre)
            return Val(f"(match {r.code} with | none => none | some {names[0]} => some ({body}))", ("opt", rt), r.pre)
        if name == "map_or" and na == 2:
            _, rt, partial, (names, comp) = clos(1, [t])
            if partial:
                raise TranslateError(".map_or with a closure that may panic")
            dflt = coerce(compile_expr(args[0], env, ctx, rt), rt)
            body = render(comp, False, False, ctx)
            return Val(f"(match {r.code} with | none => {dflt.code} | some {names[0]} => {body})", rt, r.pre + dflt.pre)
        if name == "map_or_else" and na == 2:
            g = args[0]
            if not (g[0] == "lam" and not g[1] and g[2] == [("panic",)]):
                raise TranslateError(".map_or_else whose first closure is not `|| { panic!(…) }`")
            _, rt, partial, (names, comp) = clos(1, [t])
            if partial:
                raise TranslateError(".map_or_else with a closure that may panic")
            body = render(comp, False, False, ctx)
            # `none` of the receiver = the panic branch; otherwise the second closure on the payload
            return Val(f"({body})", rt, r.pre + [(names[0], r.code)])
        if name == "expect" and na == 1:
            x = ctx.fresh("r")
            return Val(x, t, r.pre + [(x, r.code)])
    # ---- bool / integers ----
    if kind == BOOL and name == "then_some" and na == 1:
        x = coerce(compile_expr(args[0], env, ctx, None), None)
        if x.pre:
            raise TranslateError("then_some with an argument that may panic")
        return Val(f"(if {r.code} then some {x.code} else none)", ("opt", x.ty), r.pre)
    if kind == BV and name == "count_ones" and na == 0:
        return Val(f"(popcount {r.code})", NAT, r.pre)
    raise TranslateError(f"method .{name}/{na} on a value of type {ty} is outside the supported subset")


# ---- statements -> Comp tree ----
# ("ret", Val) | ("if", Val, Comp, Comp) | ("let", name, Val, Comp) | ("assert", Val, Comp) | ("fail",)
# | ("next", itercode, headname, tailname, Comp) | ("retpair", Val)   (Val.code already `(d', result)`)
def compile_block(stmts, env, ctx, ret_ty):
    if not stmts:
        raise TranslateError("empty body / missing tail expression")
    s, rest = stmts[0], stmts[1:]
    k = s[0]
    if k == "tail":
        if rest:
            raise TranslateError("statements after the tail expression")
        if ctx.mutating and env.get("__top__"):
            mt = compile_mut_tail(s[1], env, ctx)
            if mt is not None:
                return ("retpair", mt)
        v = compile_expr(s[1], env, ctx, ret_ty)
        v = coerce(v, ret_ty if v.ty == "lit" else None)
        return mkret(v, env, ctx)
    if k == "panic":
        return ("fail",)
    if k == "let":
        pat, mut, e = s[1], s[2], s[3]
        if (not mut and e[0] == "mcall" and e[2] == "expect" and e[1][0] == "mcall" and e[1][2] == "next"
                and e[1][1][0] == "var" and e[1][1][1] in ctx.mut_iters and not e[1][3]):
            it = e[1][1][1]
            itv = env[it]
            head = ctx.fresh("p")
            env2 = dict(env)
            bind_pattern(pat, itv.ty[1], head, env2)
            return ("next", itv.code, head, itv.code, compile_block(rest, env2, ctx, ret_ty))
        v = coerce(compile_expr(e, env, ctx, None), None)
        env2 = dict(env)
        if pat[0] == "pvar":
            nm = sanitize(pat[1])
            if mut:
                if not (isinstance(v.ty, tuple) and v.ty[0] == "iter"):
                    raise TranslateError("`let mut` of a non-iterator is outside the supported subset")
                ctx.mut_iters.add(pat[1])
            env2[pat[1]] = Val(nm, v.ty)
            return ("let", nm, v, compile_block(rest, env2, ctx, ret_ty))
        if mut:
            raise TranslateError("`let mut` with a pattern")
        nm = ctx.fresh("p")
        bind_pattern(pat, v.ty, nm, env2)
        return ("let", nm, v, compile_block(rest, env2, ctx, ret_ty))
    if k == "assert":
        c = coerce(compile_expr(s[1], env, ctx, None), BOOL)
        return ("assert", c, compile_block(rest, env, ctx, ret_ty))
    if k == "ifret":
        c = coerce(compile_expr(s[1], env, ctx, None), BOOL)
        r = coerce(compile_expr(s[2], env, ctx, ret_ty), ret_ty)
        return ("if", c, mkret(r, env, ctx), compile_block(rest, env, ctx, ret_ty))
    if k == "for":
        if ret_ty != BOOL:
            raise TranslateError("`for … { return false }` in a function that does not return bool")
        allv = compile_for(s, env, ctx)
        return ("if", allv, compile_block(rest, env, ctx, ret_ty), ("ret", Val("false", BOOL)))
    if k == "opassign":
        if not (ctx.mutating and env.get("__top__")):
            raise TranslateError("assignment outside a `&mut self` method body")
        place, op, rhs = s[1], s[2], s[3]
        if not (place[0] == "index" and place[1][0] == "field" and place[1][1] == ("var", "self") and op in ("&=", "|=", "^=")):
            raise TranslateError("only `self.f[i] &= e` / `|=` / `^=` assignments are supported")
        fld = compile_expr(place[1], env, ctx, None)
        if not (isinstance(fld.ty, tuple) and fld.ty[0] == "vec" and fld.ty[1] == BV):
            raise TranslateError("compound assignment to a field that is not a vector of blocks")
        i = coerce(compile_expr(place[2], env, ctx, NAT), NAT)
        v = coerce(compile_expr(rhs, env, ctx, BV), BV)
        old = ctx.fresh("r")
        lname = fld.code.split(".", 1)[1]
        d = env["self"].code
        new = f"{{ {d} with {lname} := {fld.code}.set {i.code} ({old} {op[0] * 3} {v.code}) }}"
        val = Val(new, ("self", ctx.key), v.pre + i.pre + [(old, f"{fld.code}[{i.code}]?")])
        return ("let", d, val, compile_block(rest, env, ctx, ret_ty))
    raise TranslateError(f"statement {k}")


def mkret(v, env, ctx):
    """A returned value; in a `&mut self` method body the result is `(self afterwards, value)`."""
    if ctx.mutating and env.get("__top__"):
        return ("retpair", Val(f"({env['self'].code}, {v.code})", v.ty, v.pre))
    return ("ret", v)


def compile_for(s, env, ctx):
    """`for p in e { body }` where body is one `if c { return false; }` or one nested such `for` -> Val of `all`."""
    pat, it, body = s[1], s[2], s[3]
    itv = compile_expr(it, env, ctx, None)
    et = elem_type(itv.ty)
    env2 = dict(env)
    if pat[0] == "pvar":
        nm = sanitize(pat[1])
        env2[pat[1]] = Val(nm, et)
    else:
        nm = ctx.fresh("p")
        bind_pattern(pat, et, nm, env2)
    if len(body) != 1:
        raise TranslateError("`for` body with more than one statement")
    b = body[0]
    if b[0] == "ifret":
        if b[2] != ("bool", "false"):
            raise TranslateError("`for` body must be `if c { return false; }`")
        c = coerce(compile_expr(b[1], env2, ctx, None), BOOL)
        inner = Val(f"(!{c.code})", BOOL, c.pre)
    elif b[0] == "for":
        inner = compile_for(b, env2, ctx)
    else:
        raise TranslateError("`for` body must be `if c { return false; }` or a nested such `for`")
    if inner.pre:
        x = ctx.fresh("r")
        f = f"(fun {nm} => {flush(inner.pre, 'some ' + inner.code)})"
        return Val(x, BOOL, itv.pre + [(x, f"allO {f} {itv.code}")])
    return Val(f"(List.all {itv.code} (fun {nm} => {inner.code}))", BOOL, itv.pre)


def compile_mut_tail(e, env, ctx):
    """The mutating tail expressions of `remove_arc`; -> Val whose code is `(new self, result)` or None."""
    d = env["self"].code

    def self_field(x):
        if x[0] == "field" and x[1] == ("var", "self"):
            return compile_expr(x, env, ctx, None)
        return None

    # self.f.remove(&k) on a set of pairs / of usize
    if e[0] == "mcall" and e[2] == "remove" and len(e[3]) == 1:
        f = self_field(e[1])
        if f is not None and f.ty[0] == "set":
            k = coerce(compile_expr(e[3][0], env, ctx, f.ty[1]), f.ty[1])
            helper = "psetRemove" if f.ty[1] == PAIR else "setRemove"
            lname = f.code.split(".", 1)[1]
            r = ctx.fresh("r")
            return Val(f"(let {r} := {helper} {k.code} {f.code}; ({{ {d} with {lname} := {r}.1 }}, {r}.2))",
                       BOOL, k.pre)
    # self.f.get_mut(k).is_some_and(|x| x.remove(&v)[.is_some()])
    if (e[0] == "mcall" and e[2] == "is_some_and" and len(e[3]) == 1 and e[1][0] == "mcall" and e[1][2] == "get_mut"
            and len(e[1][3]) == 1):
        f = self_field(e[1][1])
        lam = e[3][0]
        if f is None or f.ty[0] not in ("vec", "map") or lam[0] != "lam" or len(lam[1]) != 1 or lam[1][0][0] != "pvar":
            return None
        k = coerce(compile_expr(e[1][3][0], env, ctx, NAT), NAT)
        x = lam[1][0][1]
        xs = sanitize(x)
        body = lam[2]
        if len(body) != 1 or body[0][0] != "tail":
            raise TranslateError("get_mut(..).is_some_and closure body is not a single expression")
        b = body[0][1]
        inner_ty = f.ty[1]
        env2 = dict(env)
        env2[x] = Val(xs, inner_ty)
        if (b[0] == "mcall" and b[2] == "remove" and b[1] == ("var", x) and len(b[3]) == 1 and inner_ty == ("set", NAT)):
            v = coerce(compile_expr(b[3][0], env2, ctx, NAT), NAT)
            step = f"setRemove {v.code} {xs}"
            res = "{r}.2"
        elif (b[0] == "mcall" and b[2] == "is_some" and not b[3] and b[1][0] == "mcall" and b[1][2] == "remove"
              and b[1][1] == ("var", x) and len(b[1][3]) == 1 and inner_ty[0] == "map"):
            v = coerce(compile_expr(b[1][3][0], env2, ctx, NAT), NAT)
            step = f"mapRemove {v.code} {xs}"
            res = "{r}.2.isSome"
        else:
            raise TranslateError("get_mut(..).is_some_and(|x| …): only `x.remove(&v)` on a set and "
                                 "`x.remove(&v).is_some()` on a map are supported")
        if v.pre or k.pre:
            raise TranslateError("remove_arc arguments that may panic")
        r = ctx.fresh("r")
        lname = f.code.split(".", 1)[1]
        if f.ty[0] == "vec":
            get = f"{f.code}[{k.code}]?"
            put = f"{f.code}.set {k.code} {r}.1"
        else:
            get = f"Repr.mget {k.code} {f.code}"
            put = f"mset {k.code} {r}.1 {f.code}"
        return Val(f"(match {get} with | none => ({d}, false) | some {xs} => "
                   f"let {r} := {step}; ({{ {d} with {lname} := {put} }}, {res.format(r=r)}))", BOOL, [])
    return None


def comp_partial(c):
    k = c[0]
    if k in ("ret", "retpair"):
        return bool(c[1].pre)
    if k == "if":
        return bool(c[1].pre) or comp_partial(c[2]) or comp_partial(c[3])
    if k == "let":
        return bool(c[2].pre) or comp_partial(c[3])
    return True  # assert / fail / next


def comp_type(c):
    k = c[0]
    if k in ("ret", "retpair"):
        return c[1].ty
    if k == "if":
        a, b = comp_type(c[2]), comp_type(c[3])
        if a is None:
            return b
        if b is not None and a != b:
            raise TranslateError(f"branches of different types {a} / {b}")
        return a
    if k == "let":
        return comp_type(c[3])
    if k == "assert":
        return comp_type(c[2])
    if k == "next":
        return comp_type(c[4])
    return None


def render(c, partial, top, ctx):
    nl = "\n  " if top else " "
    k = c[0]

    def cond(v):
        return v.prop if v.prop else v.code

    if k in ("ret", "retpair"):
        v = c[1]
        return flush(v.pre, f"some {v.code}", nl) if partial else v.code
    if k == "fail":
        return "none"
    if k == "if":
        v = c[1]
        if top and c[2][0] not in ("ret", "retpair", "fail"):
            # `for … { return false }` followed by the rest of the body
            body = f"if {cond(v)} then{nl}{render(c[2], partial, top, ctx)}{nl}else {render(c[3], partial, False, ctx)}"
        else:
            body = f"if {cond(v)} then {render(c[2], partial, False, ctx)} else{nl}{render(c[3], partial, top, ctx)}"
        if not top:
            body = f"({body})"
        return flush(v.pre, body, nl) if partial else body
    if k == "let":
        v = c[2]
        rest = render(c[3], partial, top, ctx)
        body = f"let {c[1]} := {v.code}" + (f"\n  {rest}" if top else f"; {rest}")
        if not top:
            body = f"({body})"
        return flush(v.pre, body, nl) if partial else body
    if k == "assert":
        v = c[1]
        rest = render(c[2], True, top, ctx)
        body = f"if {cond(v)} then{nl}{rest}{nl}else none"
        if not top:
            body = f"({body})"
        return flush(v.pre, body, nl)
    if k == "next":
        rest = render(c[4], True, False, ctx)
        return f"(match {c[1]} with{nl}| [] => none{nl}| {c[2]} :: {c[3]} => {rest})"
    raise TranslateError(f"render {k}")


# --------------------------------------------------------------------------------------------
# Driver
# --------------------------------------------------------------------------------------------
def parse_params(params, key):
    """-> (has_self, mutating, [(name, type)])"""
    ps = [" ".join(p.split()) for p in split_top(params)]
    has_self = mutating = False
    out = []
    for p in ps:
        if p in ("&self", "self"):
            has_self = True
        elif p == "&mut self":
            has_self = mutating = True
        else:
            name, ty = [x.strip() for x in p.split(":", 1)]
            out.append((name, parse_rust_type(ty, key)))
    return has_self, mutating, out


def split_top(s):
    parts, depth, cur = [], 0, ""
    for c in s:
        if c == "," and depth == 0:
            parts.append(cur)
            cur = ""
        else:
            depth += {"(": 1, "<": 1, "[": 1, ")": -1, ">": -1, "]": -1}.get(c, 0)
            cur += c
    if cur.strip():
        parts.append(cur)
    return [p for p in parts if p.strip()]


def translate_fn(key, where, rname, lname, opts, params, ret, body, fntab, impl_label):
    for w in BANNED_WORDS:
        if re.search(r"\b" + w + r"\b", body):
            raise TranslateError(f"`{w}` is outside the supported subset")
    has_self, mutating, ps = parse_params(params, key)
    ret = ret.strip()
    if not ret.startswith("->"):
        raise TranslateError("missing return type")
    ret_ty = opts.get("ret") or parse_rust_type(ret[2:].split(" where ")[0], key)
    ctx = Ctx(key, fntab, mutating)
    env = {"__top__": True}
    if has_self:
        env["self"] = Val("d", ("self", key))
    lean_params = [f"(d : {REPRS[key]['lean']})"] if has_self else []
    for name, ty in ps:
        nm = sanitize(name)
        env[name] = Val(nm, ty)
        lean_params.append(f"({nm} : {lean_ty(ty)})")
    p = Parser(tokenize(body))
    stmts = p.block(None)
    comp = compile_top(stmts, env, ctx, ret_ty)
    got = comp_type(comp)
    if got is not None and got != ret_ty and not (got[0] == "iter" == ret_ty[0] and got[1] == ret_ty[1]):
        raise TranslateError(f"body has type {got}, the signature says {ret_ty}")
    partial = comp_partial(comp)
    code = render_top(comp, partial, ctx)
    res_ty = lean_ty(ret_ty)
    if mutating:
        res_ty = f"{REPRS[key]['lean']} × {lean_ty_atom(ret_ty)}"
    if partial:
        res_ty = f"Option ({res_ty})"
    src_line = " ".join(body.split())
    if "-/" in src_line or "/-" in src_line:
        raise TranslateError("the quoted source contains a Lean comment delimiter")
    doc = f"/-- `{where}`: `{impl_label}` `fn {rname}` — `{src_line}` -/"
    text = f"{doc}\ndef {lname} {' '.join(lean_params)} : {res_ty} :=\n  {code}\n"
    fntab[(key, rname)] = dict(lean=f"{key}.{lname}", params=[t for _, t in ps], ret=ret_ty, partial=partial,
                               has_self=has_self, mutating=mutating)
    return text


def compile_top(stmts, env, ctx, ret_ty):
    return compile_block(stmts, env, ctx, ret_ty)


def render_top(comp, partial, ctx):
    # closures are rendered while compiling (in_fn_body must not wrap their results into pairs)
    return render(comp, partial, True, ctx)


def load_sources(repo):
    srcs = {}
    for key in REPR_ORDER:
        path = os.path.join(repo, "src", "repr", REPRS[key]["dir"], "mod.rs")
        region = non_test_region(open(path).read())
        check_struct(region, key)
        blocks = impl_blocks(region, REPRS[key]["struct"])
        srcs[key] = [(trait, fns_of(b)) for trait, b in blocks]
    return srcs


def translate(repo):
    srcs = load_sources(repo)
    ops = {}
    out = [HEADER.replace("{repo}", repo)]
    fntab = dict(EXTERNALS)
    cur = None
    for row in TARGETS:
        key, impl, rname, lname = row[:4]
        opts = row[4] if len(row) > 4 else {}
        if key != cur:
            if cur is not None:
                out.append(f"end {cur}\n")
            info = REPRS[key]
            out.append(f"/-! ## `{info['struct']}` (`src/repr/{info['dir']}/mod.rs`) -/\nnamespace {key}\n")
            cur = key
        where = f"repr/{REPRS[key]['dir']}/mod.rs"
        try:
            if impl is not None and impl.startswith("@"):
                f = impl[1:]
                if f not in ops:
                    ops[f] = blanket_block(non_test_region(open(os.path.join(repo, "src", f)).read()))
                trait, block = ops[f]
                fns = fns_of(block)
                if rname not in fns:
                    raise TranslateError("fn not found in the blanket impl")
                where = f
                label = f"impl<D> {trait} for D, D := {REPRS[key]['struct']}"
            else:
                cands = [fns for trait, fns in srcs[key] if trait == impl and rname in fns]
                if not cands:
                    raise TranslateError("impl / fn not found")
                if len(cands) > 1:
                    raise TranslateError("more than one matching impl")
                fns = cands[0]
                label = f"impl {impl} for {REPRS[key]['struct']}" if impl else f"impl {REPRS[key]['struct']}"
            params, ret, body = fns[rname]
            # inside the namespace `key`, definitions are referred to as `key.name` from the root namespace
            text = translate_fn(key, where, rname, lname, opts, params, ret, body, fntab, label)
        except TranslateError as e:
            raise TranslateError(f"{REPRS[key]['dir']}: {impl or 'inherent'}::{rname}: {e}")
        out.append(text)
    out.append(f"end {cur}\n")
    out.append("end GraafVerif.ReprGen\n")
    text = "\n".join(out)
    # definitions are emitted inside `namespace KEY` but referenced as `KEY.name`
    body_only = text.split("-/", 1)[1]
    for tok in FORBIDDEN:
        if tok in body_only:
            raise TranslateError(f"generated text would contain the forbidden token {tok!r}")
    return text, srcs, fntab


def coverage(srcs, fntab):
    """rows (repr, impl, fn, status, note) for every fn of every impl block of the five structs."""
    targeted = {(r[0], r[1], r[2]): r[3] for r in TARGETS if not (r[1] or "").startswith("@")}
    rows = []
    for key in REPR_ORDER:
        for trait, fns in srcs[key]:
            for fn in fns:
                k = (key, trait, fn)
                if k in targeted:
                    sig = fntab[(key, fn)]
                    note = f"`ReprGen.{key}.{targeted[k]}`" + (" (Option: may panic)" if sig["partial"] else "")
                    rows.append((key, trait, fn, "covered", note))
                elif k in NOT_COVERED:
                    rows.append((key, trait, fn, "not covered", NOT_COVERED[k]))
                else:
                    rows.append((key, trait, fn, "not targeted", "constructor / generator / operation: out of scope"))
        for r in TARGETS:
            if r[0] == key and (r[1] or "").startswith("@"):
                sig = fntab[(key, r[2])]
                rows.append((key, r[1], r[2], "covered", f"`ReprGen.{key}.{r[3]}` (blanket impl of src/{r[1][1:]} at this repr"
                             + (", Option)" if sig["partial"] else ")")))
    return rows


def coverage_md(rows):
    lines = []
    for key in REPR_ORDER:
        info = REPRS[key]
        cov = [r for r in rows if r[0] == key and r[3] == "covered"]
        ncv = [r for r in rows if r[0] == key and r[3] == "not covered"]
        ntg = [r for r in rows if r[0] == key and r[3] == "not targeted"]
        lines.append(f"### `{info['struct']}` — {len(cov)} covered, {len(ncv)} candidate(s) not covered, "
                     f"{len(ntg)} not targeted\n")
        lines.append("| impl | fn | status | generated def / reason |")
        lines.append("|---|---|---|---|")
        for r in cov + ncv:
            lines.append(f"| `{r[1] or 'inherent'}` | `{r[2]}` | {r[3]} | {r[4]} |")
        lines.append("")
        lines.append("Not targeted (constructors, generators, operations, mutators other than `remove_arc`): "
                     + ", ".join(f"`{(r[1] or 'inherent')}::{r[2]}`" for r in ntg) + ".\n")
    return "\n".join(lines)


def main():
    root = os.path.dirname(os.path.dirname(os.path.abspath(__file__)))
    ap = argparse.ArgumentParser()
    ap.add_argument("--repo", default="/repo")
    ap.add_argument("--out", default=os.path.join(root, "lean", "GraafVerif", "Model", "ReprGen.lean"))
    ap.add_argument("--check", action="store_true", help="exit 3 if the file on disk differs (after rewriting it)")
    ap.add_argument("--list", action="store_true", help="print the full coverage table")
    ap.add_argument("--write-docs", nargs="?", const=os.path.join(root, "docs", "ReprGen.md"), default=None,
                    help="rewrite the coverage table between the COVERAGE markers of docs/ReprGen.md")
    a = ap.parse_args()
    try:
        text, srcs, fntab = translate(a.repo)
    except (TranslateError, OSError, ValueError, KeyError, IndexError) as e:
        print(f"translate_repr: ERROR {e}")
        sys.exit(2)
    rows = coverage(srcs, fntab)
    for key in REPR_ORDER:
        cov = [r[2] for r in rows if r[0] == key and r[3] == "covered"]
        ncv = [r[2] for r in rows if r[0] == key and r[3] == "not covered"]
        print(f"translate_repr: {REPRS[key]['struct']}: covered {len(cov)}: {' '.join(cov)}")
        print(f"translate_repr: {REPRS[key]['struct']}: NOT covered {len(ncv)}: {' '.join(ncv) or '-'}")
    if a.list:
        print(coverage_md(rows))
    if a.write_docs:
        begin, end = "<!-- COVERAGE:BEGIN (written by tools/translate_repr.py --write-docs) -->", "<!-- COVERAGE:END -->"
        doc = open(a.write_docs).read() if os.path.exists(a.write_docs) else f"# ReprGen\n\n{begin}\n{end}\n"
        if begin not in doc or end not in doc:
            doc += f"\n{begin}\n{end}\n"
        pre, rest = doc.split(begin, 1)
        post = rest.split(end, 1)[1]
        open(a.write_docs, "w").write(pre + begin + "\n" + coverage_md(rows) + "\n" + end + post)
    old = open(a.out).read() if os.path.exists(a.out) else None
    # the header names the repo path; normalise it so a scratch repo does not count as a change
    norm = lambda s: re.sub(r"GENERATED by tools/translate_repr.py from \S+", "GENERATED", s) if s else s
    if norm(old) != norm(text):
        open(a.out, "w").write(text)
        print("translate_repr: regenerated", a.out, "(content changed)")
        if a.check:
            sys.exit(3)
    else:
        print("translate_repr: up to date")


if __name__ == "__main__":
    main()
