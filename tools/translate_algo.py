#!/usr/bin/env python3
"""translate_algo.py - imperative-Rust-subset -> pure-Lean translator for the algorithm files of graaf
(`src/algo/*.rs`), in the style of Aeneas.  Third translator tie (after translate_ops.py / translate_repr.py).

    src/algo/{bfs,bfs_dist,bfs_pred,dfs,dfs_dist,dfs_pred,predecessor_tree,dijkstra,dijkstra_dist,
              dijkstra_pred,bellman_ford_moore,floyd_warshall}.rs
        --tools/translate_algo.py-->  lean/GraafVerif/Model/AlgoGen.lean      (GENERATED)
                                      runtime: lean/GraafVerif/Model/AlgoGenRt.lean (hand-written)
        lean/GraafVerif/Thm/AlgoGen.lean: every generated def = the hand-written model function

Reading of the subset (details: docs/AlgoGen.md):
  * a fn with `&mut self` returns `(value, self afterwards)`; a constructor returns the struct
  * a body is a `do` block in `Blk b r a = Except (Exit b r) a`; `return e` / the `None` case of `e?`
    is the exit `ret`, `break` the exit `brk` (with the loop state), `assert!`/`v[i]`/`panic!` the
    fault `panic`, `*p.add(i)` on a pointer obtained from `vec.as_mut_ptr()` a checked read/write
    that yields `ub site` when `i` is not below the length (convention of Model/Chk.lean)
  * `for x in e` = `forLoop` (a `foldlM`) over the list the iterator yields, the loop-carried state
    is the tuple of the variables assigned in the body; `while`/`while let`/`loop`/`for x in self`
    recurse on fuel (`whileLoop`, `loopLoop`, `iterLoop`)
  * every loop body is emitted as its own definition (`<fn>_for0`, `<fn>_while0`, ...)

Exit codes: 0 ok; 2 a targeted function leaves the supported subset (or cannot be located);
3 with --check when the file on disk differed (it is rewritten).
Functions are located by struct + impl (trait or inherent) + fn name, never by line number.
"""
import argparse
import os
import re
import sys


class TErr(Exception):
    pass


FORBIDDEN = ["sorry", "admit", "axiom", "native_decide", "bv_decide", "implemented_by", "unsafe ",
             "maxHeartbeats 0", "@[extern", "opaque"]

# ============================================================================================
# 1. Source text: comments, test region, struct / impl / fn location
# ============================================================================================


def strip_comments(src):
    out, i, n = [], 0, len(src)
    while i < n:
        c = src[i]
        if c == '"':
            j = i + 1
            while j < n and src[j] != '"':
                j += 2 if src[j] == "\\" else 1
            out.append(src[i:j + 1])
            i = j + 1
        elif src.startswith("//", i):
            j = src.find("\n", i)
            i = n if j < 0 else j
        elif src.startswith("/*", i):
            j = src.find("*/", i + 2)
            i = n if j < 0 else j + 2
        elif c == "'":
            m = re.match(r"'(\\.|[^\\'])'", src[i:])
            if m:
                out.append(m.group(0))
                i += m.end()
            else:
                out.append(c)
                i += 1
        else:
            out.append(c)
            i += 1
    return "".join(out)


def match_close(src, i, open_c, close_c):
    """src[i] is just after an `open_c`; index just after the matching `close_c`."""
    depth, n = 1, len(src)
    while i < n:
        c = src[i]
        if c == '"':
            i += 1
            while i < n and src[i] != '"':
                i += 2 if src[i] == "\\" else 1
        elif c == open_c:
            depth += 1
        elif c == close_c:
            depth -= 1
            if depth == 0:
                return i + 1
        i += 1
    raise TErr(f"unbalanced {open_c}{close_c}")


def non_test_region(src):
    src = strip_comments(src)
    k = src.find("#[cfg(test)]")
    return src if k < 0 else src[:k]


IMPL_RE = re.compile(r"^impl(?:<[^>{}]*>)?\s+(?:(\w+)(?:<[^{};]*>)?\s+for\s+)?(\w+)(?:<[^>{}]*>)?[^{;]*\{", re.M)
FN_RE = re.compile(r"\bfn\s+(\w+)\s*(?:<[^>()]*>)?\s*\(")


IMPL_HEADERS = {}


def impl_blocks(region, struct):
    """[(trait or None, block text)] of every `impl [Trait for] struct` in source order."""
    out = []
    for m in IMPL_RE.finditer(region):
        if m.group(2) != struct:
            continue
        end = match_close(region, m.end(), "{", "}")
        out.append((m.group(1), region[m.end():end - 1]))
        IMPL_HEADERS[id(out[-1][1])] = m.group(0)
    return out


def fns_of(block):
    """{name: (params text, text between `)` and `{`, body text)} of the fns directly inside an impl block."""
    out, pos = {}, 0
    while True:
        m = FN_RE.search(block, pos)
        if not m:
            break
        pe = match_close(block, m.end(), "(", ")")
        params = block[m.end():pe - 1]
        k = block.find("{", pe)
        semi = block.find(";", pe)
        if k < 0 or (0 <= semi < k):
            pos = pe
            continue
        ret = block[pe:k]
        be = match_close(block, k + 1, "{", "}")
        if m.group(1) in out:
            raise TErr(f"fn {m.group(1)} occurs twice in one impl block")
        out[m.group(1)] = (params, ret, block[k + 1:be - 1])
        pos = be
    return out


FREE_FN_RE = re.compile(r"^(?:pub(?:\([^)]*\))?\s+)?(?:const\s+)?(?:unsafe\s+)?fn\s+(\w+)", re.M)


def free_fns(region):
    """{name: (params, ret, body)} of the functions at the top level of the file (column 0)"""
    out = {}
    for m in FREE_FN_RE.finditer(region):
        k = region.find("{", m.end())
        if k < 0:
            continue
        be = match_close(region, k + 1, "{", "}")
        one = fns_of(region[m.start():be])
        if m.group(1) in one:
            if m.group(1) in out:
                raise TErr(f"fn {m.group(1)} occurs twice at the top level")
            out[m.group(1)] = one[m.group(1)]
    return out


def squeeze(s):
    return " ".join(s.split())


def struct_fields(region, struct):
    m = re.search(r"(?:pub )?struct " + struct + r"(?:<[^>{}]*>)?\s*\{", region)
    if not m:
        raise TErr(f"`pub struct {struct}` not found")
    end = match_close(region, m.end(), "{", "}")
    body = region[m.end():end - 1]
    out = []
    for part in split_top(body, ","):
        part = squeeze(part)
        if not part:
            continue
        part = re.sub(r"^pub(\([^)]*\))?\s+", "", part)
        mm = re.match(r"(\w+)\s*:\s*(.+)\Z", part)
        if not mm:
            raise TErr(f"struct {struct}: cannot read field `{part}`")
        out.append((mm.group(1), mm.group(2).replace(" ", "")))
    return out


def split_top(s, sep):
    out, depth, cur = [], 0, []
    i = 0
    while i < len(s):
        c = s[i]
        if c in "([{<":
            depth += 1
        elif c in ")]}":
            depth -= 1
        elif c == ">" and not (i > 0 and s[i - 1] == "-"):
            depth -= 1
        if c == sep and depth == 0:
            out.append("".join(cur))
            cur = []
        else:
            cur.append(c)
        i += 1
    out.append("".join(cur))
    return out


# ============================================================================================
# 2. Tokenizer / parser (Rust statement + expression subset)
# ============================================================================================
TOKEN = re.compile(r'''\s*("(?:[^"\\]|\\.)*"|0x[0-9A-Fa-f_]+|\d[\d_]*(?:\.\d+)?(?:usize|u64|u32|isize)?|[A-Za-z_]\w*(?:!(?!=))?|'''
                   r'''::|==|!=|<=|>=|&&|\|\||->|=>|\.\.=|\.\.|<<|>>|&=|\|=|\^=|\+=|-=|\*=|/=|%=|'''
                   r'''[(){}\[\].,;|&!+\-*/%^=<>:#?@'])''')


def tokenize(src):
    out, i = [], 0
    src = src.strip()
    while i < len(src):
        m = TOKEN.match(src, i)
        if not m:
            if src[i:].strip() == "":
                break
            raise TErr(f"cannot tokenize at: {src[i:i+40]!r}")
        out.append(m.group(1))
        i = m.end()
    return out


IDENT = re.compile(r"[A-Za-z_]\w*\Z")
CMP = ("==", "!=", "<", ">", "<=", ">=")
ASSIGN_OPS = ("=", "+=", "-=", "*=", "/=", "%=", "&=", "|=", "^=")
BLOCKLIKE = ("if", "while", "loop", "for", "block", "unsafeblock", "match")


class Parser:
    def __init__(self, toks):
        self.t, self.i = toks, 0
        self.no_struct = 0  # >0 while parsing an `if`/`while`/`for` head (no struct literal there)

    def peek(self, k=0):
        return self.t[self.i + k] if self.i + k < len(self.t) else None

    def eat(self, tok=None):
        cur = self.peek()
        if cur is None or (tok is not None and cur != tok):
            near = " ".join(self.t[max(0, self.i - 6):self.i + 6])
            raise TErr(f"expected {tok!r}, found {cur!r} near `{near}`")
        self.i += 1
        return cur

    # ---- blocks / statements -----------------------------------------------------------
    def block_body(self, until):
        """statements up to `until` (not consumed).  Returns [stmt]; a stmt is
        ('let', pat, tyText|None, expr, elseBlock|None) | ('expr', e, semi:bool)."""
        stmts = []
        while self.peek() != until:
            if self.peek() is None:
                raise TErr("unexpected end of body")
            if self.peek() == ";":
                self.eat()
                continue
            if self.peek() == "let":
                self.eat()
                pat = self.pattern()
                ty = None
                if self.peek() == ":":
                    self.eat()
                    ty = self.type_text((";", "="))
                self.eat("=")
                e = self.expr()
                els = None
                if self.peek() == "else":
                    self.eat()
                    self.eat("{")
                    els = self.block_body("}")
                    self.eat("}")
                self.eat(";")
                stmts.append(("let", pat, ty, e, els))
                continue
            if self.peek() == "const":
                self.eat()
                name = self.eat()
                self.eat(":")
                cty = self.type_text(("=",))
                self.eat("=")
                e = self.expr()
                self.eat(";")
                stmts.append(("let", ("pvar", name, False), None, ("ascribe", e, cty), None))
                continue
            if self.peek() in ("fn", "use", "struct", "impl", "const", "static", "type", "#"):
                raise TErr(f"item `{self.peek()}` inside a body is outside the supported subset")
            e = self.expr(stmt=True)
            if self.peek() in ASSIGN_OPS:
                op = self.eat()
                rhs = self.expr()
                e = ("assign", op, e, rhs)
            if self.peek() == ";":
                self.eat()
                stmts.append(("expr", e, True))
            elif self.peek() == until:
                stmts.append(("expr", e, False))
            elif e[0] in BLOCKLIKE:
                stmts.append(("expr", e, True))
            else:
                raise TErr(f"expected `;` after an expression statement, found {self.peek()!r}")
        return stmts

    def braced(self):
        self.eat("{")
        saved, self.no_struct = self.no_struct, 0
        b = self.block_body("}")
        self.no_struct = saved
        self.eat("}")
        return b

    def type_text(self, stops):
        depth, out = 0, []
        while True:
            c = self.peek()
            if c is None:
                raise TErr("unexpected end inside a type")
            if depth == 0 and c in stops:
                return "".join(out)
            if c in ("<", "(", "["):
                depth += 1
            elif c in (">", ")", "]"):
                depth -= 1
            elif c == ">>":
                depth -= 2
            out.append(self.eat())

    # ---- patterns ------------------------------------------------------------------------
    def pattern(self):
        cur = self.peek()
        if cur in ("&", "&&"):
            self.eat()
            if self.peek() == "mut":
                self.eat()
            return ("pref", self.pattern())
        if cur == "mut":
            self.eat()
            name = self.eat()
            return ("pvar", name, True)
        if cur == "ref" and self.peek(1) == "mut":
            self.eat()
            self.eat()
            return ("prefmut", self.eat())
        if cur == "(":
            self.eat()
            items = []
            while self.peek() != ")":
                items.append(self.pattern())
                if self.peek() == ",":
                    self.eat()
            self.eat(")")
            if len(items) == 1:
                return items[0]
            return ("ptup", items)
        if cur == "_":
            self.eat()
            return ("pwild",)
        if cur and IDENT.match(cur):
            self.eat()
            if self.peek() == "@":
                self.eat()
                return ("pat_at", cur, self.pattern())
            if self.peek() == "(":
                self.eat()
                items = []
                while self.peek() != ")":
                    items.append(self.pattern())
                    if self.peek() == ",":
                        self.eat()
                self.eat(")")
                return ("pctor", cur, items)
            if cur == "None":
                return ("pctor", "None", [])
            if cur[0].isupper():
                raise TErr(f"pattern `{cur}` is outside the supported subset")
            return ("pvar", cur, False)
        raise TErr(f"unsupported pattern at {cur!r}")

    # ---- expressions (Rust precedence) -------------------------------------------------------
    def expr(self, stmt=False):
        cur = self.peek()
        if cur == "return":
            self.eat()
            if self.peek() in (";", "}", ",", ")"):
                return ("return", None)
            return ("return", self.expr())
        if cur == "break":
            self.eat()
            if self.peek() == "'":
                raise TErr("labelled `break` is outside the supported subset")
            if self.peek() in (";", "}", ",", ")"):
                return ("break", None)
            return ("break", self.expr())
        if cur == "continue":
            self.eat()
            if self.peek() == "'":
                raise TErr("labelled `continue` is outside the supported subset")
            return ("continue",)
        if cur in ("|", "||", "move"):
            return self.closure()
        lo = self.or_(stmt)
        if self.peek() == "..":
            self.eat()
            if self.peek() in ("]", ")", ";", "{", ","):
                return ("range", lo, None)
            return ("range", lo, self.or_())
        if self.peek() == "..=":
            self.eat()
            return ("rangeincl", lo, self.or_())
        return lo

    def binl(self, sub, ops, stmt=False):
        l = sub(stmt) if stmt else sub()
        if stmt and l[0] in BLOCKLIKE:
            return l  # a block-like expression statement is not continued by a binary operator
        while self.peek() in ops:
            op = self.eat()
            l = ("bin", op, l, sub())
        return l

    def or_(self, stmt=False):
        return self.binl(self.and_, ("||",), stmt)

    def and_(self, stmt=False):
        return self.binl(self.cmp, ("&&",), stmt)

    def cmp(self, stmt=False):
        l = self.bitor(stmt)
        if stmt and l[0] in BLOCKLIKE:
            return l
        if self.peek() in CMP:
            op = self.eat()
            return ("bin", op, l, self.bitor())
        return l

    def bitor(self, stmt=False):
        return self.binl(self.bitxor, ("|",), stmt)

    def bitxor(self, stmt=False):
        return self.binl(self.bitand, ("^",), stmt)

    def bitand(self, stmt=False):
        return self.binl(self.shift, ("&",), stmt)

    def shift(self, stmt=False):
        return self.binl(self.add, ("<<", ">>"), stmt)

    def add(self, stmt=False):
        return self.binl(self.mul, ("+", "-"), stmt)

    def mul(self, stmt=False):
        return self.binl(self.cast, ("*", "/", "%"), stmt)

    def cast(self, stmt=False):
        e = self.unary(stmt)
        while self.peek() == "as":
            self.eat()
            if self.peek() == "*":
                # `as *const T<..>` / `as *mut T<..>`
                self.eat()
                q = self.eat()
                if q not in ("const", "mut"):
                    raise TErr("cannot read the pointer type of a cast")
                ty = self.eat()
                if self.peek() == "<":
                    ty += "<" + self.turbofish() + ">"
                e = ("cast", e, "*" + q + " " + ty)
            else:
                e = ("cast", e, self.eat())
        return e

    def unary(self, stmt=False):
        cur = self.peek()
        if cur == "!":
            self.eat()
            return ("un", "!", self.unary())
        if cur == "-":
            self.eat()
            return ("un", "-", self.unary())
        if cur == "*":
            self.eat()
            return ("un", "*", self.unary())
        if cur in ("&", "&&"):
            self.eat()
            if self.peek() == "mut":
                self.eat()
            return ("un", "&", self.unary())
        return self.postfix(stmt)

    def match_cmp(self):
        """`match a.cmp(&b) { Ordering::Less => x, Ordering::Greater => y, Ordering::Equal => z }` (any order of the
        three arms) is read as `if a < b { x } else if a > b { y } else { z }`; `a`, `b` must be variables / field paths
        (evaluating them twice is then not observable).  Any other `match` is outside the supported subset."""
        self.eat("match")
        self.no_struct += 1
        scrut = self.expr()
        self.no_struct -= 1
        sc = strip_wrappers(scrut)
        ok = sc[0] == "mcall" and sc[2] == "cmp" and len(sc[4]) == 1
        if ok:
            a, b = strip_wrappers(sc[1]), strip_wrappers(sc[4][0])
            if b[0] == "un" and b[1] == "&":
                b = strip_wrappers(b[2])
            simple = lambda x: x[0] == "var" or (x[0] == "field" and simple(strip_wrappers(x[1])))
            ok = simple(a) and simple(b)
        if not ok:
            raise TErr("`match` is supported only on `a.cmp(&b)` with variables / field paths `a`, `b`")
        self.eat("{")
        arms = {}
        while self.peek() != "}":
            segs = [self.eat()]
            while self.peek() == "::":
                self.eat()
                segs.append(self.eat())
            if len(segs) < 2 or segs[-2] != "Ordering" or segs[-1] not in ("Less", "Greater", "Equal") or segs[-1] in arms:
                raise TErr("`match a.cmp(&b)`: the arms must be `Ordering::Less`, `Ordering::Greater`, `Ordering::Equal`")
            self.eat("=>")
            if self.peek() == "{":
                arm = self.braced()
            else:
                arm = [("expr", self.expr(), False)]
            if self.peek() == ",":
                self.eat()
            arms[segs[-1]] = arm
        self.eat("}")
        if len(arms) != 3:
            raise TErr("`match a.cmp(&b)`: all three arms are needed")
        return ("if", ("bin", "<", a, b), arms["Less"],
                [("expr", ("if", ("bin", ">", a, b), arms["Greater"], arms["Equal"]), False)])

    def closure(self):
        if self.peek() == "move":
            self.eat()
        params = []
        if self.peek() == "||":
            self.eat()
        else:
            self.eat("|")
            while self.peek() != "|":
                params.append(self.pattern())
                if self.peek() == ":":
                    raise TErr("typed closure parameter is outside the supported subset")
                if self.peek() == ",":
                    self.eat()
            self.eat("|")
        if self.peek() == "{":
            body = ("block", self.braced())
        else:
            body = self.expr()
        return ("closure", params, body)

    def args(self):
        self.eat("(")
        saved, self.no_struct = self.no_struct, 0
        out = []
        while self.peek() != ")":
            out.append(self.expr())
            if self.peek() == ",":
                self.eat()
        self.eat(")")
        self.no_struct = saved
        return out

    def turbofish(self):
        """after `::` when the next token is `<`: skip the generic arguments, return their text."""
        self.eat("<")
        depth, out = 1, []
        while depth:
            c = self.eat()
            if c == "<":
                depth += 1
            elif c == ">":
                depth -= 1
            elif c == ">>":
                depth -= 2
            if depth > 0:
                out.append(c)
        return "".join(out)

    def postfix(self, stmt=False):
        e = self.primary()
        if stmt and e[0] in BLOCKLIKE:
            return e
        while True:
            cur = self.peek()
            if cur == ".":
                self.eat()
                name = self.eat()
                if re.match(r"\d+\Z", name):
                    e = ("field", e, name)
                    continue
                if not IDENT.match(name):
                    raise TErr(f"unsupported member `.{name}`")
                fish = None
                if self.peek() == "::":
                    self.eat()
                    fish = self.turbofish()
                if self.peek() == "(":
                    e = ("mcall", e, name, fish, self.args())
                else:
                    e = ("field", e, name)
            elif cur == "[":
                self.eat()
                saved, self.no_struct = self.no_struct, 0
                if self.peek() == "..":
                    self.eat()
                    idx = ("range", None, None) if self.peek() == "]" else ("range", None, self.or_())
                else:
                    idx = self.expr()
                self.no_struct = saved
                self.eat("]")
                e = ("index", e, idx)
            elif cur == "?":
                self.eat()
                e = ("try", e)
            elif cur == "(" and e[0] in ("var", "path"):
                e = ("call", e, self.args())
            else:
                return e

    def cond(self):
        """head of `if` / `while`: an expression or `let pat = expr`."""
        self.no_struct += 1
        if self.peek() == "let":
            self.eat()
            pat = self.pattern()
            self.eat("=")
            e = self.expr()
            c = ("letcond", pat, e)
        else:
            c = self.expr()
        self.no_struct -= 1
        return c

    def primary(self):
        cur = self.peek()
        if cur is None:
            raise TErr("unexpected end of body")
        if cur == "(":
            self.eat()
            saved, self.no_struct = self.no_struct, 0
            items, trailing = [], False
            while self.peek() != ")":
                items.append(self.expr())
                trailing = False
                if self.peek() == ",":
                    self.eat()
                    trailing = True
            self.eat(")")
            self.no_struct = saved
            if len(items) == 1 and not trailing:
                return ("paren", items[0])
            return ("tup", items)
        if cur == "[":
            self.eat()
            saved, self.no_struct = self.no_struct, 0
            items = []
            while self.peek() != "]":
                items.append(self.expr())
                if self.peek() == ",":
                    self.eat()
                elif self.peek() == ";":
                    raise TErr("array repeat expression `[x; n]` is outside the supported subset")
            self.eat("]")
            self.no_struct = saved
            return ("veclit", items)
        if cur == "{":
            return ("block", self.braced())
        if cur == "unsafe":
            self.eat()
            return ("unsafeblock", self.braced())
        if cur == "if":
            self.eat()
            c = self.cond()
            th = self.braced()
            el = None
            if self.peek() == "else":
                self.eat()
                if self.peek() == "if":
                    el = [("expr", self.primary(), False)]
                else:
                    el = self.braced()
            return ("if", c, th, el)
        if cur == "while":
            self.eat()
            c = self.cond()
            return ("while", c, self.braced())
        if cur == "loop":
            self.eat()
            return ("loop", self.braced())
        if cur == "for":
            self.eat()
            pat = self.pattern()
            self.eat("in")
            self.no_struct += 1
            it = self.expr()
            self.no_struct -= 1
            return ("for", pat, it, self.braced())
        if cur == "match":
            return self.match_cmp()
        if cur.startswith('"'):
            self.eat()
            return ("str", cur)
        if re.match(r"0x", cur):
            self.eat()
            return ("lit", int(cur.replace("_", ""), 16))
        if re.match(r"\d[\d_]*\.\d", cur):
            self.eat()
            return ("flit", cur)
        if re.match(r"\d", cur):
            self.eat()
            return ("lit", int(re.sub(r"(usize|u64|u32|isize)\Z", "", cur).replace("_", "")))
        if cur in ("true", "false"):
            self.eat()
            return ("bool", cur)
        if cur.endswith("!"):
            return self.macro()
        if IDENT.match(cur):
            self.eat()
            segs = [cur]
            while self.peek() == "::":
                self.eat()
                if self.peek() == "<":
                    self.turbofish()
                    continue
                nxt = self.eat()
                if not IDENT.match(nxt):
                    raise TErr(f"unsupported path segment {nxt!r}")
                segs.append(nxt)
            if self.peek() == "{" and cur[0].isupper() and not self.no_struct:
                self.eat()
                fields = []
                while self.peek() != "}":
                    f = self.eat()
                    if f == "..":
                        raise TErr("struct update syntax `..` is outside the supported subset")
                    if self.peek() == ":":
                        self.eat()
                        fields.append((f, self.expr()))
                    else:
                        fields.append((f, ("var", f)))
                    if self.peek() == ",":
                        self.eat()
                self.eat("}")
                return ("struct", segs, fields)
            if len(segs) == 1:
                return ("var", cur)
            return ("path", segs)
        raise TErr(f"unexpected token {cur!r}")

    def macro(self):
        name = self.eat()
        if name in ("assert!", "panic!", "assert_ne!"):
            self.eat("(")
            if name == "assert!":
                c = self.expr()
            elif name == "assert_ne!":
                a = self.expr()
                self.eat(",")
                b = self.expr()
                c = ("bin", "!=", a, b)
                name = "assert!"
            else:
                c = None
            depth = 1
            while depth:
                t = self.eat()
                depth += {"(": 1, ")": -1}.get(t, 0)
            return ("assert", c) if name == "assert!" else ("panic",)
        if name == "vec!":
            self.eat("[")
            if self.peek() == "]":
                self.eat()
                return ("veclit", [])
            first = self.expr()
            if self.peek() == ";":
                self.eat()
                n = self.expr()
                self.eat("]")
                return ("vecrep", first, n)
            items = [first]
            while self.peek() == ",":
                self.eat()
                if self.peek() == "]":
                    break
                items.append(self.expr())
            self.eat("]")
            return ("veclit", items)
        raise TErr(f"macro `{name}` is outside the supported subset")


def parse_body(text):
    p = Parser(tokenize(text))
    stmts = p.block_body(None)
    return stmts


def unparse(e):
    """Rust-like text of an expression (site names, doc comments); deterministic."""
    k = e[0]
    if k == "var":
        return e[1]
    if k == "lit":
        return str(e[1])
    if k == "bool":
        return e[1]
    if k == "path":
        return "::".join(e[1])
    if k == "paren":
        return "(" + unparse(e[1]) + ")"
    if k == "tup":
        return "(" + ", ".join(unparse(x) for x in e[1]) + ")"
    if k == "field":
        return unparse(e[1]) + "." + e[2]
    if k == "mcall":
        return unparse(e[1]) + "." + e[2] + "(" + ", ".join(unparse(x) for x in e[4]) + ")"
    if k == "call":
        return unparse(e[1]) + "(" + ", ".join(unparse(x) for x in e[2]) + ")"
    if k == "index":
        return unparse(e[1]) + "[" + unparse(e[2]) + "]"
    if k == "range":
        return (unparse(e[1]) if e[1] else "") + ".." + (unparse(e[2]) if e[2] else "")
    if k == "rangeincl":
        return (unparse(e[1]) if e[1] else "") + "..=" + (unparse(e[2]) if e[2] else "")
    if k == "flit":
        return e[1]
    if k == "un":
        return e[1] + unparse(e[2])
    if k == "bin":
        return unparse(e[2]) + " " + e[1] + " " + unparse(e[3])
    if k == "try":
        return unparse(e[1]) + "?"
    if k == "letcond":
        return "let " + unparse_pat(e[1]) + " = " + unparse(e[2])
    if k == "unsafeblock" or k == "block":
        if len(e[1]) == 1 and e[1][0][0] == "expr":
            return unparse(e[1][0][1])
        return "{..}"
    if k == "closure":
        return "|" + ", ".join(unparse_pat(p) for p in e[1]) + "| " + unparse(e[2])
    if k == "vecrep":
        return "vec![" + unparse(e[1]) + "; " + unparse(e[2]) + "]"
    if k == "veclit":
        return "vec![" + ", ".join(unparse(x) for x in e[1]) + "]"
    if k == "cast":
        return unparse(e[1]) + " as " + e[2]
    return "<" + k + ">"


def unparse_pat(p):
    k = p[0]
    if k == "pvar":
        return ("mut " if p[2] else "") + p[1]
    if k == "pwild":
        return "_"
    if k == "ptup":
        return "(" + ", ".join(unparse_pat(x) for x in p[1]) + ")"
    if k == "pctor":
        return p[1] + ("(" + ", ".join(unparse_pat(x) for x in p[2]) + ")" if p[2] else "")
    if k == "pat_at":
        return p[1] + " @ " + unparse_pat(p[2])
    if k == "pref":
        return "&" + unparse_pat(p[1])
    return "<" + k + ">"


# ============================================================================================
# 3. Types
# ============================================================================================
class TVar:
    counter = 0

    def __init__(self, numeric=False):
        self.id = TVar.counter
        TVar.counter += 1
        self.ref = None
        self.numeric = numeric


NAT, INT, BOOL, UNIT = ("nat",), ("int",), ("bool",), ("unit",)
ENTRY = ("entry",)


def LIST(t):
    return ("list", t)


def OPT(t):
    return ("opt", t)


def TUP(*ts):
    return ("tup", list(ts))


def STRUCT(name):
    return ("struct", name)


MAP = ("map",)                      # BTreeMap<usize, usize>
KL, KN, KA = ("kl",), ("kn",), ("ka",)   # set representations: cons list / cons-if-absent list / ascending list


def SET(kind):
    return ("set", kind)


U64 = ("u64",)                      # u64 with wrapping arithmetic: Lean `UInt64`
F64U = ("f64u",)                    # a double in [0, 1) given as `from_bits(1023 << 52 | m) - 1.0`: its 52 mantissa bits `m : Nat`
F64 = ("f64",)                      # an arbitrary double parameter: the decoded `Rand.F64` of the hand-written model
PSET = ("pset",)                    # BTreeSet<(usize, usize)>: the ascending pair list of Model/Repr.lean (`pinsert`)
WORD = ("word",)                     # a `usize` used as a 64-bit word of bits: Lean `BitVec 64`
BLOCKS = ("list", WORD)             # the bit blocks of the adjacency matrix


def prune(t):
    while isinstance(t, TVar) and t.ref is not None:
        t = t.ref
    return t


def show_ty(t):
    t = prune(t)
    if isinstance(t, TVar):
        return "?num" if t.numeric else "?"
    if t[0] in ("list", "opt"):
        return f"{t[0]}<{show_ty(t[1])}>"
    if t[0] == "set":
        return "set"
    if t[0] in ("setiter", "tarjanOf", "graph", "map", "pset", "blocks", "u64", "f64u", "f64"):
        return t[0]
    if t[0] == "tup":
        return "(" + ", ".join(show_ty(x) for x in t[1]) + ")"
    if t[0] == "struct":
        return t[1]
    if t[0] == "fn":
        return "fn(" + ", ".join(show_ty(x) for x in t[1]) + ") -> " + show_ty(t[2])
    return t[0]


def unify(a, b, what):
    a, b = prune(a), prune(b)
    if a is b:
        return
    if isinstance(a, TVar) or isinstance(b, TVar):
        if not isinstance(a, TVar):
            a, b = b, a
        if a.numeric:
            if isinstance(b, TVar):
                b.numeric = True
            elif b not in (NAT, INT, U64):
                raise TErr(f"type mismatch in {what}: a number where {show_ty(b)} is expected")
        a.ref = b
        return
    if a[0] != b[0]:
        raise TErr(f"type mismatch in {what}: {show_ty(a)} vs {show_ty(b)}")
    if a[0] in ("list", "opt", "set"):
        unify(a[1], b[1], what)
    elif a[0] == "tup":
        if len(a[1]) != len(b[1]):
            raise TErr(f"type mismatch in {what}: {show_ty(a)} vs {show_ty(b)}")
        for x, y in zip(a[1], b[1]):
            unify(x, y, what)
    elif a[0] == "struct":
        if a[1] != b[1]:
            raise TErr(f"type mismatch in {what}: {show_ty(a)} vs {show_ty(b)}")
    elif a[0] == "fn":
        if len(a[1]) != len(b[1]):
            raise TErr(f"type mismatch in {what}: {show_ty(a)} vs {show_ty(b)}")
        for x, y in zip(a[1], b[1]):
            unify(x, y, what)
        unify(a[2], b[2], what)


CUR = {"graph": "Graph"}
TY_MARK = re.compile("«T(\\d+):(\\d)»")
KIND_MARK = re.compile("«K(\\d+)»")
LIT_MARK = re.compile("«L(\\d+):(\\d+)»")
ASC_MARK = re.compile("«A(\\d+)»")
COLL_MARK = re.compile("«C(\\d+)»")
COLL_ELEMS = {}     # id of the type variable of a deferred `.collect()` -> element type of the collected iterator


def asc_mark(t):
    """` : UInt64` after the name of a `let` whose value is a u64 (Lean's default numeral type would
    otherwise win while the elaboration of an enclosing struct update is postponed); empty otherwise"""
    t = prune(t)
    if isinstance(t, TVar):
        TVARS[t.id] = t
        return f"«A{t.id}»"
    return " : UInt64" if t == U64 else ""



def kind_suffix(k):
    """suffix of the runtime set operations for a set representation (marker while unresolved)"""
    k = prune(k)
    if isinstance(k, TVar):
        TVARS[k.id] = k
        return f"«K{k.id}»"
    return {"kl": "L", "kn": "N", "ka": "A"}[k[0]]

TVARS = {}


def lean_ty(t, atom=False, prec=None):
    """Lean text of a type; unresolved variables are left as markers (resolved by `resolve_types`).
    prec: 0 top, 1 operand of `×` / `→`, 2 argument of a type constructor (`atom=True`)."""
    if prec is None:
        prec = 2 if atom else 0
    t = prune(t)
    if isinstance(t, TVar):
        TVARS[t.id] = t
        return f"«T{t.id}:{prec}»"
    k = t[0]
    if k == "nat":
        return "Nat"
    if k == "int":
        return "Int"
    if k == "bool":
        return "Bool"
    if k == "unit":
        return "Unit"
    if k == "entry":
        return "Entry"
    if k == "struct":
        return STRUCTS[t[1]].get("extern", t[1]) if t[1] in STRUCTS else t[1]
    if k == "u64":
        return "UInt64"
    if k == "f64u":
        return "Nat"
    if k == "f64":
        return "Rand.F64"
    if k == "pset":
        return "List (Nat × Nat)" if prec < 2 else "(List (Nat × Nat))"
    if k == "word":
        return "BitVec 64" if prec < 2 else "(BitVec 64)"
    if k == "map":
        return "NatMap"
    if k in ("graph", "tarjanOf"):
        return {"AM": "Johnson.AM"}.get(CUR["graph"], CUR["graph"])
    if k == "set":
        s, own = "List Nat", 2
    elif k == "list":
        s, own = "List " + lean_ty(t[1], prec=2), 2
    elif k == "opt":
        s, own = "Option " + lean_ty(t[1], prec=2), 2
    elif k == "tup":
        s, own = " × ".join(lean_ty(x, prec=1) for x in t[1]), 1
    elif k == "fn":
        s, own = " → ".join([lean_ty(x, prec=1) for x in t[1]] + [lean_ty(t[2], prec=1)]), 1
    else:
        raise TErr(f"no Lean type for {show_ty(t)}")
    if (own == 2 and prec == 2) or (own == 1 and prec >= 1):
        return "(" + s + ")"
    return s


def resolve_types(text):
    def sub(m):
        t = prune(TVARS[int(m.group(1))])
        if isinstance(t, TVar):
            if t.numeric:
                return "Nat"
            raise TErr("a local variable's type could not be inferred")
        return lean_ty(t, prec=int(m.group(2)))
    for _ in range(8):
        new = TY_MARK.sub(sub, text)
        if new == text:
            break
        text = new

    def ksub(m):
        k = prune(TVARS[int(m.group(1))])
        if isinstance(k, TVar):
            raise TErr("the representation of a local BTreeSet could not be inferred")
        return kind_suffix(k)
    text = KIND_MARK.sub(ksub, text)

    def lsub(m):
        t = prune(TVARS[int(m.group(1))])
        return f"({m.group(2)} : UInt64)" if t == U64 else m.group(2)
    text = LIT_MARK.sub(lsub, text)

    def csub(m):
        # a `.collect()` whose container is fixed by a later use (Rust's type inference): Vec = the list itself,
        # BTreeSet = the items inserted in order
        t = prune(TVARS[int(m.group(1))])
        et = prune(COLL_ELEMS[int(m.group(1))])
        if isinstance(t, TVar):
            raise TErr("the container built by a `.collect()` could not be inferred")
        if t[0] == "list" and show_ty(prune(t[1])) == show_ty(et):
            return ""
        if t[0] == "set" and et == NAT:
            return "Ops.toSet "
        if t == PSET and et == TUP(NAT, NAT):
            return "Ops.toPSet "
        raise TErr(f"a `.collect()` of {show_ty(et)} items into {show_ty(t)} is outside the typed model")
    text = COLL_MARK.sub(csub, text)
    return ASC_MARK.sub(lambda m: " : UInt64" if prune(TVARS[int(m.group(1))]) == U64 else "", text)


def proj(code, i, n):
    """projection of component i of an n-tuple value `code` (Lean right-nested pairs)."""
    if n == 1:
        return code
    if i < n - 1:
        return code + ".2" * i + ".1"
    return code + ".2" * (n - 1)


# ============================================================================================
# 4. Tables: structs, targets, fuel hints
# ============================================================================================
# fields: (rust name, rust type text without blanks, model type or None for the digraph reference)
# item:   (rust text of `type Item` after resolving the file's `type Step`, model type)
# sentinel: model type of `usize::MAX` / `isize::MAX` in this file (parameter `inf` of the definitions)
STRUCTS = {
    "Bfs": dict(file="bfs.rs", graph="Graph", sentinel=None,
                fields=[("digraph", "&'aD", None), ("queue", "VecDeque<usize>", LIST(NAT)), ("visited", "Vec<bool>", LIST(BOOL))],
                item=("usize", NAT)),
    "BfsDist": dict(file="bfs_dist.rs", graph="Graph", sentinel=NAT,
                    fields=[("digraph", "&'aD", None), ("queue", "VecDeque<Step>", LIST(TUP(NAT, NAT))), ("visited", "Vec<bool>", LIST(BOOL))],
                    item=("(usize,usize)", TUP(NAT, NAT))),
    "BfsPred": dict(file="bfs_pred.rs", graph="Graph", sentinel=None,
                    fields=[("digraph", "&'aD", None), ("queue", "VecDeque<Step>", LIST(TUP(OPT(NAT), NAT))), ("visited", "Vec<bool>", LIST(BOOL))],
                    item=("(Option<usize>,usize)", TUP(OPT(NAT), NAT))),
    "Dfs": dict(file="dfs.rs", graph="Graph", sentinel=None,
                fields=[("digraph", "&'aD", None), ("stack", "Vec<usize>", LIST(NAT)), ("visited", "Vec<bool>", LIST(BOOL))],
                item=("usize", NAT)),
    "DfsDist": dict(file="dfs_dist.rs", graph="Graph", sentinel=None,
                    fields=[("digraph", "&'aD", None), ("stack", "Vec<Step>", LIST(TUP(NAT, NAT))), ("visited", "Vec<bool>", LIST(BOOL))],
                    item=("(usize,usize)", TUP(NAT, NAT))),
    "DfsPred": dict(file="dfs_pred.rs", graph="Graph", sentinel=None,
                    fields=[("digraph", "&'aD", None), ("stack", "Vec<Step>", LIST(TUP(OPT(NAT), NAT))), ("visited", "Vec<bool>", LIST(BOOL))],
                    item=("(Option<usize>,usize)", TUP(OPT(NAT), NAT))),
    "PredecessorTree": dict(file="predecessor_tree.rs", graph=None, sentinel=None,
                            fields=[("pred", "Vec<Option<usize>>", LIST(OPT(NAT)))], item=None),
    # the Dijkstra family: distances (`usize` values that are sums of weights) are `Int`, as the weights of `WGraph`
    "Dijkstra": dict(file="dijkstra.rs", graph="WGraph", sentinel=INT, heap="wu",
                     fields=[("digraph", "&'aD", None), ("dist", "Vec<usize>", LIST(INT)),
                             ("heap", "BinaryHeap<(Reverse<usize>,usize)>", LIST(ENTRY))],
                     item=("usize", NAT)),
    "DijkstraDist": dict(file="dijkstra_dist.rs", graph="WGraph", sentinel=INT, heap="wu",
                         fields=[("digraph", "&'aD", None), ("dist", "Vec<usize>", LIST(INT)),
                                 ("heap", "BinaryHeap<(Reverse<usize>,usize)>", LIST(ENTRY))],
                         item=("(usize,usize)", TUP(NAT, INT))),
    "DijkstraPred": dict(file="dijkstra_pred.rs", graph="WGraph", sentinel=INT, heap="wpv",
                         fields=[("digraph", "&'aD", None), ("dist", "Vec<usize>", LIST(INT)),
                                 ("heap", "BinaryHeap<(Reverse<usize>,Step)>", LIST(ENTRY))],
                         item=("(Option<usize>,usize)", TUP(OPT(NAT), NAT))),
    "BellmanFordMoore": dict(file="bellman_ford_moore.rs", graph="WGraph", sentinel=INT,
                             fields=[("digraph", "&'aD", None), ("dist", "Vec<isize>", LIST(INT))], item=None),
    "DistanceMatrix": dict(file="distance_matrix.rs", graph=None, sentinel=None,
                           fields=[("dist", "Vec<W>", LIST(INT)), ("infinity", "W", INT), ("order", "usize", NAT)], item=None),
    "FloydWarshall": dict(file="floyd_warshall.rs", graph="WGraph", sentinel=INT,
                          fields=[("digraph", "&'aD", None), ("dist", "DistanceMatrix<isize>", STRUCT("DistanceMatrix"))],
                          item=None),
}

STRUCTS.update({
    # maps / sets exactly as the hand-written Model/Tarjan.lean keeps them (docs/AlgoGen.md, "Set 2")
    "Tarjan": dict(file="tarjan.rs", graph="VGraph", sentinel=None,
                   fields=[("digraph", "&'aD", None), ("i", "usize", NAT), ("stack", "Vec<usize>", LIST(NAT)),
                           ("on_stack", "BTreeSet<usize>", SET(KL)), ("index", "BTreeMap<usize,usize>", MAP),
                           ("low_link", "BTreeMap<usize,usize>", MAP),
                           ("components", "Vec<BTreeSet<usize>>", LIST(SET(KA)))],
                   item=None),
    # `blocked`: a duplicate-free list used as a set; `b`: ascending lists indexed by vertex; the digraph is the
    # key list + row function `AM` of Model/JohnsonMap.lean; `Tarjan::new(&x).components()` is the hand-written
    # `Johnson.tarjan x` (docs/AlgoGen.md, "Set 2")
    "Johnson75": dict(file="johnson_75.rs", graph="AM", sentinel=None, tarjan_external=True,
                      fields=[("a", "&'aD", None), ("b", "Vec<BTreeSet<usize>>", LIST(SET(KA))),
                              ("blocked", "BTreeSet<usize>", SET(KN)), ("stack", "Vec<usize>", LIST(NAT))],
                      item=None),
})

STRUCTS.update({
    # the five representations: the structures of the hand-written Model/Repr.lean; `order()`, `arcs()`,
    # `Self::empty`, `add_arc`, `add_arc_weighted` are its functions (`none` = the Rust code panics)
    "AdjacencyList": dict(dir="repr/adjacency_list", file="mod.rs", graph=None, sentinel=None, item=None,
                          extern="Repr.AdjList", lean_fields={"arcs": "rows"},
                          fields=[("arcs", "Vec<BTreeSet<usize>>", LIST(SET(KA)))]),
    "AdjacencyMap": dict(dir="repr/adjacency_map", file="mod.rs", graph=None, sentinel=None, item=None,
                         extern="Repr.AdjMap", lean_fields={"arcs": "rows"},
                         fields=[("arcs", "BTreeMap<usize,BTreeSet<usize>>", LIST(TUP(NAT, SET(KA))))]),
    "AdjacencyMatrix": dict(dir="repr/adjacency_matrix", file="mod.rs", graph=None, sentinel=None, item=None,
                            extern="Repr.AdjMatrix", lean_fields={},
                            fields=[("blocks", "Vec<usize>", BLOCKS), ("order", "usize", NAT)]),
    "EdgeList": dict(dir="repr/edge_list", file="mod.rs", graph=None, sentinel=None, item=None,
                     extern="Repr.EdgeList", lean_fields={},
                     fields=[("arcs", "BTreeSet<(usize,usize)>", PSET), ("order", "usize", NAT)]),
    "AdjacencyListWeighted": dict(dir="repr/adjacency_list_weighted", file="mod.rs", graph=None, sentinel=None, item=None,
                                  extern="Repr.AdjListW", lean_fields={"arcs": "rows"},
                                  fields=[("arcs", "Vec<BTreeMap<usize,W>>", LIST(LIST(TUP(NAT, INT))))]),
})

# (struct, impl trait or None, rust fn, lean name, options)
#   ret: model type of the returned value where the Rust text alone does not determine it
TARGETS = [
    ("PredecessorTree", None, "new", "new", {}),
    ("Bfs", None, "new", "new", {}),
    ("Bfs", "Iterator", "next", "next", {}),
    ("BfsDist", None, "new", "new", {}),
    ("BfsDist", "Iterator", "next", "next", {}),
    ("BfsDist", None, "distances", "distances", {}),
    ("BfsPred", None, "new", "new", {}),
    ("BfsPred", "Iterator", "next", "next", {}),
    ("BfsPred", None, "predecessors", "predecessors", {}),
    ("Dfs", None, "new", "new", {}),
    ("Dfs", "Iterator", "next", "next", {}),
    ("DfsDist", None, "new", "new", {}),
    ("DfsDist", "Iterator", "next", "next", {}),
    ("DfsPred", None, "new", "new", {}),
    ("DfsPred", "Iterator", "next", "next", {}),
    ("DfsPred", None, "predecessors", "predecessors", {}),
    ("PredecessorTree", None, "search_by", "searchBy", {}),
    ("PredecessorTree", None, "search", "search", {}),
    ("BfsPred", None, "shortest_path", "shortestPath", {}),
    ("BfsPred", None, "cycles", "cycles", {}),
    ("Dijkstra", None, "new", "new", {}),
    ("Dijkstra", "Iterator", "next", "next", {}),
    ("DijkstraDist", None, "new", "new", {}),
    ("DijkstraDist", "Iterator", "next", "next", {}),
    ("DijkstraDist", None, "distances", "distances", {"ret": LIST(INT)}),
    ("DijkstraPred", None, "new", "new", {}),
    ("DijkstraPred", "Iterator", "next", "next", {}),
    ("DijkstraPred", None, "predecessors", "predecessors", {}),
    ("DijkstraPred", None, "shortest_path", "shortestPath", {}),
    ("BellmanFordMoore", None, "new", "new", {}),
    ("BellmanFordMoore", None, "distances", "distances", {}),
    ("FloydWarshall", None, "distances", "distances", {}),
]

STRUCTS.update({
    # the PRNGs, bit exact on UInt64 (`[u64; 4]` is a list of four words)
    "SplitMix64": dict(dir="gen/prng", file="split_mix64.rs", graph=None, sentinel=None,
                       fields=[("state", "u64", U64)], item=("u64", U64)),
    "Xoshiro256StarStar": dict(dir="gen/prng", file="xoshiro256_star_star.rs", graph=None, sentinel=None, ptr_deref0=True,
                               f64_unit=True, fields=[("state", "[u64;4]", LIST(U64))], item=("u64", U64)),
})

# the third generated file (Model/AlgoGen3.lean)
TARGETS3 = [
    ("SplitMix64", None, "new", "new", {}),
    ("SplitMix64", "Iterator", "next", "next", {}),
    ("Xoshiro256StarStar", None, "new", "new", {}),
    ("Xoshiro256StarStar", "Iterator", "next", "next", {}),
    ("Xoshiro256StarStar", None, "next_bool", "nextBool", {}),
    ("Xoshiro256StarStar", None, "next_f64", "nextF64", {}),
    # C15: the sequential seeded generators
    ("AdjacencyList", "RandomTournament", "random_tournament", "randomTournament", {}),
    ("AdjacencyMatrix", "RandomTournament", "random_tournament", "randomTournament", {}),
    ("EdgeList", "RandomTournament", "random_tournament", "randomTournament", {}),
    ("AdjacencyList", "RandomRecursiveTree", "random_recursive_tree", "randomRecursiveTree", {}),
    ("AdjacencyMap", "RandomRecursiveTree", "random_recursive_tree", "randomRecursiveTree", {}),
    ("AdjacencyMatrix", "RandomRecursiveTree", "random_recursive_tree", "randomRecursiveTree", {}),
    ("EdgeList", "RandomRecursiveTree", "random_recursive_tree", "randomRecursiveTree", {}),
    ("AdjacencyList", "ErdosRenyi", "erdos_renyi", "erdosRenyi", {}),
    ("AdjacencyMatrix", "ErdosRenyi", "erdos_renyi", "erdosRenyi", {}),
    ("EdgeList", "ErdosRenyi", "erdos_renyi", "erdosRenyi", {}),
    # C11: the sequential operations
    ("AdjacencyMatrix", "Complement", "complement", "complement", {}),
    ("AdjacencyMatrix", "Converse", "converse", "converse", {}),
    ("AdjacencyMatrix", "Union", "union", "union", {}),
    ("EdgeList", "Union", "union", "union", {}),
    ("AdjacencyList", "Converse", "converse", "converse", {}),
    ("AdjacencyListWeighted", "Converse", "converse", "converse", {}),
    ("EdgeList", "Converse", "converse", "converse", {}),
    ("EdgeList", "Complement", "complement", "complement", {}),
    ("AdjacencyMap", "Complement", "complement", "complement", {}),
    ("AdjacencyMap", "Converse", "converse", "converse", {}),
    ("AdjacencyMap", "FilterVertices", "filter_vertices", "filterVertices", {}),
]

# the fourth generated file (Model/AlgoGen4.lean): the parallel functions under the reading of DESIGN.md 4.2
# (`available_parallelism()` = the parameter `ap`; a spawned closure runs to completion at its spawn point)
PAR = {"par": True}
TARGETS4 = [
    ("AdjacencyList", "Complete", "complete", "complete", PAR),
    ("AdjacencyList", "Complement", "complement", "complement", PAR),
    ("AdjacencyList", "DegreeSequence", "degree_sequence", "degreeSequence", PAR),
    ("AdjacencyList", "IsSemicomplete", "is_semicomplete", "isSemicomplete", PAR),
    ("AdjacencyList", "@free", "merge_two_sorted", "mergeTwoSorted", PAR),
    ("AdjacencyList", "Union", "union", "union", PAR),
    ("AdjacencyMap", "RandomTournament", "random_tournament", "randomTournament", PAR),
    ("AdjacencyMap", "ErdosRenyi", "erdos_renyi", "erdosRenyi", PAR),
    ("AdjacencyMap", "@free", "merge_two_sorted", "mergeTwoSorted", PAR),
    ("AdjacencyMap", "@free", "union_sets_unsafe", "unionSets", PAR),
    ("AdjacencyMap", "@free", "find_partition", "findPartition", PAR),
    ("AdjacencyMap", "Union", "union", "union", PAR),
]

# the fifth generated file (Model/AlgoGen5.lean): the remaining functions with unchecked accesses
LOW = {"par": True, "low": True}
STRUCTS.update({
    "MxArcsIterator": dict(rust="ArcsIterator", dir="repr/adjacency_matrix", file="mod.rs", graph=None, sentinel=None,
                           fields=[("matrix", "&'aAdjacencyMatrix", ("struct", "AdjacencyMatrix")), ("block_index", "usize", NAT),
                                   ("current_bits", "usize", WORD), ("current_base", "usize", NAT)],
                           item=("(usize,usize)", TUP(NAT, NAT))),
    "AlArcsIterator": dict(rust="ArcsIterator", dir="repr/adjacency_list", file="mod.rs", graph=None, sentinel=None, extern_ctx=True,
                           fields=[("arcs", "&'a[BTreeSet<usize>]", LIST(SET(KA))), ("u", "usize", NAT),
                                   ("inner", "Option<btree_set::Iter<'a,usize>>", OPT(LIST(NAT)))],
                           item=("(usize,usize)", TUP(NAT, NAT))),
    "InNeighborsIterator": dict(rust="InNeighborsIterator", dir="repr/adjacency_list", file="mod.rs", graph=None, sentinel=None, extern_ctx=True,
                                ptr_fields={"ptr"},
                                fields=[("ptr", "*constBTreeSet<usize>", LIST(SET(KA))), ("len", "usize", NAT), ("i", "usize", NAT),
                                        ("v", "usize", NAT), ("_marker", "PhantomData<&'aBTreeSet<usize>>", UNIT)],
                                item=("usize", NAT)),
})
TARGETS5 = [
    ("AdjacencyMatrix", None, "mask", "mask", dict(LOW, ret=WORD)),
    ("AdjacencyMatrix", None, "index", "index", LOW),
    ("AdjacencyMatrix", None, "toggle", "toggle", LOW),
    ("AdjacencyMatrix", "AddArc", "add_arc", "addArc", LOW),
    ("AdjacencyList", "AddArc", "add_arc", "addArc", LOW),
    ("AdjacencyList", "OutNeighbors", "out_neighbors", "outNeighbors", LOW),
    ("MxArcsIterator", None, "new", "new", LOW),
    ("MxArcsIterator", "Iterator", "next", "next", LOW),
    ("AlArcsIterator", "Iterator", "next", "next", LOW),
    ("InNeighborsIterator", "Iterator", "next", "next", LOW),
    ("AdjacencyMatrix", "Arcs", "arcs", "arcsIter", dict(LOW, ret=("struct", "MxArcsIterator"))),
    ("AdjacencyList", "Arcs", "arcs", "arcsIter", dict(LOW, ret=("struct", "AlArcsIterator"))),
    ("AdjacencyList", "InNeighbors", "in_neighbors", "inNeighborsIter", dict(LOW, ret=("struct", "InNeighborsIterator"))),
    ("AdjacencyList", "HasWalk", "has_walk", "hasWalk", LOW),
    ("AdjacencyList", "IsTournament", "is_tournament", "isTournament", LOW),
    ("AdjacencyMap", "OutNeighbors", "out_neighbors", "outNeighbors", LOW),
    ("AdjacencyMap", "HasWalk", "has_walk", "hasWalk", LOW),
    ("DistanceMatrix", None, "new", "new", LOW),
    ("DistanceMatrix", "IndexMut<usize>", "index_mut", "indexMut", dict(LOW, ret=NAT, refpos=True)),
    ("DistanceMatrix", "IndexMut<(usize,usize)>", "index_mut", "indexMut2", dict(LOW, ret=NAT, refpos=True)),
]

# set 6 (Model/AlgoGen6.lean): the function bodies that no earlier set regenerates
STRUCTS.update({
    # a trait with a default method: `self` is ANY implementor of the supertrait `Order`, abstracted to the value of `self.order()`
    "ContiguousOrder": dict(dir="op", file="contiguous_order.rs", graph=None, sentinel=None, item=None,
                            extern="HasOrder", lean_fields={}, fields=[], trait_default="Order"),
})
TARGETS6 = [
    ("AdjacencyList", "IndegreeSequence", "indegree_sequence", "indegreeSequence", LOW),
    ("AdjacencyMap", "AddArc", "add_arc", "addArc", LOW),
    ("EdgeList", "AddArc", "add_arc", "addArc", LOW),
    ("AdjacencyListWeighted", "AddArcWeighted", "add_arc_weighted", "addArcWeighted", LOW),
    ("FloydWarshall", None, "new", "new", LOW),
    ("PredecessorTree", "From<Vec<Option<usize>>>", "from", "fromVec", LOW),
    ("PredecessorTree", "Index<usize>", "index", "index", dict(LOW, ret=OPT(NAT))),
    ("PredecessorTree", "IndexMut<usize>", "index_mut", "indexMut", dict(LOW, ret=NAT, refpos=True)),
    ("PredecessorTree", "IntoIterator", "into_iter", "intoIter", dict(LOW, ret=LIST(OPT(NAT)), byval=True)),
    ("ContiguousOrder", "@default", "contiguous_order", "contiguousOrder", LOW),
]
# the five representation structs: the functions of every set use the hand-written `Repr.*` structures for them (`extern`);
# set 6 also emits their FIELD LISTS as read from the source (`<Name>Decl`), tied to `Repr.*` in `Proof/AlgoGen6.lean`
DECLS6 = ["AdjacencyList", "AdjacencyMap", "AdjacencyMatrix", "EdgeList", "AdjacencyListWeighted"]
SET6_DECLARED_EARLIER = ("DistanceMatrix", "PredecessorTree", "FloydWarshall")      # declared by set 1 (`Model/AlgoGen.lean`)

# the second generated file (Model/AlgoGen2.lean)
TARGETS2 = [
    ("Tarjan", None, "new", "new", {}),
    ("Tarjan", None, "connect", "connect", {}),
    ("Tarjan", None, "components", "componentsCall", {}),
    ("Johnson75", None, "new", "new", {}),
    ("Johnson75", None, "is_blocked", "isBlocked", {}),
    ("Johnson75", None, "unblock", "unblock", {}),
    ("Johnson75", None, "circuit", "circuit", {}),
    ("Johnson75", None, "circuits", "circuits", {}),
    # C16: the macro-generated `impl From<$type> for T` bodies (one row per instantiation) ...
    ("AdjacencyList", "@impl_from_arcs_empty_order:AdjacencyMap", "from", "fromAdjacencyMap", {}),
    ("AdjacencyList", "@impl_from_arcs_empty_order:AdjacencyMatrix", "from", "fromAdjacencyMatrix", {}),
    ("AdjacencyList", "@impl_from_arcs_empty_order:EdgeList", "from", "fromEdgeList", {}),
    ("AdjacencyMap", "@impl_from_arcs_order:AdjacencyList", "from", "fromAdjacencyList", {}),
    ("AdjacencyMap", "@impl_from_arcs_order:AdjacencyMatrix", "from", "fromAdjacencyMatrix", {}),
    ("AdjacencyMap", "@impl_from_arcs_order:EdgeList", "from", "fromEdgeList", {}),
    ("AdjacencyMatrix", "@impl_from_arcs_empty_order:AdjacencyList", "from", "fromAdjacencyList", {}),
    ("AdjacencyMatrix", "@impl_from_arcs_empty_order:AdjacencyMap", "from", "fromAdjacencyMap", {}),
    ("AdjacencyMatrix", "@impl_from_arcs_empty_order:EdgeList", "from", "fromEdgeList", {}),
    ("EdgeList", "@impl_from_arcs_order:AdjacencyList", "from", "fromAdjacencyList", {}),
    ("EdgeList", "@impl_from_arcs_order:AdjacencyMap", "from", "fromAdjacencyMap", {}),
    ("EdgeList", "@impl_from_arcs_order:AdjacencyMatrix", "from", "fromAdjacencyMatrix", {}),
    ("AdjacencyListWeighted", "@impl_from_arcs_order:AdjacencyList", "from", "fromAdjacencyList", {}),
    ("AdjacencyListWeighted", "@impl_from_arcs_order:AdjacencyMap", "from", "fromAdjacencyMap", {}),
    ("AdjacencyListWeighted", "@impl_from_arcs_order:AdjacencyMatrix", "from", "fromAdjacencyMatrix", {}),
    ("AdjacencyListWeighted", "@impl_from_arcs_order:EdgeList", "from", "fromEdgeList", {}),
    # ... and the `impl<I: IntoIterator<..>> From<I>` bodies
    ("AdjacencyList", "From", "from", "fromRows", {}),
    ("AdjacencyMap", "From", "from", "fromRows", {}),
    ("AdjacencyListWeighted", "From", "from", "fromRows", {}),
    ("AdjacencyMatrix", "From", "from", "fromArcs", {}),
    ("EdgeList", "From", "from", "fromArcs", {}),
]

# candidates deliberately left to the hand-written models
NOT_COVERED = {
    ("FloydWarshall", None, "new"): "in set 6 (`Model/AlgoGen6.lean`): calls `DistanceMatrix::new` (`set_len` + `ptr::write` on an uninitialised buffer: set 5, `Model/AlgoGen5.lean`)",
    ("PredecessorTree", "From", "from"): "in set 6 (`Model/AlgoGen6.lean`): trivial wrapper",
    ("PredecessorTree", "Index", "index"): "in set 6 (`Model/AlgoGen6.lean`): trivial wrapper (`&self.pred[index]`)",
    ("PredecessorTree", "IndexMut", "index_mut"): "in set 6 (`Model/AlgoGen6.lean`): trivial wrapper",
    ("PredecessorTree", "IntoIterator", "into_iter"): "in set 6 (`Model/AlgoGen6.lean`): trivial wrapper",
}

# set 3: the candidates of the coordinator's list that stay hand-written
NOT_COVERED3 = {
    ("AdjacencyMap", "RandomTournament", "random_tournament"):
        "threads: in set 4 (`Model/AlgoGen4.lean`, reading of DESIGN.md 4.2)",
    ("AdjacencyMap", "ErdosRenyi", "erdos_renyi"):
        "threads: in set 4 (`Model/AlgoGen4.lean`, reading of DESIGN.md 4.2)",
    ("AdjacencyList", "Complement", "complement"): "threads: in set 4 (`Model/AlgoGen4.lean`, reading of DESIGN.md 4.2)",
    ("AdjacencyList", "Union", "union"): "threads: in set 4 (`Model/AlgoGen4.lean`, reading of DESIGN.md 4.2)",
    ("AdjacencyMap", "Union", "union"): "threads: in set 4 (`Model/AlgoGen4.lean`, reading of DESIGN.md 4.2)",
}

# fuel of a loop fixed by an expression over the variables in scope (otherwise the enclosing
# definition takes a parameter `fuel`).  Keyed by (struct, rust fn, loop kind + index in the fn).
# A hint never changes what an iteration does: it is only the bound after which a `loop` yields
# `div` / a `while` is left; an equality theorem against the hand model fails when it is too small.
FUEL_HINTS = {
    ("Dijkstra", "next", "loop0"): "self.heap.length + 1",
    ("DijkstraDist", "next", "loop0"): "self.heap.length + 1",
    ("DijkstraPred", "next", "loop0"): "self.heap.length + 1",
    ("BellmanFordMoore", "distances", "while0"): "arcs_len",
    ("Tarjan", "connect", "while0"): "self.stack.len()",
    ("Johnson75", "unblock", "while0"): "self.b.len() + 1",
    # set 4: every round of these loops increases a cursor that the condition bounds
    ("AdjacencyList", "complement", "while0"): "full_len",
    ("AdjacencyList", "complement", "while1"): "full_len",
    ("AdjacencyList", "merge_two_sorted", "while0"): "lhs_len + rhs_len",
    ("AdjacencyList", "merge_two_sorted", "while1"): "lhs_len",
    ("AdjacencyList", "merge_two_sorted", "while2"): "rhs_len",
    ("AdjacencyMap", "merge_two_sorted", "while0"): "lhs_len + rhs_len",
    ("AdjacencyMap", "merge_two_sorted", "while1"): "lhs_len",
    ("AdjacencyMap", "merge_two_sorted", "while2"): "rhs_len",
    ("AdjacencyMap", "find_partition", "while0"): "lhs_len",        # `hi - lo <= lhs_len`, halved every round
    ("AdjacencyMap", "union", "while0"): "order",
    # set 5: one round per set bit plus one per block (the bound of the hand-written `iterFuel`)
    ("MxArcsIterator", "next", "while0"): "65 * self.matrix.blocks.len() + 1",
    ("AlArcsIterator", "next", "loop0"): "self.arcs.len() + 2",        # a round returns an item or opens the next row
    ("InNeighborsIterator", "next", "while0"): "self.len",
    ("AdjacencyList", "has_walk", "while0"): "len",                     # the pointer advances by one element per round
    ("AdjacencyMap", "has_walk", "while0"): "len",                   # every round moves a cursor; both are bounded by n1 + n2
}

LEAN_KEYWORDS = {"at", "from", "end", "open", "then", "fun", "have", "show", "by", "do", "in", "let", "if", "else",
                 "match", "with", "where", "def", "theorem", "instance", "structure", "class", "namespace", "section",
                 "import", "export", "return", "for", "mut", "try", "catch", "finally", "throw", "pure", "some",
                 "none", "true", "false", "Type", "Prop", "Sort", "st", "it", "g", "inf", "fuel",
                 "local", "partial", "private", "protected", "scoped", "macro", "syntax", "notation", "mutual",
                 "universe", "variable", "example", "abbrev", "noncomputable", "deriving", "ap", "recf"}


def sanitize(name):
    return name + "_" if name in LEAN_KEYWORDS else name


# ============================================================================================
# 5. Compiler: Rust AST -> Lean `do` blocks over the runtime of Model/AlgoGenRt.lean
# ============================================================================================
GRAPH_T = ("graph",)


class Val:
    def __init__(self, code, ty, atomic=False, parts=None, stable=False):
        self.code, self.ty, self.atomic, self.parts, self.stable = code, ty, atomic, parts, stable

    def p(self):
        return self.code if self.atomic else "(" + self.code + ")"


class Bind:
    def __init__(self, kind, rust, **kw):
        self.kind, self.rust = kind, rust
        self.lean = kw.get("lean")
        self.ty = kw.get("ty")
        self.mut = kw.get("mut", False)
        self.place = kw.get("place")      # ptr / elem / cell: (root rust name, [fields])
        self.idx = kw.get("idx")          # elem / cell: Val
        self.site = kw.get("site")        # elem
        self.cur = kw.get("cur")          # cell: Lean name holding the current value
        self.parts = kw.get("parts")
        self.stable = kw.get("stable", False)
        self.bid = -1
        self.nuse = 0
        self.as_ref = kw.get("as_ref", False)   # elem: a `&mut` obtained from `p.add(i).as_mut()`


class Emitter:
    def __init__(self, indent=2):
        self.lines, self.indent = [], indent

    def emit(self, line):
        self.lines.append(" " * self.indent + line)

    def append_to_last(self, s):
        self.lines[-1] += s


class Frame:
    def __init__(self, start_bid):
        self.start_bid, self.used, self.globals = start_bid, {}, set()


class LoopCtx:
    def __init__(self, kind, state, with_value=False):
        self.kind, self.state, self.with_value = kind, state, with_value
        self.value_ty = TVar() if kind == "loop" else None
        self.depth, self.cont_ok = 0, []


MUTATING = {"add_arc", "add_arc_weighted", "get_unchecked_mut", "push", "push_back", "pop", "pop_front", "reverse", "next", "by_ref", "clear", "get_mut", "insert", "remove",
            "pop_first", "or_default", "extend", "sort_unstable_by_key", "sort_by_key", "store"}


class Ctx:
    def __init__(self, sname, rfn, lname, fntab, aliases):
        self.sname, self.sinfo = sname, STRUCTS[sname]
        self.rfn, self.lname, self.fntab, self.aliases = rfn, lname, fntab, aliases
        self.file = self.sinfo["file"] if "dir" not in self.sinfo else self.sinfo["dir"] + "/" + self.sinfo["file"]
        self.em = Emitter()
        self.defs = []
        self.tmp = 0
        self.loopn = {}
        self.names = set()
        self.frames = [Frame(0)]
        self.loops = []
        self.bid = 0
        self.self_mode = None
        self.value_ty = None
        self.ptr_alias = {}     # rust name -> root rust name (flow-insensitive, for the mutation pre-pass)
        self.recursive = False
        self.mutref_tys = {}
        self.mutrefs = []       # rust names of the `&mut T` parameters (returned after `self`)
        self.branch_states = []         # (first binding id of the branch, ids of the variables it returns | None)
        self.pipe_n = 0
        self.rawbufs = set()            # set 5: rust names of vectors built by `with_capacity` + `ptr::write` + `set_len`
        self.low = False                # set 5: words of bits, moving pointers, raw buffers
        self.par = False                # set 4: the concurrency constructs are read as in DESIGN.md 4.2
        self.collect_target = None      # Rust type text of the container a `.collect()` without turbofish builds

    # ---- names / bindings ----
    def fresh_tmp(self):
        n = f"t{self.tmp}"
        self.tmp += 1
        return n

    def fresh_name(self, rust):
        base = sanitize(rust)
        name, k = base, 0
        while name in self.names or re.match(r"t\d+\Z", name):
            k += 1
            name = f"{base}_{k}"
        self.names.add(name)
        return name

    def new_bind(self, env, b):
        b.bid = self.bid
        self.bid += 1
        env[b.rust] = b
        return b

    def use(self, b):
        b.nuse += 1
        for f in self.frames:
            if b.bid < f.start_bid:
                f.used[b.bid] = b

    def use_global(self, name):
        for f in self.frames:
            f.globals.add(name)

    def res_ty(self):
        if self.mutrefs:
            return TUP(self.value_ty, STRUCT(self.sname), *[self.mutref_tys[n] for n in self.mutrefs])
        if self.self_mode == "mut":
            return TUP(self.value_ty, STRUCT(self.sname))
        return self.value_ty

    def result(self, env, v):
        if self.mutrefs:
            if self.self_mode != "mut":
                raise TErr("`&mut` parameters are supported for `&mut self` methods only")
            parts = [v.code]
            for n in ["self"] + self.mutrefs:
                b = env[n]
                self.use(b)
                parts.append(b.lean)
            return "(" + ", ".join(parts) + ")"
        if self.self_mode == "mut":
            sb = env["self"]
            self.use(sb)
            return f"({v.code}, {sb.lean})"
        return v.p()

    def site(self, text):
        return '"' + f"{self.file}:{self.rfn}:{text}" + '"'


def field_ty(sname, f):
    for name, _, ty in STRUCTS[sname]["fields"]:
        if name == f:
            if ty is None:
                return GRAPH_T
            return ty
    raise TErr(f"struct {sname} has no field `{f}` in the typed field model")


# ---- places -----------------------------------------------------------------------------------
def strip_wrappers(e):
    """`(e)`, `unsafe { e }`, `{ e }` with a single tail expression -> e."""
    while True:
        if e[0] == "paren":
            e = e[1]
        elif e[0] in ("unsafeblock", "block") and len(e[1]) == 1 and e[1][0][0] == "expr" and not e[1][0][2]:
            e = e[1][0][1]
        else:
            return e


def place_of(e):
    e = strip_wrappers(e)
    if e[0] == "var":
        return (e[1], [])
    if e[0] == "field" and not re.match(r"\d+\Z", e[2]):
        p = place_of(e[1])
        if p is not None:
            return (p[0], p[1] + [e[2]])
    return None


def place_val(ctx, env, place):
    root, fields = place
    b = env.get(root)
    if b is None or b.kind != "val":
        raise TErr(f"`{root}` is not a variable holding a value")
    ctx.use(b)
    code, ty = b.lean, b.ty
    for f in fields:
        t = prune(ty)
        if isinstance(t, TVar) or t[0] != "struct":
            raise TErr(f"field `.{f}` of a value of type {show_ty(t)}")
        ty = field_ty(t[1], f)
        code = f"{code}.{STRUCTS[t[1]].get('lean_fields', {}).get(f, f)}"
    return Val(code, ty, atomic=True)


def place_set(ctx, env, place, newcode):
    root, fields = place
    b = env.get(root)
    if b is None or b.kind != "val":
        raise TErr(f"`{root}` is not a variable holding a value")
    if not b.mut and not (root == "self" and ctx.self_mode == "mut"):
        raise TErr(f"assignment to the immutable variable `{root}`")
    # safety net behind the mutation pre-pass: an update of a variable that lives outside the loop body /
    # branch being compiled must be part of the state that construct hands on, else it would be lost
    for f in ctx.frames[1:]:
        if b.bid < f.start_bid and b.bid not in getattr(f, "state_bids", set()):
            raise TErr(f"internal: `{root}` is updated inside a loop body but is not part of the loop state")
    for start, allowed in ctx.branch_states:
        if allowed is not None and b.bid < start and b.bid not in allowed:
            raise TErr(f"internal: `{root}` is updated inside a branch but is not part of the state the branch returns")
    ctx.use(b)

    def build(prefix, fs, ty):
        if not fs:
            return newcode
        t = prune(ty)
        f0, nty = fs[0], None
        if not isinstance(t, TVar) and t[0] == "struct" and t[1] in STRUCTS:
            f0 = STRUCTS[t[1]].get("lean_fields", {}).get(fs[0], fs[0])
            nty = field_ty(t[1], fs[0]) if len(fs) > 1 else None
        return "{ " + prefix + " with " + f0 + " := " + build(prefix + "." + f0, fs[1:], nty) + " }"
    ctx.em.emit(f"let {b.lean}{asc_mark(b.ty) if not fields else ''} := {build(b.lean, fields, b.ty)}")
    b.parts = None


# ---- pointers ---------------------------------------------------------------------------------
def eval_ptr(ctx, env, e):
    """('ptr', place) | ('elem', place, idxVal, site) | None"""
    e = strip_wrappers(e)
    if e[0] == "var":
        b = env.get(e[1])
        if b is not None and b.kind == "val" and getattr(b, "ptr_place", None) is not None:
            ctx.use(b)
            return ("elem", b.ptr_place, Val(b.lean, NAT, atomic=True), ctx.site(e[1]))
        if b is not None and b.kind == "ptr":
            return ("ptr", b.place)
        if b is not None and b.kind == "elem":
            i = compile_expr(ctx, env, b.idx, NAT)     # the offset expression only mentions immutable variables
            return ("elem", b.place, i, b.site)
        return None
    if e[0] == "field" and strip_wrappers(e[1]) == ("var", "self") and e[2] in ctx.sinfo.get("ptr_fields", ()):
        return ("ptr", ("self", [e[2]]))
    if e[0] == "cast" and ctx.par and (e[2] == "usize" or e[2].startswith("*")):
        # `p as usize`, `x as *const T`: the same pointer (docs/AlgoGen.md, Set 4: the round trip keeps address and provenance)
        return eval_ptr(ctx, env, e[1])
    if e[0] == "mcall" and e[2] in ("as_mut_ptr", "as_ptr") and not e[4]:
        pl = place_of(e[1])
        if pl is None:
            raise TErr(f"`{unparse(e)}`: the receiver of .{e[2]}() is not a variable or field path")
        t = prune(place_val(ctx, env, pl).ty)
        if isinstance(t, TVar) or t[0] != "list":
            raise TErr(f"`{unparse(e)}`: .{e[2]}() on a value that is not a vector")
        return ("ptr", pl)
    if e[0] == "mcall" and e[2] == "add" and len(e[4]) == 1:
        base = eval_ptr(ctx, env, e[1])
        if ctx.low and base is not None and base[0] == "elem":
            k = compile_expr(ctx, env, e[4][0], NAT)
            unify(k.ty, NAT, "pointer offset")
            return ("elem", base[1], Val(f"{base[2].p()} + {k.p()}", NAT), ctx.site(unparse(e)))
        if base is None or base[0] != "ptr":
            raise TErr(f"`{unparse(e)}`: .add() on something that is not a vector's buffer pointer")
        i = compile_expr(ctx, env, e[4][0], NAT)
        unify(i.ty, NAT, "pointer offset")
        return ("elem", base[1], i, ctx.site(unparse(e)))
    return None


def elem_place(ctx, env, recv):
    """`*p.add(i)`, `*q` (q a named element pointer) or `q` itself when it is a `&mut` to an element obtained
    from `p.add(i).as_mut()`: (vector place, index Val, site) - else None."""
    r = strip_lock(recv) if ctx.par else strip_wrappers(recv)
    if r[0] == "mcall" and r[2] in ("get_unchecked_mut", "get_unchecked") and len(r[4]) == 1:
        pl = place_of(r[1])
        if pl is None or pl[0] not in env or env[pl[0]].kind != "val":
            return None
        t = prune(place_val(ctx, env, pl).ty)
        if isinstance(t, TVar) or t[0] != "list":
            return None
        i = compile_expr(ctx, env, r[4][0], NAT)
        unify(i.ty, NAT, "index of get_unchecked")
        return pl, i, ctx.site(unparse(r))
    if r[0] == "un" and r[1] == "*":
        pe = eval_ptr(ctx, env, r[2])
        if pe is not None and pe[0] == "elem":
            return pe[1], pe[2], pe[3]
        return None
    if r[0] == "var" and r[1] in env and env[r[1]].kind == "elem" and env[r[1]].site is not None and env[r[1]].as_ref:
        pe = eval_ptr(ctx, env, r)
        return pe[1], pe[2], pe[3]
    return None


def elem_update(ctx, env, ep, f):
    """read the element, write back `f(old value Val)`; returns the old value Val"""
    place, i, site = ep
    pv = place_val(ctx, env, place)
    t = prune(pv.ty)
    if isinstance(t, TVar) or t[0] != "list":
        raise TErr("element access on a value that is not a vector")
    old = ctx.fresh_tmp()
    ctx.em.emit(f"let {old} ← rd {site} {pv.p()} {i.p()}")
    new = f(Val(old, t[1], atomic=True, stable=True))
    if new is not None:
        tmp = ctx.fresh_tmp()
        pv = place_val(ctx, env, place)
        ctx.em.emit(f"let {tmp} ← wr {site} {pv.p()} {i.p()} {new}")
        place_set(ctx, env, place, tmp)
    return Val(old, t[1], atomic=True, stable=True)


def check_immutable_index(env, e, what):
    """a named element pointer / reference is used later: its offset expression must only mention
    immutable variables (the offset is re-read at the use)."""
    for name in sorted(free_vars(e, set())):
        b = env.get(name)
        if b is None or b.kind != "val" or b.mut:
            raise TErr(f"{what}: the offset mentions `{name}`, which is not an immutable variable")


def free_vars(e, out):
    if isinstance(e, tuple):
        if e and e[0] == "var":
            out.add(e[1])
        for x in e[1:]:
            free_vars(x, out)
    elif isinstance(e, list):
        for x in e:
            free_vars(x, out)
    return out


# ---- expressions ------------------------------------------------------------------------------
ARITH = {"+": "+", "-": "-", "*": "*", "/": "/", "%": "%"}


def const_fold(env, e):
    """value of a constant expression over literals and earlier `const` items, else None"""
    e = strip_wrappers(e)
    if e[0] == "lit":
        return e[1]
    if e[0] == "var":
        b = env.get(e[1])
        return getattr(b, "const_val", None) if b is not None else None
    if e[0] == "bin" and e[1] in ("+", "-", "*", "<<", ">>", "&", "|", "^"):
        a, b = const_fold(env, e[2]), const_fold(env, e[3])
        if a is None or b is None:
            return None
        r = {"+": a + b, "-": a - b, "*": a * b, "<<": a << b, ">>": a >> b, "&": a & b, "|": a | b, "^": a ^ b}[e[1]]
        return r
    return None


def is_max_path(e):
    return e[0] == "path" and e[1] in (["usize", "MAX"], ["isize", "MAX"])


def compile_expr(ctx, env, e, expect=None):
    """pure Lean expression (effects are emitted as statements before it)."""
    k = e[0]
    if k == "paren":
        return compile_expr(ctx, env, e[1], expect)
    if k in ("unsafeblock", "block"):
        inner = dict(env)
        v, div = compile_stmts(ctx, inner, e[1], want_value=True)
        if div or v is None:
            raise TErr("a block without value in expression position")
        return v
    if k == "lit" and ctx.low and expect is not None and prune(expect) == WORD:
        return Val(f"{e[1]}#64", WORD, atomic=True)
    if k == "lit":
        t = TVar(numeric=True)
        if expect is not None:
            try:
                unify(t, expect, "literal")
            except TErr:
                pass
        v = Val(str(e[1]), t, atomic=True)
        v.lit = e[1]
        return v
    if k == "bool":
        return Val(e[1], BOOL, atomic=True)
    if k == "var":
        name = e[1]
        if name == "None":
            return Val("none", OPT(TVar()), atomic=True)
        b = env.get(name)
        if b is None:
            raise TErr(f"unknown variable `{name}`")
        if b.kind == "val" and getattr(b, "rawbuf", None):
            lb = env[b.rawbuf]
            ctx.use(b)
            ctx.use(lb)
            tmp = ctx.fresh_tmp()
            ctx.em.emit(f"let {tmp} ← bufFreeze {ctx.site(name)} {b.lean} {lb.lean}")
            return Val(tmp, LIST(prune(prune(b.ty)[1])[1]), atomic=True, stable=True)
        if b.kind == "val":
            ctx.use(b)
            return Val(b.lean, b.ty, atomic=True, stable=b.stable)
        if b.kind == "graph":
            ctx.use_global("g")
            return Val("g", GRAPH_T, atomic=True, stable=True)
        if b.kind == "cell":
            raise TErr(f"`{name}` is a reference to a vector element; only `*{name}` is supported")
        raise TErr(f"`{name}` is a raw pointer; only `*{name}` / `{name}.add(i)` are supported")
    if k == "path":
        if is_max_path(e):
            st = ctx.sinfo["sentinel"]
            if st is None:
                raise TErr(f"`{unparse(e)}` in a file without a sentinel type in the typed model")
            want = INT if e[1][0] == "isize" else st
            if want != st:
                raise TErr(f"`{unparse(e)}`: sentinel type mismatch")
            ctx.use_global("inf")
            return Val("inf", st, atomic=True)
        raise TErr(f"path `{unparse(e)}` is outside the supported subset")
    if k == "tup":
        if e[1] and strip_wrappers(e[1][0])[0] == "call" and strip_wrappers(e[1][0])[1] == ("var", "Reverse"):
            return compile_entry(ctx, env, e)
        vs = [compile_expr(ctx, env, x) for x in e[1]]
        if not vs:
            return Val("()", UNIT, atomic=True)
        return Val("(" + ", ".join(v.code for v in vs) + ")", TUP(*[v.ty for v in vs]), atomic=True, parts=vs)
    if k == "field":
        if re.match(r"\d+\Z", e[2]):
            v = compile_expr(ctx, env, e[1])
            t = prune(v.ty)
            if isinstance(t, TVar) or t[0] != "tup":
                raise TErr(f"`{unparse(e)}`: tuple field of a value of type {show_ty(t)}")
            i = int(e[2])
            if i >= len(t[1]):
                raise TErr(f"`{unparse(e)}`: tuple index out of range")
            if v.parts:
                return v.parts[i]
            return Val(proj(v.p(), i, len(t[1])), t[1][i], atomic=True, stable=v.stable)
        pl = place_of(e)
        if pl is not None and pl[0] in env and env[pl[0]].kind == "val":
            v = place_val(ctx, env, pl)
            if v.ty == GRAPH_T:
                ctx.use_global("g")
                return Val("g", GRAPH_T, atomic=True)
            return v
        raise TErr(f"field access `{unparse(e)}` is outside the supported subset")
    if k == "un":
        op = e[1]
        if op == "&":
            return compile_expr(ctx, env, e[2], expect)
        if op == "!":
            v = compile_expr(ctx, env, e[2], BOOL)
            unify(v.ty, BOOL, "operand of `!`")
            return Val("!" + v.p(), BOOL)
        if op == "*":
            return compile_deref(ctx, env, e[2])
        raise TErr(f"unary `{op}` is outside the supported subset")
    if k == "bin":
        return compile_bin(ctx, env, e, expect)
    if k == "index":
        base = compile_expr(ctx, env, e[1])
        t = prune(base.ty)
        if t == MAP:
            k = compile_expr(ctx, env, e[2], NAT)
            unify(k.ty, NAT, "map key")
            tmp = ctx.fresh_tmp()
            ctx.em.emit(f"let {tmp} ← mapIdx {base.p()} {k.p()}")
            return Val(tmp, NAT, atomic=True, stable=True)
        if isinstance(t, TVar) or t[0] != "list":
            raise TErr(f"`{unparse(e)}`: indexing a value of type {show_ty(t)}")
        if e[2][0] == "range":
            if e[2][1] is None and e[2][2] is None:
                return base
            raise TErr("a proper sub-slice is outside the supported subset")
        i = compile_expr(ctx, env, e[2], NAT)
        unify(i.ty, NAT, "index")
        tmp = ctx.fresh_tmp()
        ctx.em.emit(f"let {tmp} ← idx {base.p()} {i.p()}")
        return Val(tmp, t[1], atomic=True, stable=True)
    if k == "range" and e[1] is not None and e[2] is not None and ctx.sinfo.get("extern"):
        return list_iter(ctx, env, e)
    if k == "ascribe":
        t = rust_ty(e[2], ctx.sname, ctx.aliases, {})
        cv = const_fold(env, e[1])
        if cv is not None and t in (U64, NAT):
            # a `const` item: evaluated by the translator as rustc does (overflow = compile error there)
            if not (0 <= cv < 2 ** 64):
                raise TErr("constant out of the u64 range")
            v = Val(f"({cv} : {lean_ty(t)})", t, atomic=True)
            v.const_val = cv
            return v
        v = compile_expr(ctx, env, e[1], t)
        unify(v.ty, t, "constant")
        return Val(f"({v.code} : {lean_ty(t)})", t, atomic=True)
    if k == "flit":
        raise TErr(f"float literal `{e[1]}` is supported only in `f64::from_bits(b) - 1.0`")
    if k == "vecrep":
        x = compile_expr(ctx, env, e[1])
        n = compile_expr(ctx, env, e[2], NAT)
        unify(n.ty, NAT, "length of vec![x; n]")
        return Val(f"List.replicate {n.p()} {x.p()}", LIST(x.ty))
    if k == "veclit":
        vs = [compile_expr(ctx, env, x) for x in e[1]]
        t = TVar()
        for v in vs:
            unify(t, v.ty, "vec![..] element")
        return Val("[" + ", ".join(v.code for v in vs) + "]", LIST(t), atomic=True)
    if k == "call":
        return compile_call(ctx, env, e, expect)
    if k == "mcall":
        return compile_mcall(ctx, env, e, expect)
    if k == "struct":
        return compile_struct(ctx, env, e)
    if k == "closure":
        raise TErr("a closure outside an argument position is outside the supported subset")
    if k == "cast" and ctx.low and e[2] == "usize":
        v = compile_expr(ctx, env, e[1], NAT)
        if prune(v.ty) == NAT:
            return v                                            # `x.trailing_zeros() as usize`: u32 -> usize
        raise TErr(f"`{unparse(e)}`: this cast is outside the supported subset")
    if k == "cast" and ctx.par and e[2] == "u64":
        v = compile_expr(ctx, env, e[1], NAT)
        unify(v.ty, NAT, "operand of `as u64`")
        return Val(f"UInt64.ofNat {v.p()}", U64)            # usize -> u64: lossless on a 64-bit target
    if k == "cast":
        raise TErr("`as` casts are outside the supported subset")
    if k == "try":
        raise TErr("`?` is supported only as `let pat = e?;`")
    if k == "withtarget":
        saved_ct = ctx.collect_target
        ctx.collect_target = e[1]
        try:
            return compile_expr(ctx, env, e[2], expect)
        finally:
            ctx.collect_target = saved_ct
    if k == "if" and e[3] is not None and e[1][0] != "letcond" and ctx.sinfo.get("extern"):
        # `if c { a } else { b }` as a value: both branches pure expressions
        c = compile_cond(ctx, env, e[1])
        vals = []
        for br in (e[2], e[3]):
            saved, saved_loops = ctx.em, ctx.loops
            sub = Emitter(0)
            ctx.em, ctx.loops = sub, []
            v, div = compile_stmts(ctx, dict(env), br, want_value=True)
            ctx.em, ctx.loops = saved, saved_loops
            if (sub.lines or div or v is None) and ctx.par:
                return compile_if_value(ctx, env, e)
            if sub.lines or div or v is None:
                raise TErr("`if` in expression position: a branch that is not a pure expression is outside the supported subset")
            vals.append(v)
        unify(vals[0].ty, vals[1].ty, "branches of `if`")
        return Val(f"if {c} then {vals[0].code} else {vals[1].code}", vals[0].ty)
    raise TErr(f"`{k}` in expression position is outside the supported subset")


def compile_if_value(ctx, env, e):
    """`if c { ..; a } else { ..; b }` as a value whose branches have effects (reads that can fault) but update no
    variable declared outside"""
    if state_binds(ctx, env, [e[2], e[3]]):
        raise TErr("`if` in expression position whose branches update outer variables is outside the supported subset")
    c = compile_cond(ctx, env, e[1])
    base = ctx.em.indent
    tmp = ctx.fresh_tmp()
    ctx.em.emit(f"let {tmp} ← (if {c} then do")
    tys = []
    for k, br in enumerate((e[2], e[3])):
        if k == 1:
            ctx.em.emit("  else do")
        ctx.em.indent = base + 4
        ctx.branch_states.append((ctx.bid, set()))
        v, div = compile_stmts(ctx, dict(env), br, want_value=True)
        ctx.branch_states.pop()
        if div or v is None:
            raise TErr("`if` in expression position: a branch without value")
        ctx.em.emit(f"pure {v.p()}")
        ctx.em.indent = base
        tys.append(v.ty)
    ctx.em.append_to_last(")")
    unify(tys[0], tys[1], "branches of `if`")
    return Val(tmp, tys[0], atomic=True, stable=True)


def compile_entry(ctx, env, e):
    """`(Reverse(d), v)` / `(Reverse(d), (p, v))`: an entry of the binary heap."""
    shape = ctx.sinfo.get("heap")
    if shape is None or len(e[1]) != 2:
        raise TErr(f"`{unparse(e)}`: `Reverse` outside a heap entry of a struct with a binary heap")
    d = compile_expr(ctx, env, strip_wrappers(e[1][0])[2][0], INT)
    unify(d.ty, INT, "heap key")
    rest = strip_wrappers(e[1][1])
    if shape == "wu":
        v = compile_expr(ctx, env, rest, NAT)
        unify(v.ty, NAT, "heap entry vertex")
        return Val(f"(⟨{d.code}, none, {v.code}⟩ : Entry)", ENTRY, atomic=True)
    if rest[0] != "tup" or len(rest[1]) != 2:
        raise TErr(f"`{unparse(e)}`: expected `(Reverse(d), (pred, v))`")
    p = compile_expr(ctx, env, rest[1][0], OPT(NAT))
    unify(p.ty, OPT(NAT), "heap entry predecessor")
    v = compile_expr(ctx, env, rest[1][1], NAT)
    unify(v.ty, NAT, "heap entry vertex")
    return Val(f"(⟨{d.code}, {p.code}, {v.code}⟩ : Entry)", ENTRY, atomic=True)


def compile_deref(ctx, env, x):
    pe = eval_ptr(ctx, env, x)
    if pe is not None:
        if pe[0] != "elem":
            if not ctx.sinfo.get("ptr_deref0"):
                raise TErr(f"`*{unparse(x)}`: dereferencing the buffer pointer itself is outside the supported subset")
            pe = ("elem", pe[1], Val("0", NAT, atomic=True), ctx.site(unparse(x)))      # `*p` is element 0
        _, place, i, site = pe
        pv = place_val(ctx, env, place)
        t = prune(pv.ty)
        tmp = ctx.fresh_tmp()
        ctx.em.emit(f"let {tmp} ← rd {site} {pv.p()} {i.p()}")
        return Val(tmp, t[1], atomic=True, stable=True)
    sx = strip_wrappers(x)
    if sx[0] == "var" and sx[1] in env and env[sx[1]].kind == "cell":
        b = env[sx[1]]
        if b.cur is None:
            raise TErr(f"`*{sx[1]}` is read after it was written through: outside the supported subset")
        return Val(b.cur, b.ty, atomic=True)
    return compile_expr(ctx, env, x)


def num_result(a, b, what):
    unify(a.ty, b.ty, what)
    t = prune(a.ty)
    if not isinstance(t, TVar) and t not in (NAT, INT, U64):
        raise TErr(f"{what}: arithmetic on {show_ty(t)}")
    if isinstance(t, TVar):
        t.numeric = True
    return t


def compile_bin(ctx, env, e, expect):
    op = e[1]
    if op in ("&&", "||"):
        mark = len(ctx.em.lines)
        a = compile_expr(ctx, env, e[2], BOOL)
        unify(a.ty, BOOL, f"operand of {op}")
        saved = ctx.em
        sub = Emitter(saved.indent + 4)
        ctx.em = sub
        b = compile_expr(ctx, env, e[3], BOOL)
        ctx.em = saved
        unify(b.ty, BOOL, f"operand of {op}")
        if not sub.lines:
            return Val(f"{a.p()} {op} {b.p()}", BOOL)
        # the right operand has effects: keep the short circuit; the variables it assigns (a call with
        # `&mut self`, a `&mut` argument) come back out of the conditional together with its value
        del saved.lines[mark:]
        ca = compile_cond(ctx, env, e[2])
        M = state_binds(ctx, env, [("expr", e[3], True)])
        tmp = ctx.fresh_tmp()
        if not M:
            if op == "&&":
                saved.emit(f"let {tmp} ← (if {ca} then do")
                saved.lines += sub.lines
                saved.lines.append(" " * (saved.indent + 4) + f"pure {b.p()}")
                saved.emit("  else pure false)")
            else:
                saved.emit(f"let {tmp} ← (if {ca} then pure true else do")
                saved.lines += sub.lines
                saved.lines.append(" " * (saved.indent + 4) + f"pure {b.p()})")
            return Val(tmp, BOOL, atomic=True, stable=True)
        ms = ", ".join(x.lean for x in M)
        if op == "&&":
            saved.emit(f"let {tmp} ← (if {ca} then do")
            saved.lines += sub.lines
            saved.lines.append(" " * (saved.indent + 4) + f"pure ({b.code}, {ms})")
            saved.emit(f"  else pure (false, {ms}))")
        else:
            saved.emit(f"let {tmp} ← (if {ca} then pure (true, {ms}) else do")
            saved.lines += sub.lines
            saved.lines.append(" " * (saved.indent + 4) + f"pure ({b.code}, {ms}))")
        n = len(M) + 1
        for i, x in enumerate(M):
            saved.emit(f"let {x.lean} := {proj(tmp, i + 1, n)}")
        return Val(proj(tmp, 0, n), BOOL, atomic=True, stable=True)
    if op in CMP:
        a = compile_expr(ctx, env, e[2])
        if prune(a.ty) == F64U:
            b = compile_expr(ctx, env, e[3], F64)
            if op != "<" or prune(b.ty) != F64:
                raise TErr(f"`{unparse(e)}`: only `next_f64() < p` is supported on doubles")
            return Val(f"f64ltM {a.p()} {b.p()}", BOOL)
        b = compile_expr(ctx, env, e[3], a.ty)
        unify(a.ty, b.ty, f"operands of {op}")
        if op == "==":
            return Val(f"{a.p()} == {b.p()}", BOOL)
        if op == "!=":
            return Val(f"{a.p()} != {b.p()}", BOOL)
        return Val(f"decide ({a.code} {op.replace('<=', '≤').replace('>=', '≥')} {b.code})", BOOL)
    if ctx.low and op in ("^", "&", "|", "<<", "-"):
        l3 = strip_wrappers(e[3])
        if op == "&" and l3[0] == "lit" and l3[1] > 0 and (l3[1] + 1) & l3[1] == 0:
            a = compile_expr(ctx, env, e[2])
            if prune(a.ty) == NAT or (isinstance(prune(a.ty), TVar) and prune(a.ty).numeric and (expect is None or prune(expect) != WORD)):
                unify(a.ty, NAT, "operand of &")
                return Val(f"{a.p()} % {l3[1] + 1}", NAT)          # `i & (2^k - 1)` on an index
        if op == "<<" and ((expect is not None and prune(expect) == WORD) or strip_wrappers(e[2])[0] == "lit"):
            # `1 << k`: a word with one bit set (in the covered files a left shift only ever builds a mask)
            a = compile_expr(ctx, env, e[2], WORD)
            unify(a.ty, WORD, "operand of <<")
            b = compile_expr(ctx, env, e[3], NAT)
            unify(b.ty, NAT, "shift amount")
            return Val(f"{a.p()} <<< {b.p()}", WORD)
        if op in ("^", "&", "|", "-"):
            a = compile_expr(ctx, env, e[2], expect if expect is not None and prune(expect) == WORD else None)
            if prune(a.ty) == WORD:
                b = compile_expr(ctx, env, e[3], WORD)
                unify(b.ty, WORD, f"operand of {op}")
                lop = {"^": "^^^", "&": "&&&", "|": "|||", "-": "-"}[op]
                return Val(f"{a.p()} {lop} {b.p()}", WORD)
    if op == ">>" and ctx.par and strip_wrappers(e[3])[0] == "lit" and 0 < strip_wrappers(e[3])[1] < 64:
        a = compile_expr(ctx, env, e[2], expect)
        ta = prune(a.ty)
        if ta == NAT or (isinstance(ta, TVar) and ta.numeric and expect is None):
            unify(a.ty, NAT, "operand of >>")
            return Val(f"{a.p()} / {2 ** strip_wrappers(e[3])[1]}", NAT)       # `x >> k` on usize
    if op in ("^", "&", "|", "<<", ">>"):
        a = compile_expr(ctx, env, e[2], U64)
        b = compile_expr(ctx, env, e[3], U64)
        unify(a.ty, U64, f"operand of {op} (only u64 bit operations are in the subset)")
        unify(b.ty, U64, f"operand of {op}")
        lop = {"^": "^^^", "&": "&&&", "|": "|||", "<<": "<<<", ">>": ">>>"}[op]
        return Val(f"{a.p()} {lop} {b.p()}", U64)
    if op == "-" and ctx.par and strip_wrappers(e[2]) == ("flit", "1.0"):
        pv = compile_expr(ctx, env, e[3], F64)
        unify(pv.ty, F64, "operand of `1.0 - p`")
        return Val(f"Rand.F64.oneMinus {pv.p()}", F64)      # the hand-written `1.0 - p` (exact on [0.5, 1], Sterbenz)
    if op == "-" and strip_wrappers(e[3])[0] == "flit":
        # `f64::from_bits(b) - 1.0`: the double with sign 0 / exponent 1023 / mantissa m minus one is
        # exactly m / 2^52 - represented by its mantissa bits (docs/AlgoGen.md, trusted)
        l = strip_wrappers(e[2])
        if strip_wrappers(e[3])[1] == "1.0" and l[0] == "call" and l[1] == ("path", ["f64", "from_bits"]) and len(l[2]) == 1:
            b = compile_expr(ctx, env, l[2][0], U64)
            unify(b.ty, U64, "argument of f64::from_bits")
            tmp = ctx.fresh_tmp()
            ctx.em.emit(f"let {tmp} ← f64UnitOfBits {b.p()}")
            return Val(tmp, F64U, atomic=True, stable=True)
        raise TErr(f"`{unparse(e)}`: float arithmetic is outside the supported subset")
    if op in ARITH:
        a = compile_expr(ctx, env, e[2], expect)
        b = compile_expr(ctx, env, e[3], a.ty)
        t = num_result(a, b, f"operands of {op}")
        if prune(t) == U64:
            raise TErr(f"`{op}` on u64 (overflow panics in the dev profile) is outside the supported subset; use wrapping_*")
        if op == "%" and prune(t) == NAT and (ctx.sinfo.get("extern") or ctx.low):
            tmp = ctx.fresh_tmp()
            ctx.em.emit(f"let {tmp} ← modP {a.p()} {b.p()}")      # panics for a zero divisor
            return Val(tmp, NAT, atomic=True, stable=True)
        if op == "/" and ctx.par and prune(t) == NAT and getattr(b, "lit", None) not in (None, 0):
            return Val(f"{a.p()} / {b.p()}", NAT)         # a non-zero literal divisor
        if op == "/" and ctx.par and prune(t) == NAT:
            tmp = ctx.fresh_tmp()
            ctx.em.emit(f"let {tmp} ← divP {a.p()} {b.p()}")       # panics for a zero divisor
            return Val(tmp, NAT, atomic=True, stable=True)
        if op in ("/", "%"):
            raise TErr(f"`{op}` (division by zero panics) is outside the supported subset")
        if op == "-" and prune(t) != INT and ctx.par:
            # overflow checks of the dev / test profile: `a - b` with `a < b` panics (docs/AlgoGen.md, Set 4)
            unify(t, NAT, "operands of `-`")
            tmp = ctx.fresh_tmp()
            ctx.em.emit(f"let {tmp} ← subP {a.p()} {b.p()}")
            return Val(tmp, NAT, atomic=True, stable=True)
        if op == "-" and prune(t) != INT:
            raise TErr("`-` on usize (underflow panics / wraps) is outside the supported subset")
        return Val(f"{a.p()} {op} {b.p()}", t)
    raise TErr(f"operator `{op}` is outside the supported subset")


def compile_cond(ctx, env, e):
    """condition of an `if` / `while`: Lean Prop text (decidable)."""
    s = strip_wrappers(e) if e[0] == "paren" else e
    if s[0] == "bin" and s[1] in CMP:
        a = compile_expr(ctx, env, s[2])
        if prune(a.ty) == F64U:
            b = compile_expr(ctx, env, s[3], F64)
            if s[1] != "<" or prune(b.ty) != F64:
                raise TErr(f"`{unparse(s)}`: only `next_f64() < p` is supported on doubles")
            return f"f64ltM {a.p()} {b.p()} = true"
        if ctx.par and prune(a.ty) == F64:
            if s[1] == ">" and strip_wrappers(s[3]) == ("flit", "0.5"):
                return f"Rand.F64.gtHalf {a.p()} = true"        # the hand-written exact `p > 0.5`
            raise TErr(f"`{unparse(s)}`: only `p > 0.5` is supported on an `f64` parameter")
        b = compile_expr(ctx, env, s[3], a.ty)
        unify(a.ty, b.ty, f"operands of {s[1]}")
        op = {"==": "=", "!=": "≠", "<=": "≤", ">=": "≥"}.get(s[1], s[1])
        return f"{a.p()} {op} {b.p()}"
    if s[0] == "un" and s[1] == "!":
        inner = s[2]
        si = strip_wrappers(inner) if inner[0] == "paren" else inner
        if si[0] == "bin" and si[1] in CMP:
            return "¬ (" + compile_cond(ctx, env, si) + ")"
        v = compile_expr(ctx, env, inner, BOOL)
        unify(v.ty, BOOL, "operand of `!`")
        return f"{v.p()} = false"
    v = compile_expr(ctx, env, e, BOOL)
    unify(v.ty, BOOL, "condition")
    return f"{v.p()} = true"


def struct_key(ctx, rust_name):
    """the STRUCTS key of a struct named in the current file (two files may both have a private `ArcsIterator`)"""
    here = (ctx.sinfo.get("dir"), ctx.sinfo["file"])
    for k, info in STRUCTS.items():
        if info.get("rust") == rust_name and (info.get("dir"), info["file"]) == here:
            return k
    return rust_name


def compile_struct(ctx, env, e):
    name = e[1][-1]
    if name == "Self":
        name = ctx.sname
    name = struct_key(ctx, name)
    if name not in STRUCTS:
        raise TErr(f"struct literal `{name}` is outside the typed field model")
    given = dict(e[2])
    parts = []
    for fname, _, fty in STRUCTS[name]["fields"]:
        if fname not in given:
            raise TErr(f"struct literal `{name}`: field `{fname}` missing")
        ex = given.pop(fname)
        if fty is None:
            sv = strip_wrappers(ex)
            if not (sv[0] == "var" and sv[1] in env and env[sv[1]].kind == "graph"):
                raise TErr(f"struct literal `{name}`: field `{fname}` must be the digraph reference")
            continue
        sx = strip_wrappers(ex)
        if fname in STRUCTS[name].get("ptr_fields", ()) and sx[0] == "mcall" and sx[2] in ("as_ptr", "as_mut_ptr") and not sx[4]:
            ex = sx[1]          # a raw pointer field: the slice it points to
        if fty == UNIT and sx in (("var", "PhantomData"), ("path", ["PhantomData"])):
            parts.append(f"{fname} := ()")
            continue
        saved_ct = ctx.collect_target
        ctx.collect_target = next(rt for fn_, rt, _ in STRUCTS[name]["fields"] if fn_ == fname)
        v = compile_expr(ctx, env, ex, fty)
        ctx.collect_target = saved_ct
        unify(v.ty, fty, f"field `{fname}` of `{name}`")
        parts.append(f"{STRUCTS[name].get('lean_fields', {}).get(fname, fname)} := {v.code}")
    if given:
        raise TErr(f"struct literal `{name}`: unknown field(s) {sorted(given)}")
    return Val("({ " + ", ".join(parts) + " } : " + STRUCTS[name].get("extern", name) + ")", STRUCT(name), atomic=True)


def compile_closure(ctx, env, lam, param_tys, ret_ty):
    """a closure argument whose body is pure (an expression, or a block of pure `let`s / re-bindings)."""
    if lam[0] != "closure":
        v = compile_expr(ctx, env, lam)
        return v
    if len(lam[1]) != len(param_tys):
        raise TErr("closure arity mismatch")
    inner = dict(env)
    names = []
    tup_params = []
    for p, t in zip(lam[1], param_tys):
        while p[0] == "pref":
            p = p[1]
        if p[0] == "pwild":
            names.append("_")
        elif p[0] == "pvar":
            n = ctx.fresh_name(p[1])
            names.append(n)
            check_no_alias_root(inner, p[1])
            ctx.new_bind(inner, Bind("val", p[1], lean=n, ty=t, mut=p[2], stable=not p[2]))
        elif p[0] == "ptup" and ctx.sinfo.get("extern"):
            n = ctx.fresh_name("x")
            names.append(n)
            tup_params.append((p, Val(n, t, atomic=True, stable=True)))
        else:
            raise TErr("closure parameter pattern is outside the supported subset")
    saved, saved_loops = ctx.em, ctx.loops
    sub = Emitter(0)
    ctx.em, ctx.loops = sub, []
    for p, v in tup_params:
        bind_pattern(ctx, inner, p, v, True)
    body = compile_expr(ctx, inner, lam[2], ret_ty)
    ctx.em, ctx.loops = saved, saved_loops
    for line in sub.lines:
        if not re.match(r"let [^←]*:= [^←]*\Z", line):
            raise TErr("a closure whose body has effects or control flow is outside the supported subset")
    unify(body.ty, ret_ty, "closure result")
    code = "; ".join(sub.lines + [body.code])
    return Val("fun " + " ".join(names) + " => " + code, ("fn", list(param_tys), ret_ty))


def new_container(what):
    return Val(f"([] : List {lean_ty(what, True)})", LIST(what), atomic=True)


def contains_kind(node, kinds):
    if isinstance(node, list):
        return any(contains_kind(x, kinds) for x in node)
    if isinstance(node, tuple) and node:
        if node[0] in kinds:
            return True
        return any(contains_kind(x, kinds) for x in node[1:] if isinstance(x, (tuple, list)))
    return False


def compile_spawn(ctx, env, lam, what):
    """`spawn(move || body)` / `s.spawn(move || body)` (DESIGN.md 4.2): the closure is executed to completion at
    its spawn point; the `JoinHandle` is the value the closure returns."""
    if lam[0] != "closure" or lam[1]:
        raise TErr(f"`{what}` takes a closure without parameters")
    if contains_kind(lam[2], ("return", "try")):
        raise TErr(f"`{what}`: `return` / `?` inside a spawned closure is outside the supported subset")
    inner = dict(env)
    saved_loops = ctx.loops
    ctx.loops = []          # a closure cannot `break` / `continue` a loop around it
    try:
        if lam[2][0] in ("block", "unsafeblock"):
            v, div = compile_stmts(ctx, inner, lam[2][1], want_value=True)
        else:
            v, div = compile_expr(ctx, inner, lam[2]), False
    finally:
        ctx.loops = saved_loops
    if div:
        raise TErr(f"`{what}`: a spawned closure that always panics is outside the supported subset")
    return v if v is not None else Val("()", UNIT, atomic=True)


def compile_scope(ctx, env, lam):
    """`scope(|s| body)`: the body is run in place (`s.spawn` as above); leaving the scope joins all workers,
    which is a no-op in this reading."""
    if lam[0] != "closure" or len(lam[1]) != 1 or strip_pref(lam[1][0])[0] != "pvar":
        raise TErr("`scope` takes a closure `|s| ..`")
    if contains_kind(lam[2], ("return", "try")):
        raise TErr("`scope`: `return` / `?` inside the scope closure is outside the supported subset")
    inner = dict(env)
    ctx.new_bind(inner, Bind("scope", strip_pref(lam[1][0])[1]))
    saved_loops = ctx.loops
    ctx.loops = []
    try:
        if lam[2][0] in ("block", "unsafeblock"):
            v, div = compile_stmts(ctx, inner, lam[2][1], want_value=True)
        else:
            v, div = compile_expr(ctx, inner, lam[2]), False
    finally:
        ctx.loops = saved_loops
    if div:
        raise TErr("`scope`: a body that always panics is outside the supported subset")
    return v if v is not None else Val("()", UNIT, atomic=True)


def is_ap_expr(e):
    """`available_parallelism().map_or(1, NonZero::get)`"""
    e = strip_wrappers(e)
    if e[0] != "mcall" or e[2] != "map_or" or len(e[4]) != 2:
        return False
    r = strip_wrappers(e[1])
    ok = r[0] == "call" and not r[2] and (r[1] == ("var", "available_parallelism")
                                          or (r[1][0] == "path" and r[1][1][-1] == "available_parallelism"))
    a0, a1 = strip_wrappers(e[4][0]), strip_wrappers(e[4][1])
    return ok and a0 == ("lit", 1) and a1[0] == "path" and a1[1][-2:] == ["NonZero", "get"]


def strip_lock(e):
    """`m.lock().unwrap_unchecked()` / `m.lock().unwrap()` -> m (direct access, DESIGN.md 4.2)"""
    e = strip_wrappers(e)
    while e[0] == "mcall" and e[2] in ("unwrap_unchecked", "unwrap") and not e[4]:
        r = strip_wrappers(e[1])
        if r[0] == "mcall" and r[2] == "lock" and not r[4]:
            e = strip_wrappers(r[1])
        else:
            break
    return e


def is_join(e):
    """`h.join().unwrap_unchecked()` / `h.join().unwrap()` -> h"""
    e = strip_wrappers(e)
    if e[0] == "mcall" and e[2] in ("unwrap_unchecked", "unwrap") and not e[4]:
        r = strip_wrappers(e[1])
        if r[0] == "mcall" and r[2] == "join" and not r[4]:
            return r[1]
    return None


def compile_call(ctx, env, e, expect):
    f, args = e[1], e[2]
    if ctx.par:
        segs = [f[1]] if f[0] == "var" else (f[1] if f[0] == "path" else None)
        if segs in (["spawn"], ["thread", "spawn"]) and len(args) == 1:
            return compile_spawn(ctx, env, args[0], "spawn")
        if segs in (["scope"], ["thread", "scope"]) and len(args) == 1:
            return compile_scope(ctx, env, args[0])
        if segs in (["Arc", "new"], ["Mutex", "new"], ["AtomicBool", "new"], ["ManuallyDrop", "new"]) and len(args) == 1:
            # sharing / direct access / a plain Boolean cell: the value itself
            return compile_expr(ctx, env, args[0], expect)
        if segs == ["Arc", "clone"] and len(args) == 1:
            return compile_expr(ctx, env, args[0], expect)
        if segs is not None and len(segs) == 1 and (ctx.sname, segs[0]) in ctx.fntab \
                and ctx.fntab[(ctx.sname, segs[0])]["self_mode"] is None and segs[0] not in env:
            return compile_fn_call(ctx, env, ctx.sname, segs[0], None, args)      # a free function of the same file
        if segs in (["read"], ["ptr", "read"]) and len(args) == 1:
            # `ptr::read(p.add(i))`: the bounds-checked copy of element `i` (out of range: `ub`).  That the entry is moved
            # out at most once / not used afterwards is NOT tracked (docs/AlgoGen.md, Set 4)
            pe = eval_ptr(ctx, env, args[0])
            if pe is None or pe[0] != "elem":
                raise TErr(f"`{unparse(e)}`: the source must be `p.add(i)` for a vector's buffer pointer `p`")
            _, place, i, site = pe
            pv = place_val(ctx, env, place)
            t = prune(pv.ty)
            tmp = ctx.fresh_tmp()
            ctx.em.emit(f"let {tmp} ← rd {site} {pv.p()} {i.p()}")
            return Val(tmp, t[1], atomic=True, stable=True)
        if segs in (["write"], ["ptr", "write"]) and len(args) == 2:
            # `ptr::write(p.add(i), x)`: element `i` of the vector is overwritten (out of range: `ub`)
            pe = eval_ptr(ctx, env, args[0])
            if pe is None or pe[0] != "elem":
                raise TErr(f"`{unparse(e)}`: the destination must be `p.add(i)` for a vector's buffer pointer `p`")
            _, place, i, site = pe
            pv = place_val(ctx, env, place)
            t = prune(pv.ty)
            raw = not place[1] and getattr(env.get(place[0]), "rawbuf", None)
            et = prune(t[1])[1] if raw else t[1]
            v = compile_expr(ctx, env, args[1], et)
            unify(v.ty, et, "value written by ptr::write")
            if raw:
                v = Val(f"some {v.p()}", t[1])
            tmp = ctx.fresh_tmp()
            pv = place_val(ctx, env, place)
            ctx.em.emit(f"let {tmp} ← wr {site} {pv.p()} {i.p()} {v.p()}")
            place_set(ctx, env, place, tmp)
            return Val("()", UNIT, atomic=True)
    if f[0] == "var":
        name = f[1]
        if name == "Some":
            if len(args) != 1:
                raise TErr("`Some` takes one argument")
            inner_expect = None
            pe = prune(expect) if expect is not None else None
            if pe is not None and not isinstance(pe, TVar) and pe[0] == "opt":
                inner_expect = pe[1]
            v = compile_expr(ctx, env, args[0], inner_expect)
            return Val(f"some {v.p()}", OPT(v.ty))
        b = env.get(name)
        if b is not None and b.kind == "val":
            t = prune(b.ty)
            if not isinstance(t, TVar) and t[0] == "fn":
                ctx.use(b)
                if len(args) != len(t[1]):
                    raise TErr(f"`{name}`: arity mismatch")
                vs = []
                for a, at in zip(args, t[1]):
                    v = compile_expr(ctx, env, a, at)
                    unify(v.ty, at, f"argument of `{name}`")
                    vs.append(v)
                return Val(b.lean + " " + " ".join(v.p() for v in vs), t[2])
        raise TErr(f"call of `{name}` is outside the supported subset")
    if f[0] == "path":
        segs = f[1]
        if segs in (["VecDeque", "with_capacity"], ["Vec", "with_capacity"]) and len(args) == 1:
            n = compile_expr(ctx, env, args[0], NAT)     # the capacity is not observable
            unify(n.ty, NAT, "capacity")
            return new_container(TVar())
        if segs in (["Vec", "new"], ["VecDeque", "new"]) and not args:
            return new_container(TVar())
        if segs == ["BTreeSet", "new"] and not args:
            if ctx.sinfo.get("extern"):
                tv = TVar()
                return Val(f"([] : {lean_ty(tv)})", tv, atomic=True)
            return Val("([] : List Nat)", SET(TVar()), atomic=True)
        if segs == ["BTreeSet", "from"] and len(args) == 1 and strip_wrappers(args[0])[0] == "veclit" and ctx.sinfo.get("extern"):
            # `BTreeSet::from([a, b, ..])` = the items inserted in order
            l = compile_expr(ctx, env, args[0], LIST(NAT))
            unify(l.ty, LIST(NAT), "items of BTreeSet::from")
            return Val(f"Ops.toSet {l.p()}", SET(KA))
        if segs == ["BTreeMap", "new"] and not args:
            if ctx.sinfo.get("extern"):
                tv = TVar()
                return Val(f"([] : {lean_ty(tv)})", tv, atomic=True)
            return Val("([] : NatMap)", MAP, atomic=True)
        if segs == ["BinaryHeap", "with_capacity"] and len(args) == 1:
            if ctx.sinfo.get("heap") is None:
                raise TErr("`BinaryHeap` in a struct without a heap in the typed field model")
            n = compile_expr(ctx, env, args[0], NAT)
            unify(n.ty, NAT, "capacity")
            return Val("([] : Heap)", LIST(ENTRY), atomic=True)
        if segs == ["Tarjan", "new"] and len(args) == 1 and ctx.sinfo.get("tarjan_external"):
            gv = compile_expr(ctx, env, args[0])
            if gv.ty != GRAPH_T:
                raise TErr("`Tarjan::new` of something that is not a digraph")
            return Val(gv.code, ("tarjanOf",), atomic=gv.atomic, stable=gv.stable)
        if segs == ["Self", "trivial"] and not args and "extern" in ctx.sinfo:
            # `Empty::trivial` (src/gen/empty.rs) is `Self::empty(1)`
            tmp = ctx.fresh_tmp()
            ctx.em.emit(f"let {tmp} ← optP ({ctx.sinfo['extern']}.empty 1)")
            return Val(tmp, STRUCT(ctx.sname), atomic=True, stable=True)
        if segs == ["Self", "empty"] and len(args) == 1 and "extern" in ctx.sinfo:
            n = compile_expr(ctx, env, args[0], NAT)
            unify(n.ty, NAT, "order")
            tmp = ctx.fresh_tmp()
            ctx.em.emit(f"let {tmp} ← optP ({ctx.sinfo['extern']}.empty {n.p()})")
            return Val(tmp, STRUCT(ctx.sname), atomic=True, stable=True)
        if len(segs) == 2 and (struct_key(ctx, segs[0]) in STRUCTS or segs[0] == "Self"):
            sname = ctx.sname if segs[0] == "Self" else struct_key(ctx, segs[0])
            return compile_fn_call(ctx, env, sname, segs[1], None, args)
        raise TErr(f"call of `{'::'.join(segs)}` is outside the supported subset")
    raise TErr(f"call `{unparse(e)}` is outside the supported subset")


def compile_fn_call(ctx, env, sname, rfn, recv_place, args):
    sig = ctx.fntab.get((sname, rfn))
    if sig is None:
        raise TErr(f"call of `{sname}::{rfn}`, which is not (yet) a generated definition")
    pre = []
    if sig.get("rec") and sname == ctx.sname and rfn == ctx.rfn:
        # the recursive call: `recf` is the function applied to the smaller fuel
        ctx.use_global("recf")
        head = "recf"
    else:
        head = f"{sname}.{sig['lean']}"
        if sig.get("ap"):
            ctx.use_global("ap")
            pre.append("ap")
        if sig["g"]:
            if STRUCTS[sname]["graph"] != ctx.sinfo["graph"]:
                raise TErr(f"call of `{sname}::{rfn}` with a different digraph kind")
            ctx.use_global("g")
            pre.append("g")
        if sig["inf"]:
            ctx.use_global("inf")
            pre.append("inf")
        if sig["fuel"]:
            ctx.use_global("fuel")
            pre.append("fuel")
    if sig["self_mode"] is not None:
        if recv_place is None:
            raise TErr(f"`{sname}::{rfn}` needs a receiver")
        rv = place_val(ctx, env, recv_place)
        unify(rv.ty, STRUCT(sname), f"receiver of `{rfn}`")
        pre.append(rv.p())
    if len(args) != len(sig["params"]):
        raise TErr(f"`{sname}::{rfn}`: arity mismatch")
    mutplaces = []
    for a, (pn, pt) in zip(args, sig["params"]):
        pt = instantiate(pt)
        ptp = prune(pt)
        if pn in sig.get("mutrefs", []):
            # `&mut x` / a `&mut` parameter handed on: the variable is updated after the call
            pl = place_of(a[2]) if a[0] == "un" and a[1] == "&" else place_of(a)
            if pl is None:
                raise TErr(f"argument `{pn}` of `{sname}::{rfn}` must be a variable (`&mut x`)")
            mutplaces.append(pl)
            v = place_val(ctx, env, pl)
        elif not isinstance(ptp, TVar) and ptp[0] == "fn":
            v = compile_closure(ctx, env, a, ptp[1], ptp[2])
        else:
            v = compile_expr(ctx, env, a, pt)
        unify(v.ty, pt, f"argument `{pn}` of `{sname}::{rfn}`")
        pre.append(v.p())
    tmp = ctx.fresh_tmp()
    ctx.em.emit(f"let {tmp} ← call ({head}" + "".join(" " + x for x in pre) + ")")
    if sig["self_mode"] == "mut":
        n = 2 + len(mutplaces)
        place_set(ctx, env, recv_place, proj(tmp, 1, n))
        for i, pl in enumerate(mutplaces):
            place_set(ctx, env, pl, proj(tmp, 2 + i, n))
        return Val(proj(tmp, 0, n), sig["value_ty"], atomic=True, stable=True)
    return Val(tmp, sig["value_ty"], atomic=True, stable=True)


def instantiate(t):
    return t


ADAPTORS = ("map", "filter", "flat_map")


def closures_in(e, out):
    if isinstance(e, list):
        for x in e:
            closures_in(x, out)
    elif isinstance(e, tuple) and e:
        if e[0] == "closure":
            out.append(e)
        for x in e[1:]:
            if isinstance(x, (tuple, list)):
                closures_in(x, out)
    return out


EFFECT_METHODS = {"get_unchecked", "get_unchecked_mut", "unwrap", "expect", "unwrap_unchecked", "lock", "div_ceil",
                  "step_by", "chunks"}


def has_effect_syntax(node):
    """set 4: an unchecked / checked access, a pointer read, an arithmetic operation that can panic"""
    if isinstance(node, list):
        return any(has_effect_syntax(x) for x in node)
    if not isinstance(node, tuple) or not node:
        return False
    if node[0] == "index" or (node[0] == "un" and node[1] == "*") or (node[0] == "bin" and node[1] in ("-", "/", "%")) \
            or (node[0] == "mcall" and node[2] in EFFECT_METHODS):
        return True
    return any(has_effect_syntax(x) for x in node[1:] if isinstance(x, (tuple, list)))


def effectful(ctx, e):
    """does an iterator expression contain a closure that updates a variable declared outside of it
    (e.g. draws from a PRNG)?  Such a pipeline is translated as the loop its consumer runs."""
    for lam in closures_in(e, []):
        out = set()
        mutated_vars(ctx, lam, [set()], out)
        if out or (ctx.par and has_effect_syntax(lam[2])):
            return True
    return False


def pipe_of(ctx, e):
    """(source, stages) of an iterator pipeline; source = an expression, or ('chain', pipe, pipe) when a
    chained part has effects; stages = [(adaptor, closure)]"""
    e = strip_wrappers(e)
    if e[0] == "mcall" and e[2] in ADAPTORS and len(e[4]) == 1 and e[4][0][0] == "closure" and len(e[4][0][1]) == 1:
        src, stages = pipe_of(ctx, e[1])
        return src, stages + [(e[2], e[4][0])]
    if e[0] == "mcall" and e[2] in ("copied", "cloned") and not e[4]:
        return pipe_of(ctx, e[1])
    if e[0] == "mcall" and e[2] == "chain" and len(e[4]) == 1 and effectful(ctx, e):
        return ("chain", pipe_of(ctx, e[1]), pipe_of(ctx, e[4][0])), []
    if e[0] == "call" and e[1] in (("var", "once"), ("path", ["iter", "once"])) and len(e[2]) == 1:
        return ("veclit", [e[2][0]]), []
    if effectful(ctx, e):
        raise TErr(f"`{unparse(e)}`: an iterator adaptor with an effectful closure outside `map` / `filter` / "
                   f"`flat_map` / `chain` / `once` is outside the supported subset")
    return e, []


def compile_collect_loop(ctx, env, e, fish, expect):
    """`pipeline.collect()` where a closure of the pipeline has effects: `collect` pulls the items one by one,
    every adaptor handles an item as it passes, so the whole is the loop
    `let mut acc = new(); for x in source { stages..; acc.push(item) | acc.insert(item) }; acc`
    (`chain` = one loop after the other, `once(x)` = the one-item list)."""
    target = fish
    if target is None:
        pe = prune(expect) if expect is not None else None
        if ctx.collect_target is not None:
            target = ctx.collect_target
        elif pe is not None and not isinstance(pe, TVar) and (pe == PSET or pe[0] == "set"):
            target = "BTreeSet"
        elif pe is not None and not isinstance(pe, TVar) and pe[0] == "list":
            target = "Vec"
    if target is None or not (target.startswith("Vec") or target.startswith("BTreeSet") or target.startswith("BTreeMap")):
        raise TErr(f"`{unparse(e)}`: cannot tell the collection that is built (Vec / BTreeSet / BTreeMap)")
    is_vec = target.startswith("Vec")
    is_map = target.startswith("BTreeMap")
    m = re.match(r"(?:Vec|BTreeSet)<(.*)>\Z", target)
    elem_target = m.group(1) if m and re.match(r"(Vec|BTreeSet|BTreeMap)<", m.group(1)) else None
    n = ctx.pipe_n
    ctx.pipe_n += 1
    cnt = [0]

    def fresh(base):
        cnt[0] += 1
        return f"{base}_{n}_{cnt[0]}"
    acc = f"acc_{n}"

    def consume(cur):
        if is_vec:
            return [("expr", ("mcall", ("var", acc), "push", None, [cur]), True)]
        if is_map:
            # `BTreeMap::from_iter` inserts the pairs in order (a later pair replaces an earlier one with its key)
            c = strip_wrappers(cur)
            if c[0] == "tup" and len(c[1]) == 2:
                kv = list(c[1])
            elif c[0] == "var":
                kv = [("field", c, "0"), ("field", c, "1")]
            else:
                raise TErr(f"`{unparse(e)}`: the items collected into a BTreeMap must be pair expressions")
            return [("let", ("pwild",), None, ("mcall", ("var", acc), "insert", None, kv), None)]
        return [("let", ("pwild",), None, ("mcall", ("var", acc), "insert", None, [cur]), None)]

    def stage_stmts(stages, cur):
        if not stages:
            return consume(cur)
        (kind, lam), rest = stages[0], stages[1:]
        param, body = lam[1][0], lam[2]
        bind = [] if strip_pref(param)[0] == "pwild" else [("let", param, None, cur, None)]
        if kind == "map":
            if not rest:
                return bind + consume(("withtarget", elem_target, body) if elem_target else body)
            y = fresh("it")
            return bind + [("let", ("pvar", y, False), None, body, None)] + stage_stmts(rest, ("var", y))
        if kind == "filter":
            return bind + [("expr", ("if", body, stage_stmts(rest, cur), None), True)]
        y = fresh("it")
        return bind + [("expr", ("for", ("pvar", y, False), body, stage_stmts(rest, ("var", y))), True)]

    def loops(pipe, more):
        src, stages = pipe
        if isinstance(src, tuple) and src and src[0] == "chain":
            return loops(src[1], stages + more) + loops(src[2], stages + more)
        x = fresh("it")
        return [("expr", ("for", ("pvar", x, False), src, stage_stmts(stages + more, ("var", x))), True)]

    block = ("block", [("let", ("pvar", acc, True), None,
                        ("call", ("path", ["Vec" if is_vec else "BTreeMap" if is_map else "BTreeSet", "new"]), []), None)]
             + loops(pipe_of(ctx, e[1]), []) + [("expr", ("var", acc), False)])
    return compile_expr(ctx, env, block, expect)


def compile_collect(ctx, e, r, t, fish, expect):
    """`iter.collect()` into the container named by the turbofish, else by the struct field / expected type:
    a `Vec` is the list itself, a `BTreeSet` / `BTreeMap` is built by inserting the items in order
    (`Ops.toSet` / `Ops.toPSet` / `Ops.toMap` of the hand-written std model)."""
    target = fish
    if target is None:
        pe = prune(expect) if expect is not None else None
        if pe is not None and not isinstance(pe, TVar) and (pe == PSET or pe[0] == "set"):
            target = "BTreeSet"
        elif ctx.collect_target is not None:
            target = ctx.collect_target
        elif pe is not None and not isinstance(pe, TVar) and pe[0] == "list":
            target = "Vec"
    if target is None:
        raise TErr(f"`{unparse(e)}`: cannot tell the collection that is built")
    if target.startswith("Vec"):
        return r
    et = prune(t[1])
    if target.startswith("BTreeSet"):
        if isinstance(et, TVar):
            raise TErr(f"`{unparse(e)}`: element type unknown")
        if et == NAT:
            v = Val(f"Ops.toSet {r.p()}", SET(KA))
            return v
        if et == TUP(NAT, NAT):
            v = Val(f"Ops.toPSet {r.p()}", PSET)
            return v
        raise TErr(f"`{unparse(e)}`: a BTreeSet of {show_ty(et)} is outside the typed model")
    if target.startswith("BTreeMap"):
        vt = TVar()
        unify(t[1], TUP(NAT, vt), "items collected into a BTreeMap")
        src = strip_wrappers(e[1])
        if src[0] == "mcall" and src[2] == "enumerate":
            # keys 0, 1, 2, .. in order: already the key-ascending list
            return r
        return Val(f"Ops.toMap {r.p()}", r.ty)
    raise TErr(f"`{unparse(e)}`: collecting into `{target}` is outside the supported subset")


def compile_mcall(ctx, env, e, expect):
    recv, name, fish, args = e[1], e[2], e[3], e[4]
    if name == "contains" and strip_wrappers(recv)[0] == "rangeincl":
        rg = strip_wrappers(recv)
        if strip_wrappers(rg[1]) == ("flit", "0.0") and strip_wrappers(rg[2]) == ("flit", "1.0") and len(args) == 1:
            pv = compile_expr(ctx, env, args[0], F64)
            unify(pv.ty, F64, "argument of (0.0..=1.0).contains")
            return Val(f"Rand.F64.inUnit {pv.p()}", BOOL)
        raise TErr(f"`{unparse(e)}`: only `(0.0..=1.0).contains(&p)` is supported")
    if name in ("unwrap", "expect", "unwrap_unchecked") and strip_wrappers(recv)[0] == "call" and \
            strip_wrappers(recv)[1] == ("path", ["usize", "try_from"]) and len(strip_wrappers(recv)[2]) == 1:
        # u64 -> usize: never fails on a 64-bit target (docs/AlgoGen.md, assumption)
        x = compile_expr(ctx, env, strip_wrappers(recv)[2][0], U64)
        unify(x.ty, U64, "argument of usize::try_from")
        return Val(f"{x.p()}.toNat", NAT, atomic=True)
    if ctx.low and name in ("expect", "unwrap") and strip_wrappers(recv)[0] == "mcall" and strip_wrappers(recv)[2] == "checked_mul" \
            and len(strip_wrappers(recv)[4]) == 1:
        # `a.checked_mul(b).expect(..)`: panics when the product does not fit a (64-bit) usize
        a = compile_expr(ctx, env, strip_wrappers(recv)[1], NAT)
        b = compile_expr(ctx, env, strip_wrappers(recv)[4][0], NAT)
        unify(a.ty, NAT, "operand of checked_mul")
        unify(b.ty, NAT, "operand of checked_mul")
        tmp = ctx.fresh_tmp()
        ctx.em.emit(f"let {tmp} ← mulP {a.p()} {b.p()}")
        return Val(tmp, NAT, atomic=True, stable=True)
    if ctx.par:
        if is_ap_expr(e):
            ctx.use_global("ap")
            return Val("ap", NAT, atomic=True, stable=True)
        h = is_join(e)
        if h is not None:
            return compile_expr(ctx, env, h, expect)
        if strip_lock(e) is not strip_wrappers(e):
            return compile_expr(ctx, env, strip_lock(e), expect)
        if name == "spawn" and len(args) == 1 and strip_wrappers(recv)[0] == "var" \
                and strip_wrappers(recv)[1] in env and env[strip_wrappers(recv)[1]].kind == "scope":
            return compile_spawn(ctx, env, args[0], "s.spawn")
    if name in ("as_mut_ptr", "as_ptr", "add"):
        raise TErr(f"`{unparse(e)}`: a raw pointer is supported only as `let p = v.as_mut_ptr();`, "
                   f"`let q = p.add(i);`, `*p.add(i)`, `*q`")
    srecv = strip_wrappers(recv)
    # calls of generated methods on a struct value
    pl = place_of(recv)
    if pl is not None and pl[0] in env and env[pl[0]].kind == "val":
        rt = prune(place_val(ctx, env, pl).ty)
        if not isinstance(rt, TVar) and rt[0] == "struct" and (rt[1], name) in ctx.fntab:
            return compile_fn_call(ctx, env, rt[1], name, pl, args)
    if name == "collect" and not args and ctx.sinfo.get("extern") and effectful(ctx, recv):
        return compile_collect_loop(ctx, env, e, fish, expect)
    if ctx.par and name in ADAPTORS and len(args) == 1 and args[0][0] == "closure" and effectful(ctx, e):
        # an adaptor with effects whose items are consumed later (a returned iterator, a `for` over it): the items
        # in order, computed as `collect::<Vec<_>>()` would
        return compile_collect_loop(ctx, env, ("mcall", e, "collect", "Vec<_>", []), "Vec<_>", expect)
    outer_ct = ctx.collect_target
    if name == "collect":
        m = re.match(r"(?:Vec|BTreeSet)<(.*)>\Z", fish or outer_ct or "")
        ctx.collect_target = m.group(1) if m else None
    else:
        ctx.collect_target = None
    try:
        r = compile_expr(ctx, env, recv)
    finally:
        ctx.collect_target = outer_ct
    t = prune(r.ty)
    if isinstance(t, TVar) and t.numeric and name in ("wrapping_add", "wrapping_mul", "rotate_left"):
        unify(t, U64, f"receiver of .{name}")
        t = prune(t)
    if not isinstance(t, TVar) and t[0] == "struct" and "extern" in STRUCTS.get(t[1], {}):
        if name == "order" and not args:
            return Val(f"{r.p()}.order", NAT, atomic=True)
        if name == "arcs" and not args:
            return Val(f"{r.p()}.arcs", LIST(TUP(NAT, NAT)), atomic=True)
        if name == "has_arc" and len(args) == 2 and (t[1] in ("AdjacencyMatrix", "EdgeList")
                                                     or (ctx.low and t[1] in ("AdjacencyList", "AdjacencyMap"))):
            # total for these two (no assertion, no unchecked access): the hand-written `hasArc`
            a = compile_expr(ctx, env, args[0], NAT)
            b = compile_expr(ctx, env, args[1], NAT)
            unify(a.ty, NAT, "argument of has_arc")
            unify(b.ty, NAT, "argument of has_arc")
            return Val(f"{r.p()}.hasArc {a.p()} {b.p()}", BOOL)
        if name == "clone" and not args:
            return r
        if ctx.par and (t[1], name) in ctx.fntab and ctx.fntab[(t[1], name)]["self_mode"] == "ref" \
                and not ctx.fntab[(t[1], name)]["params"] and not args:
            sig = ctx.fntab[(t[1], name)]
            if sig["g"] or sig["inf"] or sig["fuel"] or sig.get("ap"):
                raise TErr(f"`{unparse(e)}`: call of a generated method with extra parameters on a value")
            tmp = ctx.fresh_tmp()
            ctx.em.emit(f"let {tmp} ← call ({t[1]}.{sig['lean']} {r.p()})")
            return Val(tmp, sig["value_ty"], atomic=True, stable=True)
        if name == "size" and not args and ctx.par and t[1] in ("AdjacencyList", "AdjacencyMap"):
            # the sum of the row lengths: the hand-written `size`
            return Val(f"{r.p()}.size", NAT, atomic=True)
        if t[1] == "AdjacencyMap" and name == "vertices" and not args:
            # `self.arcs.keys().copied()`: the hand-written `AdjMap.vertices`
            return Val(f"{r.p()}.vertices", LIST(NAT), atomic=True)
        if t[1] == "AdjacencyMap" and name == "out_neighbors" and len(args) == 1:
            # `assert!(self.arcs.contains_key(&u))`, then the row of `u` (ascending)
            u = compile_expr(ctx, env, args[0], NAT)
            unify(u.ty, NAT, "argument of out_neighbors")
            tmp = ctx.fresh_tmp()
            ctx.em.emit(f"let {tmp} ← optP (Repr.mget {u.p()} {r.p()}.rows)")
            return Val(tmp, LIST(NAT), atomic=True, stable=True)
        raise TErr(f"method `.{name}` of `{t[1]}` is outside the supported subset")
    if t == GRAPH_T:
        kind = ctx.sinfo["graph"]
        gc = r.p()
        if kind in ("VGraph", "AM"):
            if name == "vertices" and not args:
                return Val(f"{gc}.verts", LIST(NAT), atomic=True)
            if name == "order" and not args and kind == "AM":
                return Val(f"{gc}.order", NAT, atomic=True)
            if name == "out_neighbors" and len(args) == 1:
                # `out_neighbors(u)` of a digraph given by its vertex list asserts that `u` is a vertex
                u = compile_expr(ctx, env, args[0], NAT)
                unify(u.ty, NAT, "argument of out_neighbors")
                ctx.em.emit(f"assert ({gc}.verts.contains {u.p()})")
                return Val(f"{gc}.out {u.p()}", LIST(NAT))
            if name == "filter_vertices" and len(args) == 1 and kind == "AM":
                f = compile_closure(ctx, env, args[0], [NAT], BOOL)
                return Val(f"Johnson.AM.filter {gc} ({f.code})", GRAPH_T)
            raise TErr(f"digraph method `.{name}` is outside the supported subset for a `{kind}`")
        if name in ("order", "contiguous_order") and not args:
            return Val("g.n", NAT, atomic=True)
        if name == "vertices" and not args:
            return Val("List.range g.n", LIST(NAT))
        if name == "out_neighbors" and len(args) == 1 and kind == "Graph":
            u = compile_expr(ctx, env, args[0], NAT)
            unify(u.ty, NAT, "argument of out_neighbors")
            return Val(f"g.out {u.p()}", LIST(NAT))
        if name == "out_neighbors_weighted" and len(args) == 1 and kind == "WGraph":
            u = compile_expr(ctx, env, args[0], NAT)
            unify(u.ty, NAT, "argument of out_neighbors_weighted")
            return Val(f"g.out {u.p()}", LIST(TUP(NAT, INT)))
        if name == "arcs_weighted" and not args and kind == "WGraph":
            return Val("arcsWeighted g", LIST(TUP(NAT, NAT, INT)))
        raise TErr(f"digraph method `.{name}` is outside the supported subset for a `{kind}`")
    if isinstance(t, TVar) and not t.numeric:
        if name in ("push", "push_back", "len", "get", "pop", "pop_front", "iter", "collect", "map"):
            unify(t, LIST(TVar()), f"receiver of .{name}")
            t = prune(t)
        else:
            raise TErr(f"`.{name}` on a value of unknown type")
    if isinstance(t, TVar):
        pass
    elif t[0] == "list":
        if name == "len" and not args:
            return Val(f"{r.p()}.length", NAT, atomic=True)
        if name in ("iter", "copied", "cloned", "into_iter", "by_ref") and not args:
            return r
        if name == "collect" and not args:
            if ctx.sinfo.get("extern") and (fish is not None or ctx.collect_target is not None or expect is not None):
                return compile_collect(ctx, e, r, t, fish, expect)
            if ctx.par:
                tv = TVar()
                TVARS[tv.id] = tv
                COLL_ELEMS[tv.id] = t[1]
                return Val(f"«C{tv.id}»{r.p()}", tv)
            return r
        if name == "remove" and len(args) == 1 and ctx.par and strip_wrappers(args[0]) == ("lit", 0):
            # `v.remove(0)`: the first element (panic when empty), the rest stays
            pl = place_of(recv)
            if pl is None or pl[0] not in env or env[pl[0]].kind != "val":
                raise TErr(f"`{unparse(e)}`: receiver is not a variable or field path")
            tmp = ctx.fresh_tmp()
            ctx.em.emit(f"let {tmp} ← idx {r.p()} 0")
            pv = place_val(ctx, env, pl)
            place_set(ctx, env, pl, f"{pv.p()}.drop 1")
            return Val(tmp, t[1], atomic=True, stable=True)
        if name == "step_by" and len(args) == 1 and ctx.par:
            k = compile_expr(ctx, env, args[0], NAT)
            unify(k.ty, NAT, "argument of .step_by")
            tmp = ctx.fresh_tmp()
            ctx.em.emit(f"let {tmp} ← stepByP {r.p()} {k.p()}")       # panics for step 0
            return Val(tmp, r.ty, atomic=True, stable=True)
        if name == "chunks" and len(args) == 1 and ctx.par:
            k = compile_expr(ctx, env, args[0], NAT)
            unify(k.ty, NAT, "argument of .chunks")
            tmp = ctx.fresh_tmp()
            ctx.em.emit(f"let {tmp} ← chunksP {r.p()} {k.p()}")       # panics for chunk size 0
            return Val(tmp, LIST(r.ty), atomic=True, stable=True)
        if name == "iter_mut" and not args and ctx.par:
            raise TErr(f"`{unparse(e)}`: `iter_mut()` is supported only as `for (a, b) in A.zip(V.iter_mut())`")
        if name == "get_unchecked" and len(args) == 1 and ctx.par:
            i = compile_expr(ctx, env, args[0], NAT)
            unify(i.ty, NAT, "argument of .get_unchecked")
            tmp = ctx.fresh_tmp()
            ctx.em.emit(f"let {tmp} ← rd {ctx.site(unparse(e))} {r.p()} {i.p()}")
            return Val(tmp, t[1], atomic=True, stable=True)
        if name == "get" and len(args) == 1 and ctx.low and strip_wrappers(args[0])[0] == "un" and strip_wrappers(args[0])[1] == "&" \
                and not isinstance(prune(t[1]), TVar) and prune(t[1])[0] == "tup" and len(prune(t[1])[1]) == 2 and prune(prune(t[1])[1][0]) == NAT:
            # `map.get(&k)` on a `BTreeMap<usize, X>` (key-ascending pair list): the hand-written lookup
            k = compile_expr(ctx, env, args[0], NAT)
            unify(k.ty, NAT, "map key")
            return Val(f"Repr.mget {k.p()} {r.p()}", OPT(prune(t[1])[1][1]))
        if name == "get" and len(args) == 1:
            i = compile_expr(ctx, env, args[0], NAT)
            unify(i.ty, NAT, "argument of .get")
            return Val(f"{r.p()}[{i.code}]?", OPT(t[1]), atomic=True)
        if name == "map" and len(args) == 1:
            rt = TVar()
            f = compile_closure(ctx, env, args[0], [t[1]], rt)
            return Val(f"List.map ({f.code}) {r.p()}", LIST(rt))
        if name == "filter" and len(args) == 1:
            f = compile_closure(ctx, env, args[0], [t[1]], BOOL)
            return Val(f"List.filter ({f.code}) {r.p()}", LIST(t[1]))
        if name == "enumerate" and not args:
            return Val(f"List.map (fun p => (p.2, p.1)) {r.p()}.zipIdx", LIST(TUP(NAT, t[1])))
        if ctx.sinfo.get("extern"):
            if name == "keys" and not args:
                vt = TVar()
                unify(t[1], TUP(NAT, vt), "`.keys()` needs a key-value list")
                return Val(f"List.map (fun e => e.1) {r.p()}", LIST(NAT))
            if name == "flat_map" and len(args) == 1:
                rt = TVar()
                f = compile_closure(ctx, env, args[0], [t[1]], LIST(rt))
                return Val(f"List.flatMap ({f.code}) {r.p()}", LIST(rt))
            if name == "chain" and len(args) == 1:
                o = list_iter(ctx, env, args[0])
                unify(o.ty, r.ty, "operands of .chain")
                return Val(f"{r.p()} ++ {o.p()}", r.ty)
        if name == "is_empty" and not args:
            return Val(f"{r.p()}.isEmpty", BOOL, atomic=True)
        if name == "contains_key" and len(args) == 1:
            et = prune(t[1])
            if isinstance(et, TVar) or et[0] != "tup" or len(et[1]) != 2 or prune(et[1][0]) != NAT:
                raise TErr(f"`{unparse(e)}`: `contains_key` on something that is not a key-value list")
            k = compile_expr(ctx, env, args[0], NAT)
            unify(k.ty, NAT, "map key")
            return Val(f"(Repr.mget {k.p()} {r.p()}).isSome", BOOL, atomic=True)
        if name == "all" and len(args) == 1:
            f = compile_closure(ctx, env, args[0], [t[1]], BOOL)
            return Val(f"List.all {r.p()} ({f.code})", BOOL)
        if name == "clone" and not args:
            return r
        if name == "min_by_key" and len(args) == 1:
            # `.min_by_key(|x| x.iter().min())` on a list of ascending sets: the first of the sets with the
            # smallest least element (`None < Some _`) - the hand-written `minByKey`
            lam = args[0]
            et = prune(t[1])
            ok = (lam[0] == "closure" and len(lam[1]) == 1 and strip_pref(lam[1][0])[0] == "pvar"
                  and not isinstance(et, TVar) and et[0] == "set" and prune(et[1]) == KA)
            if ok:
                x = strip_pref(lam[1][0])[1]
                body = strip_wrappers(lam[2])
                ok = (body[0] == "mcall" and body[2] == "min" and not body[4]
                      and strip_wrappers(body[1])[0] == "mcall" and strip_wrappers(body[1])[2] == "iter"
                      and strip_wrappers(strip_wrappers(body[1])[1]) == ("var", x))
            if not ok:
                raise TErr(f"`{unparse(e)}`: only `.min_by_key(|x| x.iter().min())` on a list of ascending sets is supported")
            return Val(f"minByKeyMin {r.p()}", OPT(t[1]))
        raise TErr(f"`.{name}` on a vector is outside the supported subset here (`{unparse(e)}`)")
    if isinstance(t, TVar):
        pass
    elif t[0] == "map":
        if name == "get" and len(args) == 1:
            k = compile_expr(ctx, env, args[0], NAT)
            unify(k.ty, NAT, "map key")
            return Val(f"mapGet {r.p()} {k.p()}", OPT(NAT))
        if name == "contains_key" and len(args) == 1:
            k = compile_expr(ctx, env, args[0], NAT)
            unify(k.ty, NAT, "map key")
            return Val(f"(mapGet {r.p()} {k.p()}).isSome", BOOL, atomic=True)
    if (ctx.sinfo.get("extern") or ctx.low) and not isinstance(t, TVar) and (t == PSET or t[0] == "set"):
        et = TUP(NAT, NAT) if t == PSET else NAT
        if t != PSET:
            unify(t[1], KA, "set representation")
        if name in ("iter", "into_iter") and not args:
            # ascending iteration order = the ascending list that represents the set
            return Val(r.code, LIST(et), atomic=r.atomic, stable=r.stable)
        if name == "difference" and len(args) == 1:
            # `a.difference(&b)`: the items of `a` (ascending) that are not in `b`
            o = compile_expr(ctx, env, args[0], t)
            unify(o.ty, t, "argument of .difference")
            y = ctx.fresh_name("y")
            return Val(f"List.filter (fun {y} => !({o.p()}.contains {y})) {r.p()}", LIST(et))
        if name == "clone" and not args:
            return r
        if name == "len" and not args and ctx.par:
            return Val(f"{r.p()}.length", NAT, atomic=True)
    if not isinstance(t, TVar) and t[0] == "set":
        if name == "contains" and len(args) == 1:
            k = compile_expr(ctx, env, args[0], NAT)
            unify(k.ty, NAT, "set element")
            return Val(f"{r.p()}.contains {k.p()}", BOOL)
        if name == "iter" and not args:
            unify(t[1], KA, "`.iter()` needs the ascending representation of the set")
            return Val(r.code, ("setiter",), atomic=r.atomic, stable=r.stable)
    if not isinstance(t, TVar) and t[0] == "setiter":
        if name == "min" and not args:
            return Val(f"{r.p()}.head?", OPT(NAT), atomic=True)
    if not isinstance(t, TVar) and t[0] == "tarjanOf":
        if name == "components" and not args:
            return Val(f"Johnson.tarjan {r.p()}", LIST(SET(KA)))
    if t == U64:
        if name in ("wrapping_add", "wrapping_mul") and len(args) == 1:
            b = compile_expr(ctx, env, args[0], U64)
            unify(b.ty, U64, f"operand of .{name}")
            return Val(f"{r.p()} {'+' if name == 'wrapping_add' else '*'} {b.p()}", U64)
        if name == "rotate_left" and len(args) == 1:
            b = compile_expr(ctx, env, args[0], U64)
            unify(b.ty, U64, "rotation amount")
            return Val(f"Rand.rotl {r.p()} {b.p()}", U64)
    if ctx.par and (t == NAT or (isinstance(t, TVar) and t.numeric)) and name == "saturating_sub" and len(args) == 1:
        unify(r.ty, NAT, "receiver of .saturating_sub")
        b = compile_expr(ctx, env, args[0], NAT)
        unify(b.ty, NAT, "argument of .saturating_sub")
        return Val(f"{r.p()} - {b.p()}", NAT)                      # truncated subtraction on `Nat`
    if ctx.low and name in ("expect", "unwrap") and srecv[0] == "mcall" and srecv[2] == "checked_mul" and len(srecv[4]) == 1:
        pass
    if ctx.low and t == WORD and name == "trailing_zeros" and not args:
        return Val(f"tz {r.p()}", NAT)
    if ctx.par and t == BOOL and name == "load" and len(args) == 1:
        return r                                                    # a `Relaxed` load of the plain Boolean cell
    if ctx.par and (t == NAT or (isinstance(t, TVar) and t.numeric)) and name == "div_ceil" and len(args) == 1:
        unify(r.ty, NAT, "receiver of .div_ceil")
        b = compile_expr(ctx, env, args[0], NAT)
        unify(b.ty, NAT, "argument of .div_ceil")
        tmp = ctx.fresh_tmp()
        ctx.em.emit(f"let {tmp} ← divCeilP {r.p()} {b.p()}")       # panics for a zero divisor
        return Val(tmp, NAT, atomic=True, stable=True)
    if t in (NAT, INT) or (isinstance(t, TVar) and t.numeric):
        if name in ("min", "max") and len(args) == 1 and (name == "min" or ctx.sinfo.get("extern")):
            b = compile_expr(ctx, env, args[0], r.ty)
            unify(b.ty, r.ty, f"operands of .{name}")
            return Val(f"{name} {r.p()} {b.p()}", r.ty)
    if not isinstance(t, TVar) and t[0] == "opt":
        if name == "unwrap" and not args:
            tmp = ctx.fresh_tmp()
            ctx.em.emit(f"let {tmp} ← unwrapO {r.p()}")
            return Val(tmp, t[1], atomic=True, stable=True)
        if name == "unwrap_unchecked" and not args and ctx.sinfo.get("extern"):
            # `None` here is undefined behaviour
            tmp = ctx.fresh_tmp()
            ctx.em.emit(f"let {tmp} ← unwrapU {ctx.site(unparse(e))} {r.p()}")
            return Val(tmp, t[1], atomic=True, stable=True)
        if name == "map" and len(args) == 1:
            rt = TVar()
            f = compile_closure(ctx, env, args[0], [t[1]], rt)
            return Val(f"Option.map ({f.code}) {r.p()}", OPT(rt))
        if name == "is_none" and not args:
            return Val(f"{r.p()}.isNone", BOOL, atomic=True)
        if name == "is_some" and not args:
            return Val(f"{r.p()}.isSome", BOOL, atomic=True)
    raise TErr(f"method `.{name}` on a value of type {show_ty(t)} is outside the supported subset")


# ---- patterns ---------------------------------------------------------------------------------
def strip_pref(p):
    while p[0] == "pref":
        p = p[1]
    return p


def pat_vars(p, out):
    p = strip_pref(p)
    if p[0] == "pvar":
        out.append(p[1])
    elif p[0] == "ptup":
        for x in p[1]:
            pat_vars(x, out)
    elif p[0] == "pctor":
        for x in p[2]:
            pat_vars(x, out)
    elif p[0] == "pat_at":
        out.append(p[1])
        pat_vars(p[2], out)
    return out


def check_no_alias_root(env, name):
    """`name` is about to be (re-)declared: no live pointer / element reference may point into the
    variable of that name, and no live element pointer's offset may mention it (places and offsets
    are resolved by name at the use)."""
    for b in env.values():
        if b.kind in ("ptr", "elem", "cell"):
            if b.place[0] == name and env.get(name) is not None:
                raise TErr(f"`{name}` is re-declared while a pointer into it (`{b.rust}`) is in scope")
            if b.kind in ("elem", "cell") and name in free_vars(b.idx, set()):
                raise TErr(f"`{name}` is re-declared while the element pointer `{b.rust}` (offset `{unparse(b.idx)}`) is in scope")


def bind_val(ctx, env, rust, v, mut, emit_let=True):
    """bind the Rust variable `rust` to the value v (always under a Lean identifier of its own)."""
    check_no_alias_root(env, rust)
    lean = ctx.fresh_name(rust)
    code = v.code
    if getattr(v, "lit", None) is not None:
        # a variable initialised with a bare literal: Lean needs the type when it is not `Nat`
        t = prune(v.ty)
        if isinstance(t, TVar):
            TVARS[t.id] = t
            code = f"«L{t.id}:{v.lit}»"
        elif t == U64:
            code = f"({v.lit} : UInt64)"
    ctx.em.emit(f"let {lean}{asc_mark(v.ty)} := {code}")
    b = ctx.new_bind(env, Bind("val", rust, lean=lean, ty=v.ty, mut=mut, stable=not mut))
    if not mut and getattr(v, "const_val", None) is not None:
        b.const_val = v.const_val
    return b


def bind_pattern(ctx, env, pat, v, emit_let):
    pat = strip_pref(pat)
    k = pat[0]
    if k == "pwild":
        return
    if k == "pvar":
        bind_val(ctx, env, pat[1], v, pat[2], emit_let)
        return
    if k == "pat_at":
        b = bind_val(ctx, env, pat[1], v, False, emit_let)
        bind_pattern(ctx, env, pat[2], Val(b.lean, b.ty, atomic=True, stable=True), emit_let)
        return
    if k == "ptup":
        t = prune(v.ty)
        if t == ENTRY:
            shape = ctx.sinfo.get("heap")
            items = pat[1]
            first = strip_pref(items[0]) if items else None
            if shape is None or len(items) != 2 or first[0] != "pctor" or first[1] != "Reverse" or len(first[2]) != 1:
                raise TErr(f"pattern `{unparse_pat(pat)}` against a heap entry: expected `(Reverse(d), ..)`")
            if not (v.atomic and v.stable):
                tmp = ctx.fresh_tmp()
                ctx.em.emit(f"let {tmp} := {v.code}")
                v = Val(tmp, ENTRY, atomic=True, stable=True)
            bind_pattern(ctx, env, first[2][0], Val(f"{v.code}.d", INT, atomic=True, stable=True), emit_let)
            if shape == "wu":
                bind_pattern(ctx, env, items[1], Val(f"{v.code}.v", NAT, atomic=True, stable=True), emit_let)
            else:
                pv = Val(f"{v.code}.p", OPT(NAT), atomic=True, stable=True)
                vv = Val(f"{v.code}.v", NAT, atomic=True, stable=True)
                bind_pattern(ctx, env, items[1],
                             Val(f"({pv.code}, {vv.code})", TUP(OPT(NAT), NAT), atomic=True, parts=[pv, vv], stable=True),
                             emit_let)
            return
        n = len(pat[1])
        if isinstance(t, TVar):
            unify(t, TUP(*[TVar() for _ in range(n)]), "tuple pattern")
            t = prune(t)
        if t[0] != "tup" or len(t[1]) != n:
            raise TErr(f"pattern `{unparse_pat(pat)}` against a value of type {show_ty(t)}")
        if v.parts:
            for sp, part in zip(pat[1], v.parts):
                bind_pattern(ctx, env, sp, part, emit_let)
            return
        if not (v.atomic and v.stable):
            tmp = ctx.fresh_tmp()
            ctx.em.emit(f"let {tmp} := {v.code}")
            v = Val(tmp, v.ty, atomic=True, stable=True)
        for i, sp in enumerate(pat[1]):
            bind_pattern(ctx, env, sp, Val(proj(v.code, i, n), t[1][i], atomic=True, stable=True), emit_let)
        return
    raise TErr(f"pattern `{unparse_pat(pat)}` is outside the supported subset here")


# ---- mutation pre-pass ---------------------------------------------------------------------------
def collect_ptr_aliases(node, out):
    """flow-insensitive: name -> root variable for `let p = <place>.as_mut_ptr()`, `let q = p.add(i)`,
    `let Some(q) = <place>.get_mut(i) else ..` anywhere in the function body."""
    if isinstance(node, list):
        for x in node:
            collect_ptr_aliases(x, out)
        return
    if not isinstance(node, tuple) or not node:
        return
    if node[0] == "let":
        pat, init = strip_pref(node[1]), strip_wrappers(node[3])
        while init[0] == "cast" and (init[2] == "usize" or init[2].startswith("*")):
            init = strip_wrappers(init[1])
            if pat[0] == "pvar" and init[0] == "var" and init[1] in out:
                set_alias(out, pat[1], out[init[1]])
        if pat[0] == "pvar" and init[0] == "call" and init[1] == ("path", ["Arc", "clone"]) and len(init[2]) == 1:
            a0 = strip_wrappers(init[2][0])
            if a0[0] == "un" and a0[1] == "&":
                a0 = strip_wrappers(a0[2])
            if a0[0] == "var" and a0[1] != pat[1]:
                set_alias(out, pat[1], out.get(a0[1], a0[1]))
        if pat[0] == "pvar" and init[0] == "mcall":
            if init[2] in ("as_mut_ptr", "as_ptr"):
                pl = place_of(init[1])
                if pl is not None:
                    set_alias(out, pat[1], pl[0])
            elif init[2] == "add":
                base = strip_wrappers(init[1])
                if base[0] == "var" and base[1] in out:
                    set_alias(out, pat[1], out[base[1]])
        if pat[0] == "pctor" and pat[1] == "Some" and len(pat[2]) == 1 and init[0] == "mcall" and init[2] == "get_mut":
            inner = strip_pref(pat[2][0])
            pl = place_of(init[1])
            if inner[0] == "pvar" and pl is not None:
                set_alias(out, inner[1], pl[0])
    if node[0] == "if" and node[1][0] == "letcond":
        pat, init = strip_pref(node[1][1]), strip_wrappers(node[1][2])
        if pat[0] == "pctor" and pat[1] == "Some" and len(pat[2]) == 1 and init[0] == "mcall" and init[2] == "as_mut":
            inner = strip_pref(pat[2][0])
            base = strip_wrappers(init[1])
            if inner[0] == "pvar" and base[0] == "mcall" and base[2] == "add":
                b0 = strip_wrappers(base[1])
                if b0[0] == "var" and b0[1] in out:
                    set_alias(out, inner[1], out[b0[1]])
    for x in node[1:]:
        if isinstance(x, (tuple, list)):
            collect_ptr_aliases(x, out)


def set_alias(out, name, root):
    if name in out and out[name] != root:
        raise TErr(f"pointer variable `{name}` is bound to two different vectors")
    out[name] = root


def mutated_vars(ctx, node, scopes, out):
    """Rust names of the variables (declared OUTSIDE `node`) that `node` may assign."""
    def declared(name):
        return any(name in s for s in scopes)

    def hit(name):
        name = ctx.ptr_alias.get(name, name)
        if not declared(name):
            out.add(name)

    def root_of(e):
        e = strip_wrappers(e)
        if e[0] == "var":
            return e[1]
        if e[0] in ("field", "index"):
            return root_of(e[1])
        if e[0] == "un" and e[1] in ("*", "&"):
            return root_of(e[2])
        if e[0] == "mcall" and e[2] in ("add", "get_unchecked_mut", "get_unchecked", "entry", "or_default"):
            return root_of(e[1])
        if ctx.par and e[0] == "mcall" and e[2] in ("lock", "unwrap_unchecked", "unwrap"):
            return root_of(e[1])
        return None

    if isinstance(node, list):          # a block: one scope
        scopes.append(set())
        for st in node:
            mutated_vars(ctx, st, scopes, out)
        scopes.pop()
        return
    if not isinstance(node, tuple) or not node:
        return
    k = node[0]
    if k == "let":
        mutated_vars(ctx, node[3], scopes, out)
        if node[4] is not None:
            mutated_vars(ctx, node[4], scopes, out)
        init = strip_wrappers(node[3])
        if init[0] == "try":
            init = strip_wrappers(init[1])
        if ctx.par and init[0] == "call" and init[1] == ("path", ["Arc", "clone"]):
            return      # `let y = Arc::clone(&x)`: no new variable (the same shared value)
        for n in pat_vars(node[1], []):
            scopes[-1].add(n)
        return
    if k == "expr":
        mutated_vars(ctx, node[1], scopes, out)
        return
    if k == "assign" and ctx.low and strip_wrappers(node[2])[0] == "var" and strip_wrappers(node[3])[0] == "mcall" \
            and strip_wrappers(node[3])[2] == "add":
        if not declared(strip_wrappers(node[2])[1]):
            out.add(strip_wrappers(node[2])[1])
        mutated_vars(ctx, node[3], scopes, out)
        return
    if k == "assign":
        r = root_of(node[2])
        if r is None:
            raise TErr(f"assignment target `{unparse(node[2])}` is outside the supported subset")
        hit(r)
        mutated_vars(ctx, node[3], scopes, out)
        return
    if k == "mcall":
        if node[2] in MUTATING:
            r = root_of(node[1])
            if r is not None:
                hit(r)
        elif strip_wrappers(node[1])[0] == "var" and root_of(node[1]) is not None:
            # a generated `&mut self` method called on `self` or on a local struct value
            rname = root_of(node[1])
            if rname == "self":
                sig = ctx.fntab.get((ctx.sname, node[2]))
                if sig is not None and sig["self_mode"] == "mut":
                    hit("self")
            elif any(fn == node[2] and sg["self_mode"] == "mut" for (sn, fn), sg in ctx.fntab.items()):
                hit(rname)
        mutated_vars(ctx, node[1], scopes, out)
        sig = None
        rr = root_of(node[1])
        if rr is not None and strip_wrappers(node[1])[0] == "var":
            for (sn, fn), sg in ctx.fntab.items():
                if fn == node[2] and sg.get("mutrefs"):
                    sig = sg
        for i, a in enumerate(node[4]):
            if sig is not None and i < len(sig["params"]) and sig["params"][i][0] in sig["mutrefs"]:
                r = root_of(a)
                if r is not None:
                    hit(r)
            mutated_vars(ctx, a, scopes, out)
        return
    if k == "call" and node[1] in (("var", "write"), ("path", ["ptr", "write"])) and len(node[2]) == 2:
        r = root_of(node[2][0])
        if r is not None:
            hit(r)
    if k == "for":
        it = strip_wrappers(node[2])
        if it == ("var", "self") or (it[0] == "mcall" and it[2] == "by_ref" and strip_wrappers(it[1]) == ("var", "self")):
            hit("self")
        mutated_vars(ctx, node[2], scopes, out)
        scopes.append(set(pat_vars(node[1], [])))
        mutated_vars(ctx, node[3], scopes, out)
        scopes.pop()
        return
    if k in ("if", "while"):
        c = node[1]
        if c[0] == "letcond":
            mutated_vars(ctx, c[2], scopes, out)
            scopes.append(set(pat_vars(c[1], [])))
            mutated_vars(ctx, node[2], scopes, out)
            scopes.pop()
        else:
            mutated_vars(ctx, c, scopes, out)
            mutated_vars(ctx, node[2], scopes, out)
        if k == "if" and node[3] is not None:
            mutated_vars(ctx, node[3], scopes, out)
        return
    if k == "closure":
        scopes.append(set(v for p in node[1] for v in pat_vars(p, [])))
        mutated_vars(ctx, node[2], scopes, out)
        scopes.pop()
        return
    for x in node[1:]:
        if isinstance(x, (tuple, list)):
            mutated_vars(ctx, x, scopes, out)


def state_binds(ctx, env, nodes):
    out = set()
    for n in nodes:
        mutated_vars(ctx, n, [set()], out)
    binds = []
    for name in out:
        b = env.get(name)
        if b is None:
            raise TErr(f"assignment to the unknown variable `{name}`")
        if b.kind != "val":
            raise TErr(f"assignment to `{name}`, which is not a plain variable")
        binds.append(b)
    binds.sort(key=lambda b: b.bid)
    return binds


def tuple_code(binds):
    if not binds:
        return "()"
    if len(binds) == 1:
        return binds[0].lean
    return "(" + ", ".join(b.lean for b in binds) + ")"


def tuple_ty(binds):
    if not binds:
        return UNIT
    if len(binds) == 1:
        return binds[0].ty
    return TUP(*[b.ty for b in binds])


def rebind_from(ctx, binds, code):
    """after a construct returned the tuple `code` of the state variables."""
    n = len(binds)
    for i, b in enumerate(binds):
        ctx.em.emit(f"let {b.lean} := {proj(code, i, n)}")
        b.parts = None


# ---- statements -------------------------------------------------------------------------------
DIVERGING = ("return", "break", "continue", "panic")


def ends_diverging(stmts):
    if not stmts:
        return False
    last = stmts[-1]
    if last[0] != "expr":
        return False
    e = last[1]
    if e[0] in DIVERGING:
        return True
    if e[0] in ("block", "unsafeblock"):
        return ends_diverging(e[1])
    if e[0] == "if" and e[3] is not None:
        return ends_diverging(e[2]) and ends_diverging(e[3])
    return False


def compile_stmts(ctx, env, stmts, want_value=False):
    """emit the statements; returns (value of the tail expression or None, diverged)."""
    val, diverged = None, False
    for i, st in enumerate(stmts):
        if diverged:
            raise TErr("statement after `return`/`break`/`continue` in the same block")
        last = i == len(stmts) - 1
        if st[0] == "let":
            diverged = compile_let(ctx, env, st)
            continue
        e, semi = st[1], st[2]
        if last and want_value and e[0] == "loop" and ctx.low:
            # a `loop` at the end of a body: its `break` values (none here: it is left through `return` only) are the value
            val = compile_loop(ctx, env, e, with_value=True)
            continue
        if last and not semi and want_value and e[0] not in ("if", "for", "while", "loop", "assign") + DIVERGING:
            if e[0] in ("block", "unsafeblock"):
                inner = dict(env)
                val, diverged = compile_stmts(ctx, inner, e[1], want_value=True)
            else:
                val = compile_expr(ctx, env, e)
            continue
        diverged = compile_stmt_expr(ctx, env, e)
    return val, diverged


def opt_scrutinee(ctx, env, e):
    """`e` of Option type in a matching position.  Returns (code, payload type, hook) where hook(tmp)
    is run after `some tmp` is bound and returns the Val the user pattern is matched against."""
    se = strip_wrappers(e)
    if se[0] == "mcall" and se[2] in ("pop_front", "pop") and not se[4]:
        pl = place_of(se[1])
        if pl is None:
            raise TErr(f"`{unparse(se)}`: receiver is not a variable or field path")
        pv = place_val(ctx, env, pl)
        t = prune(pv.ty)
        if isinstance(t, TVar):
            unify(t, LIST(TVar()), "receiver of pop")
            t = prune(t)
        if t[0] != "list":
            raise TErr(f"`{unparse(se)}` on a value of type {show_ty(t)}")
        if se[2] == "pop_front":
            fn = "popFront"
        elif prune(t[1]) == ENTRY:
            fn = "heapPop"
        else:
            fn = "vecPop"

        def hook(tmp):
            place_set(ctx, env, pl, f"{tmp}.2")
            return Val(f"{tmp}.1", t[1], atomic=True, stable=True)
        return f"{fn} {pv.p()}", hook, True
    if se[0] == "mcall" and se[2] == "pop_first" and not se[4]:
        ep = elem_place(ctx, env, se[1])
        if ep is None:
            raise TErr(f"`{unparse(se)}`: `pop_first` is supported on a set reached through an element pointer only")
        place, i, site = ep
        et = prune(prune(place_val(ctx, env, place).ty)[1])
        if isinstance(et, TVar) or et[0] != "set":
            raise TErr(f"`{unparse(se)}`: not a set")
        unify(et[1], KA, "`pop_first` needs the ascending representation of the set")
        pv = place_val(ctx, env, place)
        old = ctx.fresh_tmp()
        ctx.em.emit(f"let {old} ← rd {site} {pv.p()} {i.p()}")

        def hook(tmp):
            pv2 = place_val(ctx, env, place)
            t2 = ctx.fresh_tmp()
            ctx.em.emit(f"let {t2} ← wr {site} {pv2.p()} {i.p()} {tmp}.2")
            place_set(ctx, env, place, t2)
            return Val(f"{tmp}.1", NAT, atomic=True, stable=True)
        return f"popFront {old}", hook, True
    if se[0] == "mcall" and se[2] == "get_mut" and len(se[4]) == 1:
        pl = place_of(se[1])
        if pl is None:
            raise TErr(f"`{unparse(se)}`: receiver is not a variable or field path")
        pv = place_val(ctx, env, pl)
        t = prune(pv.ty)
        if isinstance(t, TVar) or t[0] != "list":
            raise TErr(f"`{unparse(se)}` on a value that is not a vector")
        check_immutable_index(env, se[4][0], f"`{unparse(se)}`")
        i = compile_expr(ctx, env, se[4][0], NAT)
        unify(i.ty, NAT, "argument of get_mut")

        def hook(tmp):
            return ("cell", pl, se[4][0], Val(tmp, t[1], atomic=True, stable=True))
        return f"{pv.p()}[{i.code}]?", hook, False
    v = compile_expr(ctx, env, e)
    t = prune(v.ty)
    if isinstance(t, TVar):
        unify(t, OPT(TVar()), "matched value")
        t = prune(t)
    if t[0] != "opt":
        raise TErr(f"`{unparse(e)}` is matched against `Some(..)` but has type {show_ty(t)}")

    def hook(tmp):
        return Val(tmp, t[1], atomic=True, stable=True)
    return v.code, hook, False


def bind_some(ctx, pat, hook, wrapped):
    """after `| some <name> =>`: returns the Lean name to put in the match pattern and a function
    `after(env)` that performs the remaining bindings inside the alternative."""
    pat = strip_pref(pat)
    direct = pat[1] if pat[0] == "pvar" and not pat[2] else None
    if direct is not None and not wrapped:
        name = ctx.fresh_name(pat[1])
    else:
        name = ctx.fresh_tmp()

    def after(env):
        r = hook(name)
        if isinstance(r, tuple) and r[0] == "cell":
            _, pl, idx_ast, v = r
            if direct is None:
                raise TErr("`get_mut` must be matched by `Some(name)`")
            check_no_alias_root(env, direct)
            ctx.new_bind(env, Bind("cell", direct, place=pl, idx=idx_ast, cur=v.code, ty=v.ty))
            return
        if direct is not None and r.code == name:
            check_no_alias_root(env, direct)
            ctx.new_bind(env, Bind("val", direct, lean=name, ty=r.ty, mut=False, stable=True))
        elif direct is not None:
            # the payload is a component of the matched value (pop: `(item, rest)`): the match binds a
            # temporary, the variable gets its own `let`
            bind_val(ctx, env, direct, r, False)
        else:
            bind_pattern(ctx, env, pat, r, True)
    return name, after


def some_pattern(pat):
    pat = strip_pref(pat)
    if pat[0] == "pctor" and pat[1] == "Some" and len(pat[2]) == 1:
        return pat[2][0]
    return None


def interior_mut(node):
    if isinstance(node, list):
        return any(interior_mut(x) for x in node)
    if isinstance(node, tuple) and node:
        if node[0] == "call" and node[1][0] == "path" and node[1][1] in (["AtomicBool", "new"], ["Mutex", "new"]):
            return True
        return any(interior_mut(x) for x in node[1:] if isinstance(x, (tuple, list)))
    return False


def compile_let(ctx, env, st):
    _, pat, ty, init, els = st
    if ty is not None and ctx.low and ty.replace(" ", "").startswith("*") and strip_wrappers(init)[0] == "mcall" \
            and strip_wrappers(init)[2] in ("as_mut_ptr", "as_ptr"):
        ty = None       # `let p: *mut T = v.as_mut_ptr();`
    if ctx.low and ty is None and els is None and strip_pref(pat)[0] == "pvar" and strip_pref(pat)[1] in ctx.rawbufs:
        si = strip_wrappers(init)
        if not (si[0] == "call" and si[1] == ("path", ["Vec", "with_capacity"]) and len(si[2]) == 1 and strip_pref(pat)[2]):
            raise TErr(f"`{strip_pref(pat)[1]}` (a vector with `set_len`) must be created by `let mut v = Vec::with_capacity(n);`")
        n = compile_expr(ctx, env, si[2][0], NAT)
        unify(n.ty, NAT, "capacity")
        name = strip_pref(pat)[1]
        et = TVar()
        b = bind_val(ctx, env, name, Val(f"(List.replicate {n.p()} none : List (Option {lean_ty(et, True)}))", LIST(OPT(et))), True, True)
        lb = bind_val(ctx, env, name + "__len", Val("0", NAT, atomic=True), True, True)
        b.rawbuf = name + "__len"
        return False
    if ty is not None:
        if not ctx.par or els is not None or strip_pref(pat)[0] != "pvar":
            raise TErr("a `let` with a type annotation is outside the supported subset")
        at = rust_ty(ty, ctx.sname, ctx.aliases, {})
        v = compile_expr(ctx, env, init, at)
        unify(v.ty, at, f"type annotation of `let {unparse_pat(pat)}`")
        if not strip_pref(pat)[2] and interior_mut(init):
            pat = ("pvar", strip_pref(pat)[1], True)
        bind_pattern(ctx, env, pat, v, True)
        return False
    sp = strip_pref(pat)
    sinit = strip_wrappers(init)
    # let Some(x) = e else { diverge };
    if els is not None:
        inner_pat = some_pattern(pat)
        if inner_pat is None:
            raise TErr("`let .. else` is supported for `Some(..)` patterns only")
        if not ends_diverging(els):
            raise TErr("the `else` block of `let .. else` must end in break/continue/return")
        code, hook, wrapped = opt_scrutinee(ctx, env, init)
        name, after = bind_some(ctx, inner_pat, hook, wrapped)
        base = ctx.em.indent
        ctx.em.emit(f"match {code} with")
        ctx.em.emit("| none => do")
        compile_branch(ctx, env, els, [], base)
        ctx.em.emit(f"| some {name} =>")
        ctx.em.indent = base + 2
        after(env)
        return False
    # let pat = e?;
    if sinit[0] == "try":
        vt = prune(ctx.value_ty)
        if isinstance(vt, TVar) or vt[0] != "opt":
            raise TErr("`?` in a function that does not return an Option")
        code, hook, wrapped = opt_scrutinee(ctx, env, sinit[1])
        name, after = bind_some(ctx, pat, hook, wrapped)
        base = ctx.em.indent
        ctx.em.emit(f"match {code} with")
        ctx.em.emit(f"| none => ret {ctx.result(env, Val('none', vt, atomic=True))}")
        ctx.em.emit(f"| some {name} =>")
        ctx.em.indent = base + 2
        after(env)
        return False
    # raw pointers
    if ctx.par and sp[0] == "pvar" and sinit[0] == "call" and sinit[1] == ("path", ["Arc", "clone"]) and len(sinit[2]) == 1:
        # `let y = Arc::clone(&x);`: `y` is the SAME shared value as `x` (an update through one is seen through the other)
        a0 = strip_wrappers(sinit[2][0])
        if a0[0] == "un" and a0[1] == "&":
            a0 = strip_wrappers(a0[2])
        if a0[0] != "var" or a0[1] not in env or env[a0[1]].kind != "val":
            raise TErr(f"`{unparse(sinit)}`: `Arc::clone` of something that is not a variable")
        env[sp[1]] = env[a0[1]]
        return False
    if ctx.low and sp[0] == "pvar" and sinit[0] == "mcall" and sinit[2] in ("as_mut_ptr", "as_ptr", "add") \
            and (sp[2] or sinit[2] == "add"):
        # a pointer into a slice that moves (`let mut p = w.as_ptr(); .. p = p.add(1)`) or is computed once
        # (`let end = w.as_ptr().add(len - 1)`): its OFFSET in the slice (comparisons of two such pointers compare offsets)
        pe = eval_ptr(ctx, env, sinit)
        if pe is None:
            raise TErr(f"`{unparse(sinit)}`: not a pointer into a slice")
        off = Val("0", NAT, atomic=True) if pe[0] == "ptr" else pe[2]
        b = bind_val(ctx, env, sp[1], Val(off.code, NAT, atomic=off.atomic), sp[2], True)
        b.ptr_place = pe[1]
        return False
    is_ptr_cast = (ctx.par and sinit[0] == "cast" and (sinit[2] == "usize" or sinit[2].startswith("*"))
                   and eval_ptr(ctx, env, sinit) is not None)
    if sp[0] == "pvar" and ((sinit[0] == "mcall" and sinit[2] in ("as_mut_ptr", "as_ptr", "add")) or is_ptr_cast):
        pe = eval_ptr(ctx, env, sinit)
        check_no_alias_root(env, sp[1])
        if pe[0] == "ptr":
            ctx.new_bind(env, Bind("ptr", sp[1], place=pe[1]))
        else:
            check_immutable_index(env, sinit[4][0], f"`let {sp[1]} = {unparse(sinit)}`")
            ctx.new_bind(env, Bind("elem", sp[1], place=pe[1], idx=sinit[4][0], site=pe[3]))
        return False
    if sinit[0] == "loop":
        v = compile_loop(ctx, env, sinit, with_value=True)
        bind_pattern(ctx, env, pat, v, True)
        return False
    if sp[0] == "pwild" and sinit[0] == "mcall" and compile_discarded_call(ctx, env, sinit):
        return False
    v = compile_expr(ctx, env, init)
    if v.ty == GRAPH_T and ctx.sinfo["graph"] in ("Graph", "WGraph"):
        raise TErr("binding the digraph reference to a local variable is outside the supported subset")
    if ctx.par and sp[0] == "pvar" and not sp[2] and interior_mut(init):
        pat = ("pvar", sp[1], True)     # an `AtomicBool` / `Mutex` is updated through a shared reference
    bind_pattern(ctx, env, pat, v, True)
    return False


def compile_elem_method(ctx, env, ep, name, args, e):
    """a mutating method on a vector element reached through a pointer: read, update, write back"""
    place, i, site = ep
    et = prune(prune(place_val(ctx, env, place).ty)[1])
    if isinstance(et, TVar) and name == "insert":
        unify(et, SET(KA if ctx.sinfo.get("extern") else TVar()), "vector element")
        et = prune(et)
    if isinstance(et, TVar) or et[0] != "set":
        raise TErr(f"`{unparse(e)}`: method on a vector element that is not a set")
    if name == "insert" and len(args) == 1:
        k = compile_expr(ctx, env, args[0], NAT)
        unify(k.ty, NAT, "set element")
        if ctx.sinfo.get("extern"):
            unify(et[1], KA, "set representation")
            elem_update(ctx, env, ep, lambda old: f"(Repr.sinsert {k.p()} {old.code})")
        else:
            elem_update(ctx, env, ep, lambda old: f"(setInsert{kind_suffix(et[1])} {k.p()} {old.code})")
        return True
    if name == "remove" and len(args) == 1:
        k = compile_expr(ctx, env, args[0], NAT)
        unify(k.ty, NAT, "set element")
        elem_update(ctx, env, ep, lambda old: f"(setRemove {k.p()} {old.code})")
        return True
    if name == "clear" and not args:
        pv = place_val(ctx, env, place)
        tmp = ctx.fresh_tmp()
        ctx.em.emit(f"let {tmp} ← wr {site} {pv.p()} {i.p()} []")
        place_set(ctx, env, place, tmp)
        return True
    raise TErr(f"`{unparse(e)}`: method `.{name}` on a vector element is outside the supported subset")


def compile_discarded_call(ctx, env, e):
    """`let _ = x.insert(..)` / `x.remove(..)` / `v.pop()` / a call of a generated method: the value is
    dropped, the receiver is updated.  Returns False when `e` is none of these."""
    recv, name, args = e[1], e[2], e[4]
    sr = strip_wrappers(recv)
    if ctx.sinfo.get("extern"):
        # `m.entry(k).or_default()` / `m.entry(k).or_default().insert(x)` on a `BTreeMap<usize, BTreeSet<usize>>`:
        # the hand-written insert-or-update `Repr.mupsert k [] f m`
        ent, upd = None, None
        if name == "or_default" and not args and sr[0] == "mcall" and sr[2] == "entry" and len(sr[4]) == 1:
            ent, upd = sr, "id"
        elif name == "insert" and len(args) == 1 and sr[0] == "mcall" and sr[2] == "or_default" and not sr[4]:
            s2 = strip_wrappers(sr[1])
            if s2[0] == "mcall" and s2[2] == "entry" and len(s2[4]) == 1:
                ent = s2
        if ent is not None:
            pl = place_of(ent[1])
            if pl is None or pl[0] not in env or env[pl[0]].kind != "val":
                raise TErr(f"`{unparse(e)}`: `.entry(..)` on something that is not a variable or field")
            unify(place_val(ctx, env, pl).ty, LIST(TUP(NAT, SET(KA))), "receiver of `.entry(k).or_default()`")
            k = compile_expr(ctx, env, ent[4][0], NAT)
            unify(k.ty, NAT, "map key")
            if upd is None:
                x = compile_expr(ctx, env, args[0], NAT)
                unify(x.ty, NAT, "set element")
                upd = f"(Repr.sinsert {x.p()})"
            pv = place_val(ctx, env, pl)
            place_set(ctx, env, pl, f"Repr.mupsert {k.p()} [] {upd} {pv.p()}")
            return True
    ep = elem_place(ctx, env, recv)
    if ep is not None:
        return compile_elem_method(ctx, env, ep, name, args, e)
    if sr[0] == "index" and name == "insert" and len(args) == 2 and ctx.sinfo.get("extern"):
        # `rows[i].insert(k, x)` on a `Vec<BTreeMap<usize, X>>`: checked indexing (panic), then `BTreeMap::insert`
        pl = place_of(sr[1])
        if pl is None or pl[0] not in env or env[pl[0]].kind != "val":
            return False
        vt = TVar()
        unify(place_val(ctx, env, pl).ty, LIST(LIST(TUP(NAT, vt))), "receiver of `[i].insert(k, x)`")
        i = compile_expr(ctx, env, sr[2], NAT)
        unify(i.ty, NAT, "index")
        k = compile_expr(ctx, env, args[0], NAT)
        unify(k.ty, NAT, "map key")
        x = compile_expr(ctx, env, args[1], vt)
        unify(x.ty, vt, "map value")
        pv = place_val(ctx, env, pl)
        old = ctx.fresh_tmp()
        ctx.em.emit(f"let {old} ← idx {pv.p()} {i.p()}")
        place_set(ctx, env, pl, f"{pv.p()}.set {i.p()} (Ops.minsert {k.p()} {x.p()} {old})")
        return True
    pl = place_of(recv)
    if pl is None or pl[0] not in env or env[pl[0]].kind != "val":
        return False
    pv = place_val(ctx, env, pl)
    t = prune(pv.ty)
    if ctx.sinfo.get("extern") and name == "insert" and len(args) == 2 and (isinstance(t, TVar) or t[0] == "list"):
        # `m.insert(k, x)` on a local `BTreeMap<usize, X>`: the hand-written `Ops.minsert`
        vt = TVar()
        unify(pv.ty, LIST(TUP(NAT, vt)), "receiver of `.insert(k, x)`")
        k = compile_expr(ctx, env, args[0], NAT)
        unify(k.ty, NAT, "map key")
        x = compile_expr(ctx, env, args[1], vt)
        unify(x.ty, vt, "map value")
        pv = place_val(ctx, env, pl)
        place_set(ctx, env, pl, f"Ops.minsert {k.p()} {x.p()} {pv.p()}")
        return True
    if isinstance(t, TVar) and name == "insert" and len(args) == 1:
        a0 = strip_wrappers(args[0])
        is_pair = a0[0] == "tup"
        if ctx.sinfo.get("extern") and a0[0] == "var" and a0[1] in env and env[a0[1]].kind == "val":
            at = prune(env[a0[1]].ty)
            is_pair = not isinstance(at, TVar) and at[0] == "tup"
        unify(t, PSET if is_pair else SET(TVar()), "receiver of .insert")
        t = prune(t)
    if isinstance(t, TVar):
        return False
    if t == PSET and name == "insert" and len(args) == 1:
        v = compile_expr(ctx, env, args[0], TUP(NAT, NAT))
        unify(v.ty, TUP(NAT, NAT), "pair set element")
        pv = place_val(ctx, env, pl)
        place_set(ctx, env, pl, f"Repr.pinsert {v.p()} {pv.p()}")
        return True
    if t[0] == "struct" and (t[1], name) in ctx.fntab:
        compile_fn_call(ctx, env, t[1], name, pl, args)
        return True
    if t == MAP and name == "insert" and len(args) == 2:
        k = compile_expr(ctx, env, args[0], NAT)
        unify(k.ty, NAT, "map key")
        v = compile_expr(ctx, env, args[1], NAT)
        unify(v.ty, NAT, "map value")
        pv = place_val(ctx, env, pl)
        place_set(ctx, env, pl, f"mapSet {pv.p()} {k.p()} {v.p()}")
        return True
    if t[0] == "set" and name in ("insert", "remove") and len(args) == 1:
        k = compile_expr(ctx, env, args[0], NAT)
        unify(k.ty, NAT, "set element")
        pv = place_val(ctx, env, pl)
        if ctx.sinfo.get("extern"):
            unify(t[1], KA, "set representation")
            place_set(ctx, env, pl, f"Repr.{'sinsert' if name == 'insert' else 'serase'} {k.p()} {pv.p()}")
        elif name == "insert":
            place_set(ctx, env, pl, f"setInsert{kind_suffix(t[1])} {k.p()} {pv.p()}")
        else:
            place_set(ctx, env, pl, f"setRemove {k.p()} {pv.p()}")
        return True
    if t[0] == "list" and name == "pop" and not args and prune(t[1]) != ENTRY:
        place_set(ctx, env, pl, f"{pv.p()}.dropLast")
        return True
    return False


def compile_branch(ctx, env, stmts, M, base, pre=None, tail_then=False):
    """a nested `do` block at indentation base+4 ending in `pure <M>` unless it diverges."""
    ctx.em.indent = base + 4
    inner = dict(env)
    ctx.branch_states.append((ctx.bid, None if ends_diverging(stmts) else {b.bid for b in M}))
    lp = ctx.loops[-1] if ctx.loops else None
    if lp is not None:
        lp.cont_ok.append(tail_then and lp.depth == 0)
        lp.depth += 1
    if pre is not None:
        pre(inner)
    _, div = compile_stmts(ctx, inner, stmts)
    if not div:
        ctx.em.emit(f"pure {tuple_code(M)}")
    if lp is not None:
        lp.depth -= 1
        lp.cont_ok.pop()
    ctx.branch_states.pop()
    ctx.em.indent = base
    return div


def open_bind(ctx, M):
    """text of the `let .. ←` that receives the tuple of the state variables M."""
    if not M:
        return "", None
    if len(M) == 1:
        return f"let {M[0].lean} ← ", None
    tmp = ctx.fresh_tmp()
    return f"let {tmp} ← ", tmp


def compile_if(ctx, env, e):
    cond, th, el = e[1], e[2], e[3]
    base = ctx.em.indent
    if cond[0] == "letcond":
        inner_pat = some_pattern(cond[1])
        if inner_pat is None:
            raise TErr("`if let` is supported for `Some(..)` patterns only")
        sc = strip_wrappers(cond[2])
        if sc[0] == "mcall" and sc[2] == "as_mut" and not sc[4]:
            pe = eval_ptr(ctx, env, sc[1])
            ip = strip_pref(inner_pat)
            if pe is None or pe[0] != "elem" or ip[0] != "pvar" or el is not None:
                raise TErr(f"`{unparse(cond)}`: only `if let Some(x) = p.add(i).as_mut() {{ .. }}` (no `else`) is supported")
            # the buffer pointer of a vector offset by `i` is not null: the branch is always taken and `x` is
            # the element `i` (out of range = `ub` at the use)
            idx_ast = strip_wrappers(sc[1])[4][0]
            check_immutable_index(env, idx_ast, f"`{unparse(cond)}`")
            inner = dict(env)
            check_no_alias_root(inner, ip[1])
            ctx.new_bind(inner, Bind("elem", ip[1], place=pe[1], idx=idx_ast, site=pe[3], as_ref=True))
            _, div = compile_stmts(ctx, inner, th)
            return div
        M = state_binds(ctx, env, [("expr", e, True)])
        code, hook, wrapped = opt_scrutinee(ctx, env, cond[2])
        head, tmp = open_bind(ctx, M)
        name, after = bind_some(ctx, inner_pat, hook, wrapped)
        ctx.em.emit(f"{head}(match {code} with")
        ctx.em.emit(f"  | some {name} => do")
        d1 = compile_branch(ctx, env, th, M, base, pre=after)
        ctx.em.emit("  | none => do")
        d2 = compile_branch(ctx, env, el or [], M, base)
        ctx.em.append_to_last(")")
        if tmp is not None:
            rebind_from(ctx, M, tmp)
        return d1 and d2
    if el is None and ends_diverging(th):
        c = compile_cond(ctx, env, cond)
        ctx.em.emit(f"if {c} then do")
        div = compile_branch(ctx, env, th, [], base, tail_then=True)
        if not div:
            raise TErr("internal: the then-branch was expected to diverge")
        ctx.em.emit("  else do")
        ctx.em.indent = base + 2
        return False
    M = state_binds(ctx, env, [th] + ([el] if el is not None else []))
    c = compile_cond(ctx, env, cond)
    head, tmp = open_bind(ctx, M)
    ctx.em.emit(f"{head}(if {c} then do")
    d1 = compile_branch(ctx, env, th, M, base)
    ctx.em.emit("  else do")
    d2 = compile_branch(ctx, env, el or [], M, base)
    ctx.em.append_to_last(")")
    if tmp is not None:
        rebind_from(ctx, M, tmp)
    return d1 and d2


def compile_assign(ctx, env, e):
    op, lhs, rhs = e[1], e[2], e[3]
    slhs = strip_wrappers(lhs)
    if slhs[0] == "un" and slhs[1] == "*":
        target = slhs[2]
        pe = eval_ptr(ctx, env, target)
        if pe is None and ctx.par:
            ep = elem_place(ctx, env, target)         # `*v.get_unchecked_mut(i) = ..` / `+= ..`
            if ep is not None:
                pe = ("elem",) + tuple(ep)
        if pe is not None:
            if pe[0] != "elem":
                if not ctx.sinfo.get("ptr_deref0"):
                    raise TErr(f"`{unparse(lhs)} = ..`: writing through the buffer pointer itself")
                pe = ("elem", pe[1], Val("0", NAT, atomic=True), ctx.site(unparse(target)))   # `*p` is element 0
            _, place, i, site = pe
            pv = place_val(ctx, env, place)
            t = prune(pv.ty)
            if op != "=":
                # `*p.add(i) ^= e`: read, combine, write (the right operand is evaluated first, as Rust does
                # for primitive compound assignment)
                rv = compile_expr(ctx, env, rhs, t[1])
                unify(rv.ty, t[1], f"operand of {op}")
                if ctx.par and op == "+=" and isinstance(prune(t[1]), TVar) and prune(t[1]).numeric:
                    unify(t[1], NAT, "operand of +=")
                if ctx.low and op in ("^=", "|=", "&=") and prune(t[1]) == WORD:
                    lop = {"^=": "^^^", "|=": "|||", "&=": "&&&"}[op]
                elif ctx.par and op == "+=" and prune(t[1]) == NAT:
                    lop = "+"
                elif op != "^=" or prune(t[1]) != U64:
                    raise TErr(f"`{op}` through a pointer is supported for `^=` on u64 only")
                else:
                    lop = "^^^"
                old = ctx.fresh_tmp()
                pv = place_val(ctx, env, place)
                ctx.em.emit(f"let {old} ← rd {site} {pv.p()} {i.p()}")
                tmp = ctx.fresh_tmp()
                ctx.em.emit(f"let {tmp} ← wr {site} {pv.p()} {i.p()} ({old} {lop} {rv.p()})")
                place_set(ctx, env, place, tmp)
                return
            v = compile_expr(ctx, env, rhs, t[1])
            unify(v.ty, t[1], f"value written through `{unparse(target)}`")
            tmp = ctx.fresh_tmp()
            ctx.em.emit(f"let {tmp} ← wr {site} {pv.p()} {i.p()} {v.p()}")
            place_set(ctx, env, place, tmp)
            return
        st = strip_wrappers(target)
        if st[0] == "var" and st[1] in env and env[st[1]].kind == "cell":
            b = env[st[1]]
            v = compile_expr(ctx, env, rhs, b.ty)
            unify(v.ty, b.ty, f"value written through `{st[1]}`")
            i = compile_expr(ctx, env, b.idx, NAT)
            pv = place_val(ctx, env, b.place)
            place_set(ctx, env, b.place, f"{pv.p()}.set {i.p()} {v.p()}")
            b.cur = None
            return
        raise TErr(f"assignment through `{unparse(lhs)}` is outside the supported subset")
    if ctx.par and op == "=" and slhs[0] == "field" and re.match(r"\d+\Z", slhs[2]) and strip_wrappers(slhs[1])[0] == "var":
        # `x.k = e` for a tuple variable `x`: the tuple with component `k` replaced
        root = strip_wrappers(slhs[1])[1]
        b = env.get(root)
        if b is None or b.kind != "val":
            raise TErr(f"`{root}` is not a variable holding a value")
        t = prune(b.ty)
        k = int(slhs[2])
        if isinstance(t, TVar) or t[0] != "tup" or k >= len(t[1]):
            raise TErr(f"`{unparse(lhs)} = ..`: not a component of a tuple variable")
        v = compile_expr(ctx, env, rhs, t[1][k])
        unify(v.ty, t[1][k], f"assignment to `{unparse(lhs)}`")
        ctx.use(b)
        n = len(t[1])
        parts = [v.code if i == k else proj(b.lean, i, n) for i in range(n)]
        place_set(ctx, env, (root, []), "(" + ", ".join(parts) + ")")
        return
    if ctx.low and op == "=" and slhs[0] == "var" and slhs[1] in env and getattr(env[slhs[1]], "ptr_place", None) is not None:
        pe = eval_ptr(ctx, env, rhs)
        if pe is None or pe[0] != "elem" or pe[1] != env[slhs[1]].ptr_place:
            raise TErr(f"`{unparse(e)}`: a moving pointer must stay in its slice")
        place_set(ctx, env, (slhs[1], []), pe[2].code)
        return
    pl = place_of(lhs)
    if pl is None:
        raise TErr(f"assignment target `{unparse(lhs)}` is outside the supported subset")
    cur = place_val(ctx, env, pl)
    v = compile_expr(ctx, env, rhs, cur.ty)
    if op == "=":
        unify(v.ty, cur.ty, f"assignment to `{unparse(lhs)}`")
        place_set(ctx, env, pl, v.code)
        return
    aop = op[:-1]
    if ctx.low and aop in ("^", "|", "&") and prune(cur.ty) == WORD:
        unify(v.ty, WORD, f"operand of {op}")
        place_set(ctx, env, pl, f"{cur.p()} {({'^': '^^^', '|': '|||', '&': '&&&'})[aop]} {v.p()}")
        return
    if aop not in ("+", "*") and not (aop == "-" and prune(cur.ty) == INT):
        raise TErr(f"`{op}` is outside the supported subset")
    num_result(cur, v, f"operands of {op}")
    place_set(ctx, env, pl, f"{cur.p()} {aop} {v.p()}")


def compile_stmt_expr(ctx, env, e):
    """an expression in statement position; returns True when control does not continue."""
    k = e[0]
    if k == "paren":
        return compile_stmt_expr(ctx, env, e[1])
    if k in ("block", "unsafeblock"):
        _, div = compile_stmts(ctx, dict(env), e[1])
        return div
    if k == "assign":
        compile_assign(ctx, env, e)
        return False
    if k == "assert":
        c = compile_expr(ctx, env, e[1], BOOL)
        unify(c.ty, BOOL, "assert! condition")
        ctx.em.emit(f"assert {c.p()}")
        return False
    if k == "panic":
        ctx.em.emit("panic")
        return True
    if k == "if":
        return compile_if(ctx, env, e)
    if k == "for":
        compile_for(ctx, env, e)
        return False
    if k == "while":
        compile_while(ctx, env, e)
        return False
    if k == "loop":
        compile_loop(ctx, env, e, with_value=False)
        return False
    if k == "return":
        if e[1] is None:
            raise TErr("`return;` without value is outside the supported subset")
        v = compile_expr(ctx, env, e[1], ctx.value_ty)
        unify(v.ty, ctx.value_ty, "returned value")
        ctx.em.emit(f"ret {ctx.result(env, v)}")
        return True
    if k == "break":
        if not ctx.loops:
            raise TErr("`break` outside a loop")
        lp = ctx.loops[-1]
        for b in lp.state:
            ctx.use(b)
        if lp.kind == "loop":
            if e[1] is None:
                unify(lp.value_ty, UNIT, "break value")
                ctx.em.emit(f"brk ((), {tuple_code(lp.state)})")
            else:
                v = compile_expr(ctx, env, e[1], lp.value_ty)
                unify(v.ty, lp.value_ty, "break value")
                ctx.em.emit(f"brk ({v.code}, {tuple_code(lp.state)})")
        else:
            if e[1] is not None:
                raise TErr("`break value` outside `loop`")
            ctx.em.emit(f"brk {tuple_code(lp.state)}")
        return True
    if k == "continue":
        if not ctx.loops or ctx.loops[-1].kind not in (("for", "iter", "while") if ctx.par else ("for", "iter")):
            raise TErr("`continue` is supported in `for` bodies only")
        lp = ctx.loops[-1]
        if not (lp.depth == 1 and lp.cont_ok and lp.cont_ok[-1]):
            raise TErr("`continue` is supported only as the last statement of an `if` (without `else`) "
                       "directly in the loop body")
        ctx.em.emit(f"pure {tuple_code(lp.state)}")
        return True
    if k == "call" and ctx.par:
        compile_expr(ctx, env, e)        # `scope(..)`, `spawn(..)`, `write(..)`: the value (unit / a dropped handle) is not used
        return False
    if k == "mcall" and ctx.par:
        recv, name, args = e[1], e[2], e[4]
        if is_join(e) is not None or name == "spawn":
            compile_expr(ctx, env, e)
            return False
        sr0 = strip_wrappers(recv)
        if ctx.low and name == "set_len" and len(args) == 1 and sr0[0] == "var" and getattr(env.get(sr0[1]), "rawbuf", None):
            b = env[sr0[1]]
            k = compile_expr(ctx, env, args[0], NAT)
            unify(k.ty, NAT, "argument of set_len")
            ctx.use(b)
            tmp = ctx.fresh_tmp()
            ctx.em.emit(f"let {tmp} ← setLenU {ctx.site(unparse(e))} {b.lean}.length {k.p()}")
            place_set(ctx, env, (b.rawbuf, []), tmp)
            return False
        if name == "set_len" and len(args) == 1 and strip_wrappers(args[0]) == ("lit", 0) and sr0[0] == "call" \
                and sr0[1] == ("path", ["ManuallyDrop", "into_inner"]) and len(sr0[2]) == 1 and strip_wrappers(sr0[2][0])[0] == "var":
            # `ManuallyDrop::into_inner(v).set_len(0);`: the buffer is freed with length 0, no entry is dropped - no value
            # changes (whether every entry HAS been moved out before is not tracked, see `ptr::read`)
            b = env.get(strip_wrappers(sr0[2][0])[1])
            if b is None or b.kind != "val":
                raise TErr(f"`{unparse(e)}`: not a variable")
            return False
        if name == "store" and len(args) == 2:
            pl = place_of(recv)
            if pl is None or pl[0] not in env or env[pl[0]].kind != "val" or prune(place_val(ctx, env, pl).ty) != BOOL:
                raise TErr(f"`{unparse(e)}`: `.store` on something that is not an `AtomicBool` variable")
            v = compile_expr(ctx, env, args[0], BOOL)
            unify(v.ty, BOOL, "stored value")
            place_set(ctx, env, pl, v.code)
            return False
        if name == "extend" and len(args) == 1:
            pl = place_of(recv)
            if pl is None:
                raise TErr(f"`{unparse(e)}`: receiver is not a variable or field path")
            pv = place_val(ctx, env, pl)
            unify(pv.ty, LIST(TVar()), "receiver of .extend")
            v = compile_expr(ctx, env, args[0], pv.ty)
            unify(v.ty, pv.ty, "argument of .extend")
            pv = place_val(ctx, env, pl)
            place_set(ctx, env, pl, f"{pv.p()} ++ {v.p()}")
            return False
        if name in ("sort_unstable_by_key", "sort_by_key") and len(args) == 1:
            # the key must be the first component: `|&(k, _)| k`.  An unstable sort may order equal keys in any way;
            # the stable merge sort is one of the admitted results (docs/AlgoGen.md, Set 4)
            lam = args[0]
            ok = lam[0] == "closure" and len(lam[1]) == 1
            if ok:
                pt = strip_pref(lam[1][0])
                ok = (pt[0] == "ptup" and len(pt[1]) == 2 and strip_pref(pt[1][0])[0] == "pvar"
                      and strip_pref(pt[1][1])[0] == "pwild" and strip_wrappers(lam[2]) == ("var", strip_pref(pt[1][0])[1]))
            if not ok:
                raise TErr(f"`{unparse(e)}`: only `.{name}(|&(k, _)| k)` is supported")
            pl = place_of(recv)
            if pl is None:
                raise TErr(f"`{unparse(e)}`: receiver is not a variable or field path")
            pv = place_val(ctx, env, pl)
            unify(pv.ty, LIST(TUP(NAT, TVar())), f"receiver of .{name}")
            place_set(ctx, env, pl, f"sortByKey1 {pv.p()}")
            return False
    if k == "mcall":
        recv, name, args = e[1], e[2], e[4]
        ep = elem_place(ctx, env, recv)
        if ep is not None:
            compile_elem_method(ctx, env, ep, name, args, e)
            return False
        if name in ("push", "push_back") and len(args) == 1:
            pl = place_of(recv)
            if pl is None:
                raise TErr(f"`{unparse(e)}`: receiver is not a variable or field path")
            pv = place_val(ctx, env, pl)
            t = prune(pv.ty)
            if isinstance(t, TVar):
                unify(t, LIST(TVar()), f"receiver of .{name}")
                t = prune(t)
            if t[0] != "list":
                raise TErr(f"`{unparse(e)}` on a value of type {show_ty(t)}")
            v = compile_expr(ctx, env, args[0], t[1])
            unify(v.ty, t[1], f"argument of .{name}")
            if prune(t[1]) == ENTRY:
                if name != "push":
                    raise TErr("`push_back` on a binary heap")
                place_set(ctx, env, pl, f"{v.code} :: {pv.code}")
            else:
                place_set(ctx, env, pl, f"{pv.code} ++ [{v.code}]")
            return False
        if name in ("add_arc", "add_arc_weighted"):
            pl = place_of(recv)
            if pl is None:
                raise TErr(f"`{unparse(e)}`: receiver is not a variable")
            pv = place_val(ctx, env, pl)
            t = prune(pv.ty)
            if isinstance(t, TVar) or t[0] != "struct" or "extern" not in STRUCTS.get(t[1], {}):
                raise TErr(f"`{unparse(e)}`: not a representation value")
            want = 2 if name == "add_arc" else 3
            if len(args) != want:
                raise TErr(f"`{unparse(e)}`: arity")
            vs = [compile_expr(ctx, env, a, NAT) for a in args[:2]]
            for v in vs:
                unify(v.ty, NAT, "vertex argument")
            lname2 = "addArc"
            if want == 3:
                w = compile_expr(ctx, env, args[2], INT)
                unify(w.ty, INT, "weight argument")
                vs.append(w)
                lname2 = "addArcWeighted"
            tmp = ctx.fresh_tmp()
            ctx.em.emit(f"let {tmp} ← optP ({pv.p()}.{lname2} " + " ".join(v.p() for v in vs) + ")")
            place_set(ctx, env, pl, tmp)
            return False
        if name == "reverse" and not args:
            pl = place_of(recv)
            if pl is None:
                raise TErr(f"`{unparse(e)}`: receiver is not a variable or field path")
            pv = place_val(ctx, env, pl)
            t = prune(pv.ty)
            if isinstance(t, TVar) or t[0] != "list":
                raise TErr(f"`{unparse(e)}` on a value that is not a vector")
            place_set(ctx, env, pl, f"{pv.p()}.reverse")
            return False
        if (name,) and place_of(recv) is not None and place_of(recv)[0] in env and env[place_of(recv)[0]].kind == "val":
            rt = prune(place_val(ctx, env, place_of(recv)).ty)
            if not isinstance(rt, TVar) and rt[0] == "struct" and (rt[1], name) in ctx.fntab:
                compile_fn_call(ctx, env, rt[1], name, place_of(recv), args)    # value dropped
                return False
        raise TErr(f"expression statement `{unparse(e)}` is outside the supported subset")
    raise TErr(f"statement `{unparse(e)}` ({k}) is outside the supported subset")


# ---- loops ------------------------------------------------------------------------------------
def loop_key(ctx, kind):
    k = ctx.loopn.get(kind, 0)
    ctx.loopn[kind] = k + 1
    return f"{kind}{k}"


def fuel_code(ctx, env, key):
    hint = FUEL_HINTS.get((ctx.sname, ctx.rfn, key))
    if hint is None:
        ctx.use_global("fuel")
        return "fuel"
    hint = hint.replace(".length", ".len()")
    p = Parser(tokenize(hint))
    ast = p.expr()
    if p.peek() is not None:
        raise TErr(f"fuel hint `{hint}`: trailing tokens")
    v = compile_expr(ctx, env, ast, NAT)
    unify(v.ty, NAT, "fuel hint")
    return v.p()


def emit_loop_def(ctx, env, key, what, S, brk_ty_of, item, build, self_param=None):
    """Emit the definition `<fn>_<key>` of a loop body.
    S: state bindings; item: None | (param name, type); build(inner_env) emits the body (it must end
    the block itself).  Returns the application `Struct.fn_key g inf fuel caps..` (without state / item)."""
    frame = Frame(ctx.bid)
    frame.state_bids = {b.bid for b in S}
    ctx.frames.append(frame)
    saved_em = ctx.em
    ctx.em = Emitter(2)
    inner = dict(env)
    if len(S) > 1:
        for i, b in enumerate(S):
            ctx.em.emit(f"let {b.lean} := {proj('st', i, len(S))}")
    build(inner)
    body = ctx.em.lines
    ctx.em = saved_em
    ctx.frames.pop()
    sids = {b.bid for b in S}
    caps = [b for bid, b in sorted(frame.used.items()) if bid not in sids]
    for b in caps:
        if b.kind != "val":
            raise TErr(f"internal: captured binding `{b.rust}` is not a value")
    gl = []
    if "ap" in frame.globals:
        gl.append(("ap", "Nat"))
    if "g" in frame.globals:
        gl.append(("g", lean_ty(GRAPH_T)))
    if "inf" in frame.globals:
        gl.append(("inf", lean_ty(ctx.sinfo["sentinel"])))
    if "fuel" in frame.globals:
        gl.append(("fuel", "Nat"))
    if "recf" in frame.globals:
        sig = ctx.fntab[(ctx.sname, ctx.rfn)]
        rt = " → ".join(([ctx.sname] if sig["self_mode"] is not None else []) + [lean_ty(t, prec=1) for _, t in sig["params"]]
                        + ["Res " + lean_ty(ctx.res_ty(), True)])
        gl.append(("recf", rt))
    sty = lean_ty(tuple_ty(S), True)
    params = [f"({n} : {t})" for n, t in gl] + [f"({b.lean} : {lean_ty(b.ty)})" for b in caps]
    if self_param is not None and self_param():
        params.append(f"(self : {ctx.sname})")
    if len(S) == 1:
        params.append(f"({S[0].lean} : {lean_ty(S[0].ty)})")
    elif len(S) == 0:
        params.append("(_st : Unit)")
    else:
        params.append(f"(st : {lean_ty(tuple_ty(S))})")
    if item is not None:
        params.append(f"({item[0]} : {lean_ty(item[1])})")
    name = f"{ctx.sname}.{ctx.lname}_{key}"
    rty = lean_ty(ctx.res_ty(), True)
    sig = f"def {name} " + " ".join(params) + f" :\n    Blk {brk_ty_of(sty)} {rty} {sty} := do"
    doc = f"/-- `{ctx.file}`: `{ctx.impl_label}`, fn `{ctx.rfn}` — {what} -/"
    ctx.defs.append(doc + "\n" + sig + "\n" + "\n".join(body) + "\n")
    return " ".join([name] + [n for n, _ in gl] + [b.lean for b in caps])


def mark_state_used(ctx, S):
    for b in S:
        ctx.use(b)


def list_iter(ctx, env, it):
    """the list a `for` iterates over."""
    s = strip_wrappers(it)
    if s[0] == "rangeincl" and ctx.par and s[1] is not None and s[2] is not None:
        hi = compile_expr(ctx, env, s[2], NAT)
        unify(hi.ty, NAT, "range bound")
        if strip_wrappers(s[1]) == ("lit", 0):
            return Val(f"List.range ({hi.code} + 1)", LIST(NAT))
        lo = compile_expr(ctx, env, s[1], NAT)
        unify(lo.ty, NAT, "range bound")
        return Val(f"range {lo.p()} ({hi.code} + 1)", LIST(NAT))
    if s[0] == "range":
        if s[1] is None or s[2] is None:
            raise TErr("an open range in `for` is outside the supported subset")
        hi = compile_expr(ctx, env, s[2], NAT)
        unify(hi.ty, NAT, "range bound")
        lo_ast = strip_wrappers(s[1])
        if lo_ast == ("lit", 0):
            return Val(f"List.range {hi.p()}", LIST(NAT))
        lo = compile_expr(ctx, env, s[1], NAT)
        unify(lo.ty, NAT, "range bound")
        return Val(f"range {lo.p()} {hi.p()}", LIST(NAT))
    v = compile_expr(ctx, env, it)
    t = prune(v.ty)
    if ctx.sinfo.get("extern") and not isinstance(t, TVar):
        # a BTreeSet iterates in ascending order: the ascending list that represents it
        if t == PSET:
            return Val(v.code, LIST(TUP(NAT, NAT)), atomic=v.atomic, stable=v.stable)
        if t[0] == "set":
            unify(t[1], KA, "iterating a set needs its ascending representation")
            return Val(v.code, LIST(NAT), atomic=v.atomic, stable=v.stable)
    if isinstance(t, TVar) or t[0] != "list":
        raise TErr(f"`for .. in {unparse(it)}`: not a list-like iterator (type {show_ty(t)})")
    return v


def is_self_iter(it):
    s = strip_wrappers(it)
    return s == ("var", "self") or (s[0] == "mcall" and s[2] == "by_ref" and not s[4]
                                    and strip_wrappers(s[1]) == ("var", "self"))


def item_param(ctx, pat, ty):
    """parameter name for the loop item and a function binding the pattern inside the body."""
    sp = strip_pref(pat)
    if sp[0] == "pvar" and not sp[2]:
        name = ctx.fresh_name(sp[1])

        def bind(inner):
            check_no_alias_root(inner, sp[1])
            ctx.new_bind(inner, Bind("val", sp[1], lean=name, ty=ty, mut=False, stable=True))
        return name, bind
    if sp[0] == "pwild":
        return "_x", (lambda inner: None)
    name = ctx.fresh_name("x")

    def bind(inner):
        bind_pattern(ctx, inner, pat, Val(name, ty, atomic=True, stable=True), True)
    return name, bind


def compile_for(ctx, env, e):
    pat, it, body = e[1], e[2], e[3]
    sit0 = strip_wrappers(it)
    if ctx.par and sit0[0] == "mcall" and sit0[2] == "zip" and len(sit0[4]) == 1:
        z = strip_wrappers(sit0[4][0])
        sp = strip_pref(pat)
        if z[0] == "mcall" and z[2] == "iter_mut" and not z[4]:
            # `for (a, b) in A.zip(V.iter_mut()) { body }`: `b` is the exclusive reference to `V[i]` for the `i`-th item of
            # `A` (the shorter side ends the loop): the element is read, the body runs on it, it is written back
            vpl = place_of(z[1])
            if sp[0] != "ptup" or len(sp[1]) != 2 or strip_pref(sp[1][1])[0] != "pvar" or vpl is None or vpl[1]:
                raise TErr(f"`for {unparse_pat(pat)} in {unparse(it)}`: expected `for (a, b) in A.zip(v.iter_mut())`")
            if contains_kind(body, ("break", "continue", "return", "try")):
                raise TErr(f"`for .. in {unparse(it)}`: a body that leaves the loop early is outside the supported subset")
            ctx.pipe_n += 1
            idx = f"zi_{ctx.pipe_n}"
            bname = strip_pref(sp[1][1])[1]
            vvar = ("var", vpl[0])
            new_body = [("expr", ("if", ("bin", ">=", ("var", idx), ("mcall", vvar, "len", None, [])),
                                  [("expr", ("break", None), True)], None), True),
                        ("let", ("pvar", bname, True), None, ("un", "*", ("mcall", vvar, "get_unchecked", None, [("var", idx)])), None)] \
                + list(body) + \
                [("expr", ("assign", "=", ("un", "*", ("mcall", vvar, "get_unchecked_mut", None, [("var", idx)])), ("var", bname)), True)]
            return compile_for(ctx, env, ("for", ("ptup", [("pvar", idx, False), sp[1][0]]), ("mcall", sit0[1], "enumerate", None, []), new_body))
    if sit0[0] == "mcall" and sit0[2] == "zip" and len(sit0[4]) == 1 and strip_wrappers(sit0[4][0])[0] == "var":
        rname = strip_wrappers(sit0[4][0])[1]
        rb = env.get(rname)
        rt = prune(rb.ty) if rb is not None and rb.kind == "val" else None
        sp = strip_pref(pat)
        if rt is not None and not isinstance(rt, TVar) and rt[0] == "struct" and (rt[1], "next") in ctx.fntab \
                and sp[0] == "ptup" and len(sp[1]) == 2:
            # `zip` stops at the first `None` of either side; the iterator value is moved into the loop
            rb.mut = True
            new_body = [("let", ("pctor", "Some", [sp[1][1]]), None, ("mcall", ("var", rname), "next", None, []),
                         [("expr", ("break", None), True)])] + body
            return compile_for(ctx, env, ("for", sp[1][0], sit0[1], new_body))
        raise TErr(f"`{unparse(it)}`: `zip` is supported with a generated iterator struct as the argument only")
    key = loop_key(ctx, "for")
    what = f"body of `for {unparse_pat(pat)} in {unparse(it)}`"
    S = state_binds(ctx, env, [("expr", ("for", pat, ("tup", []), body), True)])
    if is_self_iter(it):
        sig = ctx.fntab.get((ctx.sname, "next"))
        if sig is None:
            raise TErr("`for .. in self` before `next` of the same struct is generated")
        if ctx.self_mode != "mut":
            raise TErr("`for .. in self` needs `&mut self`")
        sb = env["self"]
        if any(b is sb for b in S):
            raise TErr("the body of `for .. in self` assigns `self`")
        item_ty = prune(sig["value_ty"])[1]
        iname, ibind = item_param(ctx, pat, item_ty)
        lp = LoopCtx("iter", S)
        inner_self = Bind("val", "self", lean="self", ty=STRUCT(ctx.sname), mut=False, stable=True)

        def build(inner):
            # inside the body `self` is the iterator AFTER the `next` that yielded the item (it is only
            # reachable through `return`, which hands the struct back to the caller)
            ctx.new_bind(inner, inner_self)
            ibind(inner)
            ctx.loops.append(lp)
            _, div = compile_stmts(ctx, inner, body)
            ctx.loops.pop()
            if not div:
                ctx.em.emit(f"pure {tuple_code(S)}")
        app = emit_loop_def(ctx, env, key, what, S, lambda sty: sty, (iname, item_ty), build,
                            self_param=lambda: inner_self.nuse > 0)
        nxt = [f"{ctx.sname}.{sig['lean']}"]
        if sig["g"]:
            ctx.use_global("g")
            nxt.append("g")
        if sig["inf"]:
            ctx.use_global("inf")
            nxt.append("inf")
        if sig["fuel"]:
            ctx.use_global("fuel")
            nxt.append("fuel")
        ctx.use(sb)
        mark_state_used(ctx, S)
        fuel = fuel_code(ctx, env, key)
        tmp = ctx.fresh_tmp()
        comb = "iterLoopS" if inner_self.nuse > 0 else "iterLoop"
        ctx.em.emit(f"let {tmp} ← {comb} ({' '.join(nxt)}) ({app}) {fuel} {sb.lean} {tuple_code(S)}")
        rebind_from(ctx, S, f"{tmp}.1")
        ctx.em.emit(f"let {sb.lean} := {tmp}.2")
        return
    lst = list_iter(ctx, env, it)
    item_ty = prune(lst.ty)[1]
    iname, ibind = item_param(ctx, pat, item_ty)
    lp = LoopCtx("for", S)

    def build(inner):
        ibind(inner)
        ctx.loops.append(lp)
        _, div = compile_stmts(ctx, inner, body)
        ctx.loops.pop()
        if not div:
            ctx.em.emit(f"pure {tuple_code(S)}")
    app = emit_loop_def(ctx, env, key, what, S, lambda sty: sty, (iname, item_ty), build)
    mark_state_used(ctx, S)
    head, tmp = open_bind(ctx, S)
    ctx.em.emit(f"{head}forLoop ({app}) {lst.p()} {tuple_code(S)}")
    if tmp is not None:
        rebind_from(ctx, S, tmp)


def compile_while(ctx, env, e):
    cond, body = e[1], e[2]
    key = loop_key(ctx, "while")
    what = f"one round of `while {unparse(cond)}`"
    S = state_binds(ctx, env, [("expr", e, True)])
    lp = LoopCtx("while", S)

    def build(inner):
        base = ctx.em.indent
        ctx.loops.append(lp)
        if cond[0] == "letcond":
            inner_pat = some_pattern(cond[1])
            if inner_pat is None:
                raise TErr("`while let` is supported for `Some(..)` patterns only")
            code, hook, wrapped = opt_scrutinee(ctx, inner, cond[2])
            name, after = bind_some(ctx, inner_pat, hook, wrapped)
            ctx.em.emit(f"match {code} with")
            ctx.em.emit(f"| none => brk {tuple_code(S)}")
            ctx.em.emit(f"| some {name} =>")
            ctx.em.indent = base + 2
            after(inner)
            _, div = compile_stmts(ctx, inner, body)
            if not div:
                ctx.em.emit(f"pure {tuple_code(S)}")
        else:
            c = compile_cond(ctx, inner, cond)
            ctx.em.emit(f"if {c} then do")
            ctx.em.indent = base + 4
            _, div = compile_stmts(ctx, dict(inner), body)
            if not div:
                ctx.em.emit(f"pure {tuple_code(S)}")
            ctx.em.indent = base
            ctx.em.emit(f"  else brk {tuple_code(S)}")
        ctx.loops.pop()
    app = emit_loop_def(ctx, env, key, what, S, lambda sty: sty, None, build)
    mark_state_used(ctx, S)
    fuel = fuel_code(ctx, env, key)
    head, tmp = open_bind(ctx, S)
    ctx.em.emit(f"{head}whileLoop ({app}) {fuel} {tuple_code(S)}")
    if tmp is not None:
        rebind_from(ctx, S, tmp)


def compile_loop(ctx, env, e, with_value):
    body = e[1]
    key = loop_key(ctx, "loop")
    what = "one round of `loop { .. }`"
    S = state_binds(ctx, env, [body])
    lp = LoopCtx("loop", S)

    def build(inner):
        ctx.loops.append(lp)
        _, div = compile_stmts(ctx, inner, body)
        ctx.loops.pop()
        if not div:
            ctx.em.emit(f"pure {tuple_code(S)}")
    app = emit_loop_def(ctx, env, key, what, S,
                        lambda sty: "(" + lean_ty(lp.value_ty, True) + " × " + sty + ")", None, build)
    mark_state_used(ctx, S)
    fuel = fuel_code(ctx, env, key)
    tmp = ctx.fresh_tmp()
    ctx.em.emit(f"let {tmp} ← loopLoop ({app}) {fuel} {tuple_code(S)}")
    if len(S) == 1:
        ctx.em.emit(f"let {S[0].lean} := {tmp}.2")
    else:
        rebind_from(ctx, S, f"{tmp}.2")
    if not with_value:
        unify(lp.value_ty, UNIT, "value of `loop`")
    return Val(f"{tmp}.1", lp.value_ty, atomic=True, stable=True)


# ============================================================================================
# 6. Functions, files, output
# ============================================================================================
def calls_self_static(node, rfn):
    if isinstance(node, list):
        return any(calls_self_static(x, rfn) for x in node)
    if not isinstance(node, tuple) or not node:
        return False
    if node[0] == "call" and node[1] == ("path", ["Self", rfn]):
        return True
    return any(calls_self_static(x, rfn) for x in node[1:] if isinstance(x, (tuple, list)))


def calls_self_method(node, rfn):
    if isinstance(node, list):
        return any(calls_self_method(x, rfn) for x in node)
    if not isinstance(node, tuple) or not node:
        return False
    if node[0] == "mcall" and node[2] == rfn and strip_wrappers(node[1]) == ("var", "self"):
        return True
    return any(calls_self_method(x, rfn) for x in node[1:] if isinstance(x, (tuple, list)))


def rust_ty(text, ctx_struct, aliases, bounds):
    """model type of a Rust type text (blanks removed)."""
    t = text.replace(" ", "")
    t = re.sub(r"^&'[a-z_]+(?=[A-Z\[(])", "&", t)        # `&'a T` with the blanks removed
    t = re.sub(r"^&(?:'\w+)?(?:mut)?", "", t)
    sinfo = STRUCTS[ctx_struct]
    if t in bounds:
        return bounds[t]
    if t == "W" and ctx_struct in ("DistanceMatrix", "AdjacencyListWeighted"):
        return INT      # the weight type of the typed model
    if t == "usize":
        return NAT
    if t == "isize":
        return INT
    if t == "u64":
        return U64
    if t == "f64":
        return F64U if STRUCTS[ctx_struct].get("f64_unit") else F64
    m = re.match(r"\[(.+);\d+\]\Z", t)
    if m:
        return LIST(rust_ty(m.group(1), ctx_struct, aliases, bounds))
    if t == "bool":
        return BOOL
    if t == "Self":
        return STRUCT(ctx_struct)
    if t == "Self::Item":
        if sinfo["item"] is None:
            raise TErr("`Self::Item` in a struct without an item type in the typed model")
        return sinfo["item"][1]
    if t in aliases:
        return rust_ty(aliases[t], ctx_struct, aliases, bounds)
    if t == "BTreeMap<usize,usize>":
        return MAP
    if t == "BTreeMap<usize,W>":
        return LIST(TUP(NAT, INT))
    if t == "BTreeSet<usize>":
        return SET(KA) if STRUCTS[ctx_struct].get("extern") else SET(TVar())
    if t == "_":
        return TVar()
    m = re.match(r"(?:Arc|Mutex|ManuallyDrop)<(.*)>\Z", t)
    if m:
        return rust_ty(m.group(1), ctx_struct, aliases, bounds)     # sharing / direct access (DESIGN.md 4.2)
    m = re.match(r"implIterator<Item=(.*)>\Z", t)
    if m:
        # a returned iterator is the list of the items it yields (they are computed when it is consumed)
        return LIST(rust_ty(m.group(1), ctx_struct, aliases, bounds))
    m = re.match(r"(Option|Vec|VecDeque)<(.*)>\Z", t)
    if m:
        inner = rust_ty(m.group(2), ctx_struct, aliases, bounds)
        return OPT(inner) if m.group(1) == "Option" else LIST(inner)
    m = re.match(r"\[(.*)\]\Z", t)
    if m:
        return LIST(rust_ty(m.group(1), ctx_struct, aliases, bounds))
    if t.startswith("(") and t.endswith(")"):
        parts = [x for x in split_top(t[1:-1], ",") if x]
        return TUP(*[rust_ty(x, ctx_struct, aliases, bounds) for x in parts])
    m = re.match(r"(\w+)(?:<.*>)?\Z", t)
    if m and m.group(1) in STRUCTS:
        return STRUCT(m.group(1))
    raise TErr(f"type `{text}` is outside the typed model")


def parse_bounds(ret_text, ctx_struct, aliases):
    """`where` clause: T: Iterator<Item = usize> [+ Clone] -> list; F: Fn(&A, &B) -> bool -> function."""
    out = {}
    if "where" not in ret_text:
        return out
    w = ret_text.split("where", 1)[1]
    for part in split_top(w, ","):
        part = squeeze(part)
        if not part:
            continue
        m = re.match(r"(\w+)\s*:\s*(.+)\Z", part)
        if not m:
            raise TErr(f"cannot read the bound `{part}`")
        name, bound = m.group(1), m.group(2).replace(" ", "")
        mi = re.match(r"Iterator<Item=(.+?)>(\+Clone)?\Z", bound)
        if mi:
            out[name] = LIST(rust_ty(mi.group(1), ctx_struct, aliases, {}))
            continue
        mi = re.match(r"IntoIterator<Item=(.+)>\Z", bound)
        if mi:
            out[name] = LIST(rust_ty(mi.group(1), ctx_struct, aliases, {}))
            continue
        mf = re.match(r"Fn\((.*)\)->(.+)\Z", bound)
        if mf:
            args = [rust_ty(x, ctx_struct, aliases, {}) for x in split_top(mf.group(1), ",") if x]
            out[name] = ("fn", args, rust_ty(mf.group(2), ctx_struct, aliases, {}))
            continue
        if name == "D":
            continue      # the digraph: its kind is fixed by the typed model (`graph`), checked below
        if name == "W" and bound in ("Copy", "Clone") and ctx_struct in ("AdjacencyListWeighted", "DistanceMatrix"):
            continue      # the weight type: `Int` in the typed model, copying it is not observable
        raise TErr(f"bound `{part}` is outside the typed model")
    return out


def check_graph_bounds(sname, region):
    """the digraph kind of the typed model must agree with the trait bounds used in the file."""
    kind = STRUCTS[sname]["graph"]
    if kind not in ("Graph", "WGraph"):
        return
    weighted = bool(re.search(r"\b(OutNeighborsWeighted|ArcsWeighted)\b", region))
    if kind == "Graph" and weighted:
        raise TErr(f"{sname}: the file uses weighted digraph traits but the typed model says `Graph`")
    if kind == "WGraph" and not weighted:
        raise TErr(f"{sname}: the file uses no weighted digraph trait but the typed model says `WGraph`")


def file_aliases(region):
    return {m.group(1): m.group(2).replace(" ", "") for m in re.finditer(r"^type\s+(\w+)\s*=\s*([^;]+);", region, re.M)}


def desugar(n):
    """syntactic rewrites of iterator adaptors with a block closure into the loops they run (bottom up)."""
    if isinstance(n, list):
        return [desugar(x) for x in n]
    if not isinstance(n, tuple):
        return n
    n = tuple(desugar(x) for x in n)
    if n and n[0] == "if" and n[1][0] == "letcond" and n[1][1][0] == "pctor" and n[1][1][1] == "Some" \
            and len(n[1][1][2]) == 1 and n[1][1][2][0][0] == "prefmut":
        # `if let Some(ref mut it) = PLACE { if let Some(p) = it.next() { S } }` where `it` iterates a set / slice (the list of
        # the remaining items): `next()` takes the first item off; the exclusive reference `it` writes through to PLACE
        x = n[1][1][2][0][1]
        place = n[1][2]
        th = n[2]
        ok = n[3] is None and len(th) == 1 and th[0][0] == "expr" and th[0][1][0] == "if" and th[0][1][1][0] == "letcond" \
            and th[0][1][3] is None
        if ok:
            inner = th[0][1]
            scr = strip_wrappers(inner[1][2])
            ok = scr[0] == "mcall" and scr[2] == "next" and not scr[4] and strip_wrappers(scr[1]) == ("var", x)
        if not ok:
            raise TErr("`if let Some(ref mut it) = ..`: only `{ if let Some(p) = it.next() { .. } }` is supported inside")
        wb = ("expr", ("assign", "=", place, ("call", ("var", "Some"), [("var", x)])), True)
        new_inner = ("if", ("letcond", inner[1][1], ("mcall", ("var", x), "pop_front", None, [])), [wb] + list(inner[2]), None)
        return ("if", ("letcond", ("pctor", "Some", [("pvar", x, True)]), place), [("expr", new_inner, th[0][2])], None)
    if n and n[0] == "mcall" and n[2] == "fold" and len(n[4]) == 2 and n[4][1][0] == "closure":
        # `it.fold(init, |mut acc, pat| { stmts; acc })` = `{ let mut acc = init; for pat in it { stmts } acc }`
        # (`Iterator::fold` calls the closure once per item, in order, handing the result on)
        init, lam = n[4]
        ps, body = lam[1], lam[2]
        acc = strip_pref(ps[0]) if len(ps) == 2 else None
        ok = (acc is not None and acc[0] == "pvar" and acc[2] and body[0] == "block" and body[1]
              and body[1][-1] == ("expr", ("var", acc[1]), False))
        if not ok:
            raise TErr(f"`{unparse(n)}`: only `.fold(init, |mut acc, pat| {{ ..; acc }})` is supported")
        return ("block", [("let", ("pvar", acc[1], True), None, init, None),
                          ("expr", ("for", ps[1], n[1], list(body[1][:-1])), True),
                          ("expr", ("var", acc[1]), False)])
    return n


def translate_fn(sname, trait, rfn, lname, opts, params_text, ret_text, body_text, fntab, aliases):
    ctx = Ctx(sname, rfn, lname, fntab, aliases)
    ctx.par = bool(opts.get("par"))
    ctx.low = bool(opts.get("low"))
    CUR["graph"] = STRUCTS[sname]["graph"] or "Graph"
    if trait == "@free":
        ctx.impl_label = "free function of the file"
    elif trait == "@default":
        ctx.impl_label = f"trait {sname}: {STRUCTS[sname]['trait_default']} (default method)"
    elif trait and trait.startswith("@"):
        mname, src = trait[1:].split(":")
        ctx.impl_label = f"impl From<{src}> for {sname} (macro {mname}!)"
    else:
        ctx.impl_label = f"impl {trait} for {sname}" if trait else f"impl {sname}"
    bounds = parse_bounds(ret_text, sname, aliases)
    ret_only = squeeze(ret_text.split("where", 1)[0]).strip()
    if not ret_only.startswith("->"):
        if ret_only:
            raise TErr(f"cannot read the return type `{ret_only}`")
        ctx.value_ty = UNIT
    else:
        ret_rust = ret_only[2:].strip()
        ctx.value_ty = opts.get("ret") or rust_ty(ret_rust, sname, aliases, bounds)
    env = {}
    params = []
    for part in split_top(params_text, ","):
        part = squeeze(part)
        if not part:
            continue
        if part in ("&mut self", "&self", "self", "mut self"):
            if part in ("self", "mut self") and not (part == "self" and opts.get("byval")):
                raise TErr("a by-value `self` receiver is outside the supported subset")
            ctx.self_mode = "mut" if part == "&mut self" else "ref"
            ctx.names.add("self")
            ctx.new_bind(env, Bind("val", "self", lean="self", ty=STRUCT(sname), mut=False, stable=False))
            continue
        m = re.match(r"(mut\s+)?(\w+)\s*:\s*(.+)\Z", part)
        if not m:
            raise TErr(f"cannot read the parameter `{part}`")
        mut, name, ty = bool(m.group(1)), m.group(2), m.group(3).replace(" ", "")
        if re.match(r"&(?:'\w+)?D\Z", ty):
            if STRUCTS[sname]["graph"] is None:
                raise TErr("a digraph parameter in a struct without digraph")
            if ctx.self_mode is None:
                ctx.new_bind(env, Bind("graph", name))      # the constructor's digraph: the parameter `g`
                continue
            lean = ctx.fresh_name(name)
            ctx.new_bind(env, Bind("val", name, lean=lean, ty=GRAPH_T, mut=False, stable=True))
            params.append((lean, GRAPH_T, name))
            continue
        mm = re.match(r"&mut(.+)\Z", ty)
        if mm:
            # a `&mut T` parameter: an ordinary mutable variable whose final value is returned with the result
            t = rust_ty(mm.group(1), sname, aliases, bounds)
            lean = ctx.fresh_name(name)
            ctx.new_bind(env, Bind("val", name, lean=lean, ty=t, mut=True, stable=False))
            params.append((lean, t, name))
            ctx.mutrefs.append(name)
            ctx.mutref_tys[name] = t
            continue
        t = rust_ty(ty, sname, aliases, bounds)
        lean = ctx.fresh_name(name)
        ctx.new_bind(env, Bind("val", name, lean=lean, ty=t, mut=mut, stable=not mut))
        params.append((lean, t, name))
    stmts = parse_body(body_text)
    if STRUCTS[sname].get("extern") or ctx.low:
        stmts = desugar(stmts)
    if ctx.low:
        def scan(n):
            if isinstance(n, list):
                for x in n:
                    scan(x)
            elif isinstance(n, tuple) and n:
                if n[0] == "mcall" and n[2] == "set_len" and strip_wrappers(n[1])[0] == "var":
                    ctx.rawbufs.add(strip_wrappers(n[1])[1])
                for x in n[1:]:
                    if isinstance(x, (tuple, list)):
                        scan(x)
        scan(stmts)
    collect_ptr_aliases(stmts, ctx.ptr_alias)
    # a self-recursive method: structural recursion on fuel; the loop bodies get the recursive
    # function (already applied to the smaller fuel) as the parameter `recf`
    ctx.recursive = calls_self_method(stmts, rfn) or (ctx.par and ctx.self_mode is None and calls_self_static(stmts, rfn))
    if ctx.recursive:
        if ctx.self_mode is None and not ctx.par:
            raise TErr("recursion is supported for methods only")
        fntab[(sname, rfn)] = dict(lean=lname, g=False, inf=False, fuel=True, self_mode=ctx.self_mode,
                                   params=[(n, t) for _, t, n in params], value_ty=ctx.value_ty, rec=True,
                                   mutrefs=list(ctx.mutrefs))
    ctx.em = Emitter(4 if ctx.recursive else 2)
    if opts.get("refpos"):
        # `fn index_mut(&mut self, i) -> &mut T { &mut self.v[E] }`: the returned reference is the element at the CHECKED
        # position `E` (panic out of bounds); the generated value is that position - the caller's write is `v.set pos x`
        ok = len(stmts) == 1 and stmts[0][0] == "expr" and not stmts[0][2]
        if ok:
            b0 = strip_wrappers(stmts[0][1])
            ok = b0[0] == "un" and b0[1] == "&" and strip_wrappers(b0[2])[0] == "index"
        if not ok:
            raise TErr("expected a body of the form `&mut PLACE[INDEX]`")
        ix = strip_wrappers(b0[2])
        base = compile_expr(ctx, env, ix[1])
        unify(base.ty, LIST(TVar()), "indexed value")
        iv = compile_expr(ctx, env, ix[2], NAT)
        unify(iv.ty, NAT, "index")
        tmp0 = ctx.fresh_tmp()
        ctx.em.emit(f"let {tmp0} ← idxPos {base.p()} {iv.p()}")
        stmts = []
        val, div = Val(tmp0, NAT, atomic=True), False
    else:
        val, div = compile_stmts(ctx, env, stmts, want_value=True)
    if not div:
        if val is None:
            if prune(ctx.value_ty) != UNIT:
                raise TErr("the function body has no tail value")
            val = Val("()", UNIT, atomic=True)
        unify(val.ty, ctx.value_ty, "value of the function body")
        ctx.em.emit(f"pure {ctx.result(env, val)}")
    top = ctx.frames[0]
    gl = []
    if "ap" in top.globals:
        gl.append(("ap", "Nat"))
    if "g" in top.globals:
        gl.append(("g", lean_ty(GRAPH_T)))
    if "inf" in top.globals:
        gl.append(("inf", lean_ty(ctx.sinfo["sentinel"])))
    if "fuel" in top.globals:
        gl.append(("fuel", "Nat"))
    name = f"{sname}.{lname}"
    doc = f"/-- `{ctx.file}`: `{ctx.impl_label}`, fn `{rfn}` -/"
    if ctx.recursive:
        gl = [x for x in gl if x[0] != "fuel"]
        ps = [f"({n} : {t})" for n, t in gl]
        arg_tys = ([sname] if ctx.self_mode is not None else []) + [lean_ty(t, prec=1) for _, t, _ in params]
        pats = (["self"] if ctx.self_mode is not None else []) + [lean for lean, _, _ in params]
        rty = f"Res {lean_ty(ctx.res_ty(), True)}"
        recapp = " ".join([name] + [n for n, _ in gl] + ["fuel"])
        sig = (f"def {name} " + " ".join(ps) + (" " if ps else "") + ": Nat → " + " → ".join(arg_tys) + f" →\n    {rty}\n"
               + "  | 0, " + ", ".join("_" for _ in pats) + " => .error .div\n"
               + "  | fuel + 1, " + ", ".join(pats) + " => fnBody do\n"
               + f"    let recf := {recapp}")
        doc = doc[:-3] + " (recursive: structural recursion on fuel, `div` when it runs out) -/"
    else:
        ps = [f"({n} : {t})" for n, t in gl]
        if ctx.self_mode is not None:
            ps.append(f"(self : {STRUCTS[sname].get('extern', sname)})")
        ps += [f"({lean} : {lean_ty(t)})" for lean, t, _ in params]
        sig = f"def {name}" + "".join(" " + x for x in ps) + f" :\n    Res {lean_ty(ctx.res_ty(), True)} := fnBody do"
    text = "\n".join(ctx.defs) + ("\n" if ctx.defs else "") + doc + "\n" + sig + "\n" + "\n".join(ctx.em.lines) + "\n"
    text = resolve_types(text)
    fntab[(sname, rfn)] = dict(lean=lname, g="g" in top.globals, inf="inf" in top.globals,
                               fuel=ctx.recursive or "fuel" in top.globals, ap="ap" in top.globals,
                               self_mode=ctx.self_mode, params=[(n, t) for _, t, n in params], value_ty=ctx.value_ty,
                               rec=ctx.recursive, mutrefs=list(ctx.mutrefs),
                               ndefs=len(ctx.defs) + 1,
                               defs=[re.match(r"def (\S+)", l).group(1) for l in text.splitlines() if l.startswith("def ")])
    return text


HEADER = '''import GraafVerif.Model.AlgoGenRt
/-!
# GENERATED by tools/translate_algo.py from {repo}/src/algo/*.rs — do not edit

Imperative-Rust-subset → pure-Lean translation of the algorithm files (third translator tie,
`docs/AlgoGen.md`).  Every definition below is re-derived from the Rust source on each run of the
checks that use it; `Thm/AlgoGen.lean` proves each of them equal to the hand-written model function
(`Model/Bfs.lean`, `Model/Dfs.lean`, `Model/PredTree.lean`, `Model/Dijkstra.lean`, `Model/Bfm.lean`,
`Model/Fw.lean`) that the property theorems are about.  Runtime: `Model/AlgoGenRt.lean`.
-/
set_option linter.unusedVariables false
namespace GraafVerif.AlgoGen

'''


def extern_decl(sname):
    """the field list of a representation struct as a structure `<Name>Decl` (the fields under their Rust names)"""
    info = STRUCTS[sname]
    lines = [f"/-- `{info['dir']}/{info['file']}`: `pub struct {sname}` — the field list as declared in the source; the generated "
             f"functions use the hand-written `{info['extern']}` (the same fields: `{sname}Decl.toRepr`, `Proof/AlgoGen6.lean`). -/",
             f"structure {sname}Decl where"]
    for f, rt, ty in info["fields"]:
        lines.append(f"  {f} : {lean_ty(ty)}")
    lines.append("  deriving DecidableEq, Repr")
    return "\n".join(lines) + "\n"


def struct_decl(sname):
    info = STRUCTS[sname]
    note = " (the digraph reference is the parameter `g` of the functions)" if info["graph"] else ""
    fpath = info["file"] if "dir" not in info else info["dir"] + "/" + info["file"]
    lines = [f"/-- `{fpath}`: `{'struct ' + info['rust'] if 'rust' in info else 'pub struct ' + sname}`{note}. -/",
             f"structure {sname} where"]
    for f, rt, ty in info["fields"]:
        if ty is None:
            continue
        lines.append(f"  {f} : {lean_ty(ty)}")
    lines.append("  deriving DecidableEq, Repr")
    return "\n".join(lines) + "\n"


def structs_of(targets):
    """the structs a target list needs (with the structs their fields contain), in table order"""
    need = {r[0] for r in targets}
    for r in targets:
        if r[1] and r[1].startswith("@") and ":" in r[1]:
            need.add(r[1].split(":")[1])
    grew = True
    while grew:
        grew = False
        for sname in list(need):
            for _, _, ty in STRUCTS[sname]["fields"]:
                if ty is not None and ty[0] == "struct" and ty[1] not in need:
                    need.add(ty[1])
                    grew = True
    return [sname for sname in STRUCTS if sname in need]


MACRO_RE = re.compile(r"^macro_rules!\s+(\w+)\s*\{", re.M)


def macro_impls(region, sname):
    """`macro_rules! m { ($type:ty[, $weight:ty]) => { impl From<$type> for <sname>[<$weight>] { fn from(..) {..} } }; }`
    expanded textually for every invocation `m!(T[, W]);`: [("@m:T", {fn name: (params, ret, body)})].
    Invocations with the same first argument (the two weight types of the weighted list) must expand to the
    same text up to the weight type; they are one entry."""
    out = []
    for m in MACRO_RE.finditer(region):
        name = m.group(1)
        end = match_close(region, m.end(), "{", "}")
        body = region[m.end():end - 1]
        mm = re.match(r"\s*\(([^)]*)\)\s*=>\s*\{", body)
        if not mm:
            continue
        params = [x.strip().split(":")[0] for x in mm.group(1).split(",") if x.strip()]
        inner_end = match_close(body, mm.end(), "{", "}")
        inner = body[mm.end():inner_end - 1]
        if not re.search(r"impl\s+From<\$type>\s+for\s+" + sname + r"\b", inner):
            continue
        seen = {}
        for inv in re.finditer(r"^" + name + r"!\(([^)]*)\);", region, re.M):
            args = [x.strip() for x in inv.group(1).split(",")]
            if len(args) != len(params):
                raise TErr(f"macro {name}: invocation with {len(args)} argument(s), {len(params)} expected")
            text = inner
            for pn, a in zip(params, args):
                text = text.replace(pn, a)
            impls = impl_blocks(text.strip(), sname)
            if len(impls) != 1 or impls[0][0] != "From":
                raise TErr(f"macro {name}: the expansion is not a single `impl From<..> for {sname}`")
            fns = fns_of(impls[0][1])
            key = f"@{name}:{args[0]}"
            norm = {k: tuple(squeeze(x) for x in v) for k, v in fns.items()}
            if key in seen:
                a0, n0 = seen[key]
                strip_w = lambda d, w: {k: tuple(x.replace(w, "W") for x in v) for k, v in d.items()}
                if len(args) < 2 or strip_w(norm, args[1]) != strip_w(n0, a0[1]):
                    raise TErr(f"macro {name}: two invocations for {args[0]} expand differently")
                continue
            seen[key] = (args, norm)
            out.append((key, fns))
    return out


def load(repo, targets):
    """per struct: (region, [(trait, fns)], aliases); checks the struct declaration against the typed model."""
    out = {}
    for sname in structs_of(targets):
        info = STRUCTS[sname]
        path = os.path.join(repo, "src", info.get("dir", "algo"), info["file"])
        region = non_test_region(open(path).read())
        if info.get("trait_default"):
            mt = re.search(r"^pub\s+trait\s+" + sname + r"\s*:\s*([\w\s+]+?)\s*\{", region, re.M)
            if not mt:
                raise TErr(f"{info['file']}: `pub trait {sname}: ..` not found")
            if squeeze(mt.group(1)) != info["trait_default"]:
                raise TErr(f"{info['file']}: trait {sname} has the supertraits `{squeeze(mt.group(1))}`, the model expects `{info['trait_default']}`")
            tend = match_close(region, mt.end(), "{", "}")
            out[sname] = (region, [("@default", fns_of(region[mt.end():tend - 1]))], file_aliases(region))
            continue
        got = struct_fields(region, info.get("rust", sname))
        want = [(f, rt) for f, rt, _ in info["fields"]]
        if got != want:
            raise TErr(f"{info['file']}: struct {sname} has fields {got}, the typed field model expects {want}")
        aliases = file_aliases(region)
        blocks = []
        for trait, b in impl_blocks(region, info.get("rust", sname)):
            fns = fns_of(b)
            hdr = IMPL_HEADERS.get(id(b), "")
            if "where" in hdr:
                w = hdr.split("where", 1)[1].rstrip("{").strip().rstrip(",")
                fns = {k: (v[0], v[1] + (" where " + w if "where" not in v[1] else ", " + w), v[2]) for k, v in fns.items()}
            # associated types of the impl (`type Weight = W;`): `Self::Weight` in a signature is that type (`Item` is
            # checked against the typed model separately)
            for ma in re.finditer(r"^\s*type\s+(\w+)\s*=\s*([^;]+);", b, re.M):
                if ma.group(1) != "Item":
                    pat = re.compile(r"\bSelf\s*::\s*" + ma.group(1) + r"\b")
                    fns = {k: (pat.sub(squeeze(ma.group(2)), v[0]), pat.sub(squeeze(ma.group(2)), v[1]), v[2]) for k, v in fns.items()}
            blocks.append((trait, fns))
            mg = re.match(r"impl(?:<[^>{}]*>)?\s+(\w+<[^{};]*>)\s+for\s", hdr)
            if mg:
                BLOCK_LABEL[id(fns)] = squeeze(mg.group(1)).replace(" ", "")
            if mg and any(r[0] == sname and r[1] == squeeze(mg.group(1)).replace(" ", "") for r in targets):
                blocks.append((squeeze(mg.group(1)).replace(" ", ""), fns))     # `impl Trait<Args> for ..` named with its arguments
        blocks += macro_impls(region, sname)
        if any(r[0] == sname and r[1] == "@free" for r in targets):
            blocks.append(("@free", free_fns(region)))
        if info["item"] is not None:
            items = [squeeze(m.group(1)).replace(" ", "") for tr, b in impl_blocks(region, info.get("rust", sname)) if tr == "Iterator"
                     for m in re.finditer(r"type\s+Item\s*=\s*([^;]+);", b)]
            if len(items) != 1:
                raise TErr(f"{info['file']}: `type Item` of `impl Iterator for {sname}` not found")
            it = aliases.get(items[0], items[0])
            if it != info["item"][0]:
                raise TErr(f"{info['file']}: `type Item` is `{it}`, the typed model expects `{info['item'][0]}`")
        if info["graph"] is not None:
            check_graph_bounds(sname, region)
        out[sname] = (region, blocks, aliases)
    return out


HEADER2 = '''import GraafVerif.Model.AlgoGenRt2
/-!
# GENERATED by tools/translate_algo.py --set 2 from {repo}/src — do not edit

Second generated file of the imperative-Rust-subset → pure-Lean translator (`docs/AlgoGen.md`,
"Set 2"): `src/algo/tarjan.rs`, `src/algo/johnson_75.rs` and the `From` conversions of
`src/repr/*/mod.rs`.  `Thm/AlgoGen2.lean` proves every definition below equal to the hand-written
model function (`Model/Tarjan.lean`, `Model/Johnson.lean`, `Model/Conv.lean`) that the property
theorems C09, C10, C16 are about.  Runtime: `Model/AlgoGenRt.lean`, `Model/AlgoGenRt2.lean`.
-/
set_option linter.unusedVariables false
namespace GraafVerif.AlgoGen

'''

HEADER3 = '''import GraafVerif.Model.AlgoGenRt3
/-!
# GENERATED by tools/translate_algo.py --set 3 from {repo}/src — do not edit

Third generated file of the imperative-Rust-subset → pure-Lean translator (`docs/AlgoGen.md`,
"Set 3"): the PRNGs of `src/gen/prng`, the sequential seeded generators and the sequential
operations of `src/repr/*/mod.rs`.  `Thm/AlgoGen3.lean` proves every definition below equal to the
hand-written model function (`Model/Rand.lean`, `Model/Ops.lean`) that the property theorems C15,
C11 are about.  Runtime: `Model/AlgoGenRt.lean`, `Model/AlgoGenRt2.lean`, `Model/AlgoGenRt3.lean`.
-/
set_option linter.unusedVariables false
namespace GraafVerif.AlgoGen

'''

HEADER4 = '''import GraafVerif.Model.AlgoGenRt4
/-!
# GENERATED by tools/translate_algo.py --set 4 from {repo}/src — do not edit

Fourth generated file of the imperative-Rust-subset → pure-Lean translator (`docs/AlgoGen.md`,
"Set 4"): the PARALLEL functions of `src/repr/adjacency_list/mod.rs` and
`src/repr/adjacency_map/mod.rs` under the reading of DESIGN.md §4.2 — `available_parallelism()` is
the parameter `ap`, a spawned closure is executed to completion at its spawn point (spawn order),
`scope` / `join` are no-op barriers, `Arc` is sharing, `Mutex::lock` is direct access, a `Relaxed`
`AtomicBool` is a plain Boolean cell.  `Thm/AlgoGen4.lean` proves every definition below equal to the
hand-written model function with the explicit thread count that C17 (and the threaded parts of
C02 / C11 / C12 / C14 / C15) are about.  Runtime: `Model/AlgoGenRt.lean` .. `Model/AlgoGenRt4.lean`.
-/
set_option linter.unusedVariables false
namespace GraafVerif.AlgoGen

'''

HEADER5 = '''import GraafVerif.Model.AlgoGenRt5
/-!
# GENERATED by tools/translate_algo.py --set 5 from {repo}/src — do not edit

Fifth generated file of the imperative-Rust-subset → pure-Lean translator (`docs/AlgoGen.md`, "Set 5"): the
remaining functions with unchecked accesses — the bit operations of `AdjacencyMatrix`, the hand-rolled
iterators (`next` on an explicit iterator state), the pointer walks of `has_walk` / `is_tournament`, the
`unwrap_unchecked` of `AdjacencyMap::out_neighbors`, `DistanceMatrix::new` (`with_capacity` + `ptr::write` +
`set_len`).  `Thm/AlgoGen5.lean` proves every definition below equal to the hand-written model function.
Runtime: `Model/AlgoGenRt.lean` .. `Model/AlgoGenRt5.lean`.
-/
set_option linter.unusedVariables false
namespace GraafVerif.AlgoGen

'''

HEADER6 = '''import GraafVerif.Model.AlgoGenRt6
/-!
# GENERATED by tools/translate_algo.py --set 6 from {repo}/src — do not edit

Sixth generated file of the imperative-Rust-subset → pure-Lean translator (`docs/AlgoGen.md`, "Set 6"): the
function bodies that no earlier set regenerates — `AdjacencyList::indegree_sequence` (`*ptr.add(v) += 1`),
the `add_arc` / `add_arc_weighted` of `AdjacencyMap`, `EdgeList`, `AdjacencyListWeighted`, `FloydWarshall::new`,
the four wrappers of `PredecessorTree`, the default method of `ContiguousOrder`.  `Thm/AlgoGen6.lean` proves
every definition below equal to the hand-written model function.  Runtime: `Model/AlgoGenRt.lean` ..
`Model/AlgoGenRt6.lean`.
-/
set_option linter.unusedVariables false
namespace GraafVerif.AlgoGen

'''

SETS = {}
GEN_ROWS = {}


def translate(repo, which=1):
    TVar.counter = 0
    TVARS.clear()
    targets, header = SETS[which]
    ext = {}
    if which == 4:
        # the generated definitions of set 3 that set 4 calls (the PRNG, `AdjacencyMap::complement`): their signatures
        ext = translate(repo, 3)[2]
        TVar.counter = 0
        TVARS.clear()
    if which == 6:
        # `FloydWarshall::new` calls the generated `DistanceMatrix::new` of set 5
        ext = {k: v for k, v in translate(repo, 5)[2].items() if k[0] == "DistanceMatrix"}
        TVar.counter = 0
        TVARS.clear()
    GEN_ROWS.clear()
    srcs = load(repo, targets + ([(d, None, None, None, {}) for d in DECLS6] if which == 6 else []))
    fntab = dict(ext)
    for r in targets:
        if (r[0], r[2]) in fntab:
            raise TErr(f"{r[0]}::{r[2]} is generated by an earlier set too")
    out = [header.replace("{repo}", repo)]
    if which == 6:
        out += [extern_decl(d) for d in DECLS6]      # `load` has checked each declaration against the typed field model
    declared = set()
    for sname, trait, rfn, lname, opts in targets:
        if which == 5 and sname == "DistanceMatrix":
            declared.add(sname)
        if which == 6:
            declared.update(SET6_DECLARED_EARLIER)
        if sname not in declared and "extern" not in STRUCTS[sname]:
            for f, rt, ty in STRUCTS[sname]["fields"]:
                if ty is not None and ty[0] == "struct" and ty[1] not in declared and "extern" not in STRUCTS[ty[1]]:
                    out.append(struct_decl(ty[1]))
                    declared.add(ty[1])
            out.append(struct_decl(sname))
            declared.add(sname)
        region, blocks, aliases = srcs[sname]
        try:
            cands = [fns for tr, fns in blocks if tr == trait and rfn in fns]
            if not cands:
                raise TErr("impl / fn not found")
            if len(cands) > 1:
                raise TErr("more than one matching impl")
            params, ret, body = cands[0][rfn]
            out.append(translate_fn(sname, trait, rfn, lname, opts, params, ret, body, fntab, aliases))
            GEN_ROWS[(sname, trait, rfn)] = fntab[(sname, rfn)]
        except TErr as e:
            raise TErr(f"{STRUCTS[sname]['file']}: {trait or 'inherent'}::{rfn}: {e}")
    out.append("end GraafVerif.AlgoGen\n")
    text = "\n".join(out)
    body_only = text.split("-/", 1)[1]
    for tok in FORBIDDEN:
        if tok in body_only:
            raise TErr(f"generated text would contain the forbidden token {tok!r}")
    return text, srcs, fntab


BLOCK_LABEL = {}     # id(fns of an impl block) -> `Trait<Args>` (display only: coverage table of set 5)


def coverage(srcs, fntab, which=1):
    targets = SETS[which][0]
    targeted = {(r[0], r[1], r[2]): r[3] for r in targets}
    rows = []
    for sname in STRUCTS:
        if (sname == "DistanceMatrix" and which != 5) or sname not in srcs or sname not in {r[0] for r in targets}:
            continue
        _, blocks, _ = srcs[sname]
        for trait, fns in blocks:
            full = BLOCK_LABEL.get(id(fns)) if which >= 5 else None
            if full and trait != full and any((sname, full, fn) in targeted for fn in fns):
                continue                      # the same block is listed under its name with arguments
            for fn in fns:
                k = (sname, trait, fn)
                if full and k not in targeted:
                    k = (sname, full, fn)
                if k in targeted:
                    sig = GEN_ROWS[k]
                    aux = [d for d in sig["defs"] if d != f"{sname}.{targeted[k]}"]
                    note = f"`AlgoGen.{sname}.{targeted[k]}`" + (" + " + ", ".join(f"`{a.split('.', 1)[1]}`" for a in aux) if aux else "")
                    rows.append((sname, trait, fn, "covered", note))
                elif which == 6:
                    continue                  # set 6 lists its targets only: the other functions of these files are in sets 1 - 5
                elif k in (NOT_COVERED3 if which == 3 else NOT_COVERED):
                    rows.append((sname, trait, fn, "not covered", (NOT_COVERED3 if which == 3 else NOT_COVERED)[k]))
                elif "extern" not in STRUCTS[sname]:
                    rows.append((sname, k[1], fn, "not targeted", ""))
    return rows


def coverage_md(rows):
    lines = ["| file | impl | fn | status | generated defs / reason |", "|---|---|---|---|---|"]
    for r in rows:
        fn = STRUCTS[r[0]]["file"] if "dir" not in STRUCTS[r[0]] else STRUCTS[r[0]]["dir"] + "/" + STRUCTS[r[0]]["file"]
        if r[1] == "@free":
            label = "(free fn)"
        elif r[1] == "@default":
            label = f"trait {r[0]} (default method)"
        elif r[1] and r[1].startswith("@"):
            label = f"impl From<{r[1].split(':')[1]}> for {r[0]} ({r[1][1:].split(':')[0]}!)"
        else:
            rn = STRUCTS[r[0]].get("rust", r[0])
            label = ("impl " + r[1] + " for " + rn) if r[1] else "impl " + rn
        lines.append(f"| `{fn}` | `{label}` | `{r[2]}` | {r[3]} | {r[4]} |")
    return "\n".join(lines)


def main():
    root = os.path.dirname(os.path.dirname(os.path.abspath(__file__)))
    SETS[1] = (TARGETS, HEADER)
    SETS[2] = (TARGETS2, HEADER2)
    SETS[3] = (TARGETS3, HEADER3)
    SETS[4] = (TARGETS4, HEADER4)
    SETS[5] = (TARGETS5, HEADER5)
    SETS[6] = (TARGETS6, HEADER6)
    ap = argparse.ArgumentParser()
    ap.add_argument("--repo", default="/repo")
    ap.add_argument("--set", type=int, default=1, choices=sorted(SETS),
                    help="1: Model/AlgoGen.lean (src/algo traversals / shortest paths); 2: Model/AlgoGen2.lean (tarjan, johnson_75, "
                         "From conversions); 3: Model/AlgoGen3.lean (PRNGs, sequential generators, sequential operations)")
    ap.add_argument("--out", default=None)
    ap.add_argument("--check", action="store_true", help="exit 3 if the file on disk differed (it is rewritten)")
    ap.add_argument("--list", action="store_true", help="print the coverage table")
    ap.add_argument("--stdout", action="store_true", help="print the generated text instead of writing it")
    ap.add_argument("--write-docs", nargs="?", const=os.path.join(root, "docs", "AlgoGen.md"), default=None,
                    help="rewrite the coverage table between the COVERAGE markers of docs/AlgoGen.md")
    a = ap.parse_args()
    if a.out is None:
        a.out = os.path.join(root, "lean", "GraafVerif", "Model", "AlgoGen.lean" if a.set == 1 else f"AlgoGen{a.set}.lean")
    try:
        text, srcs, fntab = translate(a.repo, a.set)
    except (TErr, OSError, ValueError, KeyError, IndexError, AttributeError, TypeError) as e:
        print(f"translate_algo: ERROR {type(e).__name__ if not isinstance(e, TErr) else ''} {e}".replace("  ", " "))
        sys.exit(2)
    if a.stdout:
        print(text)
        return
    rows = coverage(srcs, fntab, a.set)
    ndefs = sum(s["ndefs"] for s in GEN_ROWS.values())
    cov = [r for r in rows if r[3] == "covered"]
    ncv = [r for r in rows if r[3] == "not covered"]
    if a.list:
        print(coverage_md(rows))
    if a.write_docs:
        tag = "" if a.set == 1 else str(a.set)
        begin = f"<!-- COVERAGE{tag}:BEGIN (written by tools/translate_algo.py --write-docs) -->"
        end = f"<!-- COVERAGE{tag}:END -->"
        doc = open(a.write_docs).read() if os.path.exists(a.write_docs) else f"# AlgoGen\n\n{begin}\n{end}\n"
        if begin not in doc or end not in doc:
            doc += f"\n{begin}\n{end}\n"
        pre, rest = doc.split(begin, 1)
        post = rest.split(end, 1)[1]
        open(a.write_docs, "w").write(pre + begin + "\n" + coverage_md(rows) + "\n" + end + post)
    old = open(a.out).read() if os.path.exists(a.out) else None
    norm = lambda s: re.sub(r"GENERATED by tools/translate_algo.py (--set \d+ )?from \S+", "GENERATED", s) if s else s
    summary = (f"set {a.set}: " if a.set != 1 else "") + f"{len(cov)} functions covered ({ndefs} definitions), {len(ncv)} candidate(s) not covered"
    if norm(old) != norm(text):
        open(a.out, "w").write(text)
        print(f"translate_algo: regenerated {a.out} (content changed): {summary}")
        if a.check:
            sys.exit(3)
    else:
        print(f"translate_algo: up to date: {summary}")


if __name__ == "__main__":
    main()
