#!/usr/bin/env python3
"""C13 site inventory (DESIGN.md §4.4, tie part 3).

Lists every line of non-test code in <repo>/src that contains one of the tokens

    unsafe  get_unchecked  .add(  ptr::read  set_len  unwrap_unchecked
    ManuallyDrop  assume_init  from_raw_parts

with file, enclosing `impl`/`fn`, normalised text and an occurrence index, and compares the
list with `lean/model_map_c13.json`, the inventory the Lean `Chk` models were written against
(each site mapped to the Lean definition / theorem that covers it, or to "tie-only").

    c13_inventory.py list  [repo]            print the current inventory as JSON
    c13_inventory.py check [repo] [map]      print differences; exit 1 when there are any
    c13_inventory.py regen [repo] [map]      rewrite the map keeping the `cover` of known keys
                                             (new sites get cover "UNMAPPED": edit by hand)

Key of a site = file | impl::fn | normalised text | occurrence index among equal
(file, fn, text) triples, so a pure line-number shift changes nothing, while a new, removed,
edited or moved (to another fn) site is reported.
"""
import json
import os
import re
import sys

TOKENS = re.compile(
    r"\bunsafe\b|get_unchecked|\.add\(|ptr::read|set_len|unwrap_unchecked|ManuallyDrop|assume_init|from_raw_parts")
HERE = os.path.dirname(os.path.abspath(__file__))
DEFAULT_MAP = os.path.join(os.path.dirname(HERE), "lean", "model_map_c13.json")

FN_RE = re.compile(r"\bfn\s+([A-Za-z_][A-Za-z0-9_]*)")
IMPL_RE = re.compile(r"^\s*(?:unsafe\s+)?impl\b(.*)$")
MOD_RE = re.compile(r"^\s*(?:pub(?:\([a-z]+\))?\s+)?mod\s+([A-Za-z_][A-Za-z0-9_]*)\s*\{")


def strip_code(line, state):
    """Remove comments, string and char literals from one line. `state` carries an open
    block comment / string across lines: {'block': depth, 'str': bool}."""
    out = []
    i, n = 0, len(line)
    while i < n:
        if state["block"]:
            if line.startswith("*/", i):
                state["block"] -= 1
                i += 2
            elif line.startswith("/*", i):
                state["block"] += 1
                i += 2
            else:
                i += 1
            continue
        if state["str"]:
            if line[i] == "\\":
                i += 2
            elif line[i] == '"':
                state["str"] = False
                out.append('"')
                i += 1
            else:
                i += 1
            continue
        c = line[i]
        if line.startswith("//", i):
            break
        if line.startswith("/*", i):
            state["block"] += 1
            i += 2
            continue
        if c == '"':
            state["str"] = True
            out.append('"')
            i += 1
            continue
        if c == "'":
            # char literal 'x' / '\n' / '\u{..}' versus lifetime 'a
            m = re.match(r"'(\\.[^']*|[^\\'])'", line[i:])
            if m:
                out.append("' '")
                i += m.end()
                continue
        out.append(c)
        i += 1
    return "".join(out)


def norm_impl(header):
    h = re.sub(r"\s+", " ", header.strip())
    h = re.sub(r"\s*\{\s*$", "", h)
    h = re.sub(r"\bwhere\b.*$", "", h).strip()
    # drop the generic parameter list right after `impl`
    if h.startswith("<"):
        depth = 0
        for k, ch in enumerate(h):
            if ch == "<":
                depth += 1
            elif ch == ">":
                depth -= 1
                if depth == 0:
                    h = h[k + 1:].strip()
                    break
    return h


def scan_file(path, rel, bodies=None):
    sites = []
    state = {"block": 0, "str": False}
    depth = 0
    ctx = []  # (kind, name, depth-at-open)
    pending = None  # (kind, name) seen, waiting for its `{`
    skip_until = None  # depth to return to while inside a test module
    cfg_test = False
    impl_buf = None
    with open(path, encoding="utf-8") as f:
        lines = f.read().split("\n")
    for ln, raw in enumerate(lines, 1):
        code = strip_code(raw, state)
        s = code.strip()
        if skip_until is None and re.match(r"^\s*macro_rules!\s+(test_|proptest_)\w*\s*\{", code):
            skip_until = depth  # exported test macros: bodies of unit / property tests, not library code
        if skip_until is None:
            if s.startswith("#[cfg(test)]"):
                cfg_test = True
            elif s and not s.startswith("#["):
                if cfg_test:
                    m = MOD_RE.match(code)
                    if m:
                        skip_until = depth
                    elif re.match(r"^\s*(pub(\([a-z]+\))?\s+)?mod\s+\w+\s*;", code):
                        pass  # out-of-line test module (fixture.rs): file skipped by name
                    elif FN_RE.search(code) or IMPL_RE.match(code):
                        # a test-only item in non-test scope: skip its body
                        skip_until = depth
                    cfg_test = False
        if skip_until is None:
            if impl_buf is not None:
                impl_buf += " " + s
                if "{" in s:
                    pending = ("impl", norm_impl(impl_buf.split("{", 1)[0]))
                    impl_buf = None
            else:
                mi = IMPL_RE.match(code)
                if mi and depth == len([c for c in ctx if c[0] == "mod"]):
                    if "{" in code:
                        pending = ("impl", norm_impl(mi.group(1).split("{", 1)[0]))
                    else:
                        impl_buf = mi.group(1)
                else:
                    mf = FN_RE.search(code)
                    if mf and not s.startswith("//") and ("(" in code or "<" in code):
                        # closures / fn pointers types (`fn(usize)`) have no name and do not match
                        pending = ("fn", mf.group(1))
                    else:
                        mm = MOD_RE.match(code)
                        if mm:
                            pending = ("mod", mm.group(1))
            impl = next((c[1] for c in reversed(ctx) if c[0] == "impl"), "")
            fns = [c[1] for c in ctx if c[0] == "fn"]
            if pending and pending[0] == "fn":
                fns = fns + [pending[1]]
            fn = "::".join(fns) if fns else "<item>"
            if bodies is not None and fns and s:
                bodies.setdefault((rel, impl, fn), []).append(re.sub(r"\s+", " ", s))
            if TOKENS.search(code):
                text = re.sub(r"\s+", " ", s)
                sites.append({"file": rel, "impl": impl, "fn": fn, "text": text, "line": ln})
        # brace bookkeeping
        for ch in code:
            if ch == "{":
                if pending and skip_until is None:
                    ctx.append((pending[0], pending[1], depth))
                    pending = None
                depth += 1
            elif ch == "}":
                depth -= 1
                while ctx and ctx[-1][2] >= depth:
                    ctx.pop()
                if skip_until is not None and depth <= skip_until:
                    skip_until = None
            elif ch == ";" and pending and pending[0] == "fn" and skip_until is None:
                pending = None  # trait method declaration without body
    return sites


def inventory(repo, bodies=None):
    src = os.path.join(repo, "src")
    sites = []
    for base, dirs, files in os.walk(src):
        dirs.sort()
        for fn in sorted(files):
            if not fn.endswith(".rs") or fn in ("fixture.rs", "proptest_strategy.rs"):
                continue
            p = os.path.join(base, fn)
            sites.extend(scan_file(p, os.path.relpath(p, repo), bodies))
    occ = {}
    for s in sites:
        k = (s["file"], s["impl"], s["fn"], s["text"])
        s["occ"] = occ.get(k, 0)
        occ[k] = s["occ"] + 1
        s["key"] = f"{s['file']} | {s['impl']}::{s['fn']} | {s['text']} | {s['occ']}"
    return sites


def function_hashes(repo):
    """sha1 of the normalised text (comments stripped, blanks collapsed) of every function that contains
    a site: an edit anywhere in such a function — e.g. a removed `assert!` that guards an unchecked
    access — is a change of the code the models were written against, even if no site line moved."""
    import hashlib
    bodies = {}
    sites = inventory(repo, bodies)
    # Round 2: EVERY non-test function is pinned, not only the unsafe-bearing ones: the unchecked accesses rely on
    # invariants that SAFE code establishes (`From` validators, `add_arc` asserts, generators); weakening such a
    # validator introduces unsafety without touching any site or any unsafe-bearing function.
    unsafe_fns = {(s["file"], s["impl"], s["fn"]) for s in sites if s["fn"] != "<item>"}
    return {f"{k[0]} | {k[1]}::{k[2]}" + ("" if k in unsafe_fns else " [safe]"):
            hashlib.sha1("\n".join(v).encode()).hexdigest()[:16] for k, v in bodies.items()}


def load_map(path):
    with open(path) as f:
        return json.load(f)


def compare(repo, map_path):
    """Returns a list of human-readable differences (empty = the models still describe the source)."""
    cur = inventory(repo)
    try:
        mm = load_map(map_path)
    except (OSError, ValueError) as e:
        return [f"cannot read {map_path}: {e}"]
    known = {s["key"]: s for s in mm["sites"]}
    curk = {s["key"]: s for s in cur}
    diffs = []
    for k, s in curk.items():
        if k not in known:
            diffs.append(f"new or changed site {s['file']}:{s['line']} in {s['impl']}::{s['fn']}: `{s['text']}`")
        elif known[k].get("cover") in (None, "", "UNMAPPED"):
            diffs.append(f"site without cover {s['file']}:{s['line']} in {s['impl']}::{s['fn']}: `{s['text']}`")
        elif known[k].get("cover_generated") in (None, "", "UNMAPPED"):
            diffs.append(f"site without cover_generated {s['file']}:{s['line']} in {s['impl']}::{s['fn']}: `{s['text']}`")
    for k, s in known.items():
        if k not in curk:
            diffs.append(f"site of the model inventory no longer in the source: {s['file']} (was line {s.get('line')}) "
                         f"{s['impl']}::{s['fn']}: `{s['text']}`")
    fh = function_hashes(repo)
    for k, h in mm.get("functions", {}).items():
        if k in fh and fh[k] != h:
            what = ("body of a safe function changed (it may establish an invariant unchecked accesses rely on)"
                    if k.endswith(" [safe]") else
                    "body of an unsafe-bearing function changed (guards of its unchecked accesses may have)")
            diffs.append(f"{what}: {k}")
        elif k not in fh:
            diffs.append(f"function of the model inventory no longer in the source: {k}")
    for k in fh:
        if k not in mm.get("functions", {}):
            diffs.append(f"new function (not in the model inventory): {k}")
    return diffs


def rule_cover_generated(s):
    """`cover_generated` of a site: the C13Gen theorem on the source-regenerated definition, or why there is none."""
    import importlib.util
    spec = importlib.util.spec_from_file_location("c13_cover_rules", os.path.join(HERE, "c13_cover_rules.py"))
    mod = importlib.util.module_from_spec(spec)
    spec.loader.exec_module(mod)
    for fsub, fnre, textre, cover in mod.RULES_GEN:
        if fsub in s["file"] and re.search(fnre, s["impl"] + "::" + s["fn"]) and re.search(textre, s["text"]):
            return cover
    return "UNMAPPED"


def rule_cover(s):
    """Cover of a site by the rule table tools/c13_cover_rules.py (only used when (re)generating the map)."""
    import importlib.util
    spec = importlib.util.spec_from_file_location("c13_cover_rules", os.path.join(HERE, "c13_cover_rules.py"))
    mod = importlib.util.module_from_spec(spec)
    spec.loader.exec_module(mod)
    for fsub, fnre, textre, cover in mod.RULES:
        if fsub in s["file"] and re.search(fnre, s["impl"] + "::" + s["fn"]) and re.search(textre, s["text"]):
            return cover
    return "UNMAPPED"


def regen(repo, map_path):
    cur = inventory(repo)
    old = {}
    if os.path.exists(map_path):
        old = {s["key"]: s for s in load_map(map_path)["sites"]}
    out = []
    for s in cur:
        o = old.get(s["key"])
        cover = o["cover"] if o else None
        if cover is None or cover.startswith("tie-only (pending)") or cover == "UNMAPPED":
            cover = rule_cover(s)
        cg = o.get("cover_generated") if o else None
        if not cg or cg == "UNMAPPED":
            cg = rule_cover_generated(s)
        out.append({"key": s["key"], "file": s["file"], "impl": s["impl"], "fn": s["fn"], "text": s["text"],
                    "occ": s["occ"], "line": s["line"], "cover": cover, "cover_generated": cg})
    doc = {"comment": "C13 site inventory the Chk models were written against; regenerate with tools/c13_inventory.py regen; "
                      "`cover` = Lean theorem(s) covering the site or `tie-only: <why>`; `line` is informative only",
           "repo_head": os.popen(f"git -C {repo} rev-parse --short HEAD 2>/dev/null").read().strip(),
           "functions": function_hashes(repo),
           "sites": out}
    with open(map_path, "w") as f:
        json.dump(doc, f, indent=1)
        f.write("\n")
    return out


def main():
    cmd = sys.argv[1] if len(sys.argv) > 1 else "check"
    repo = sys.argv[2] if len(sys.argv) > 2 else os.environ.get("GVERIF_REPO", "/repo")
    map_path = sys.argv[3] if len(sys.argv) > 3 else DEFAULT_MAP
    if cmd == "list":
        json.dump(inventory(repo), sys.stdout, indent=1)
        print()
    elif cmd == "regen":
        out = regen(repo, map_path)
        un = [s for s in out if s["cover"] == "UNMAPPED"]
        print(f"{len(out)} sites written to {map_path}; {len(un)} UNMAPPED")
        for s in un:
            print("  UNMAPPED", s["key"])
    else:
        d = compare(repo, map_path)
        for x in d:
            print(x)
        print(f"{len(inventory(repo))} sites, {len(d)} difference(s)")
        sys.exit(1 if d else 0)


if __name__ == "__main__":
    main()
