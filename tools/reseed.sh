#!/bin/bash
# tools/reseed.sh <seed-name> [Cxx]  — re-run a kept seeded change against the current checks:
# scratch worktree of /repo under /tmp/reseed, apply seeded/<name>/patch.diff, GVERIF_REPO ./check, remove everything again.
name=$1; pid=${2:-${name%%-*}}
wt=/tmp/reseed/$name/repo
rm -rf /tmp/reseed/$name; mkdir -p /tmp/reseed/$name
git -C /repo worktree add --detach $wt >/dev/null 2>&1 || { echo "cannot add worktree"; exit 2; }
git -C $wt apply /verif/seeded/$name/patch.diff || { echo "cannot apply"; exit 2; }
cd /verif && GVERIF_REPO=$wt ./check $pid 2>&1 | grep -E "^VIOLATION|^KNOWN-FINDING|held on everything" | cut -c1-220
rp=$(ls -t /verif/replays-alt/$pid-*.json 2>/dev/null | head -1)
[ -n "$rp" ] && python3 - "$rp" <<'P'
import json,sys
j=json.load(open(sys.argv[1])); print("  replay:", j.get("kind"), str(j.get("input"))[:160], "|", str(j.get("verdict"))[:160])
P
h=$(python3 -c "import hashlib;print(hashlib.sha1('$wt'.encode()).hexdigest()[:10])")
rm -rf /verif/harness-alt/$h
git -C /repo worktree remove --force $wt; rm -rf /tmp/reseed/$name; git -C /repo worktree prune
sed -i 's#from /tmp/[A-Za-z0-9_/.-]*/repo/#from /repo/#' /verif/lean/GraafVerif/Model/*Gen*.lean
