#!/usr/bin/env python3
"""tools/keep_seed.py <round dir: /tmp/seed|/tmp/seed2> <Cxx> <n> : copy a confirmed seeded change into
/verif/seeded/<Cxx>-r<round>-<n>/ (patch.diff, demo/, meta.json) with what was run and what the checks reported."""
import json, os, shutil, sys, glob
rd, pid, n = sys.argv[1], sys.argv[2], sys.argv[3]
import re as _re
_m = _re.search(r"seed(\d*)$", rd.rstrip("/")); rnd = (_m.group(1) or "1") if _m else "1"
src = f"{rd}/{pid}/out"
dst = f"/verif/seeded/{pid}-r{rnd}-{n}"
os.makedirs(dst, exist_ok=True)
shutil.copy(f"{src}/change{n}.diff", f"{dst}/patch.diff")
demo = f"{src}/demo{n}"
if os.path.isdir(demo):
    if os.path.isdir(f"{dst}/demo"): shutil.rmtree(f"{dst}/demo")
    shutil.copytree(demo, f"{dst}/demo", ignore=shutil.ignore_patterns("target", "Cargo.lock"))
meta = {}
mf = f"{src}/meta{n}.json"
if os.path.exists(mf):
    try: meta = json.load(open(mf))
    except Exception: meta = {"raw": open(mf).read()[:2000]}
out = {"property": pid, "round": int(rnd), "change": int(n),
       "summary": meta.get("summary"), "needs": meta.get("needs"),
       "observable_difference": meta.get("observable_difference"), "why_property_still_holds": meta.get("why_property_still_holds"),
       "seeder_reported": {k: meta.get(k) for k in ("suite", "demo_with_change", "demo_without_change") if k in meta},
       "confirmed_by_coordinator": {}, "checks": {}}
for f in sorted(glob.glob(f"{rd}/confirm_{pid}_{n}.json") + glob.glob(f"{rd}/check_{pid}_{n}.json") + glob.glob(f"{rd}/recheck*_{pid}_{n}.json")):
    try: r = json.load(open(f))
    except Exception: continue
    if "suite_with_change" in r:
        out["confirmed_by_coordinator"] = {"ran": f"git apply patch.diff in a scratch worktree of /repo; cargo test --offline --workspace --no-fail-fast; cargo run --offline in demo/ with and without the change",
            "suite_with_change": r.get("suite_with_change"), "demo_with_change": r.get("demo_with_change"), "demo_without_change": r.get("demo_without_change")}
    for c, v in r.get("checks", {}).items():
        out["checks"].setdefault(c, []).append({"ran": f"GVERIF_REPO=<worktree with the change> ./check {c} --tier quick", "exit": v["exit"], "lines": v["lines"], "replay": v["replay"], "seconds": v["s"], "source": os.path.basename(f)})
json.dump(out, open(f"{dst}/meta.json", "w"), indent=1)
print(dst, "checks:", {c: [x["exit"] for x in v] for c, v in out["checks"].items()})
