#!/usr/bin/env python3
"""tools/seedtest.py <Cxx> <n> [--confirm] [--checks C03,C05] [--tier quick]
Apply seed change n of property Cxx in its scratch worktree (/tmp/seed/Cxx/repo), optionally confirm it
(builds, full suite passes, demo fails with / passes without), run the checks against that tree
(GVERIF_REPO), undo the change, print a JSON summary (also appended to /tmp/seed/results.jsonl)."""
import json, os, subprocess, sys, time
pid, n = sys.argv[1], sys.argv[2]
confirm = "--confirm" in sys.argv
checks = [pid]
tier = "quick"
for i, a in enumerate(sys.argv):
    if a == "--checks": checks = [] if sys.argv[i + 1] == "none" else sys.argv[i + 1].split(",")
    if a == "--tier": tier = sys.argv[i + 1]
_r = [a[7:] for a in sys.argv if a.startswith("--round")]
rdir = "/tmp/seed" + (_r[0] if _r and _r[0] != "1" else "")
base = f"{rdir}/{pid}"
wt = f"{base}/repo"
diff = f"{base}/out/change{n}.diff"
env = dict(os.environ, CARGO_NET_OFFLINE="true", RUST_BACKTRACE="0")
def run(cmd, cwd=None, timeout=3600, extra=None):
    e = dict(env, **(extra or {}))
    p = subprocess.run(cmd, cwd=cwd, env=e, capture_output=True, text=True, timeout=timeout, shell=isinstance(cmd, str), executable="/bin/bash" if isinstance(cmd, str) else None)
    return p.returncode, p.stdout + p.stderr
res = {"property": pid, "change": n, "checks": {}}
rc, out = run(["git", "-C", wt, "status", "--short"])
if out.strip():
    run(["git", "-C", wt, "checkout", "--", "."])
rc, out = run(["git", "-C", wt, "apply", diff])
if rc != 0:
    print("cannot apply", diff, out); sys.exit(2)
try:
    if confirm:
        t0 = time.time()
        rc, out = run("cargo test --offline --workspace --no-fail-fast 2>&1 | grep -E '^test result|warning: unused|^error' ", cwd=wt, timeout=3000)
        res["suite_with_change"] = out.strip().splitlines()
        demo = f"{base}/out/demo{n}"
        def dep_ok(d):
            import re
            try: m = re.search(r'graaf\s*=\s*\{[^}]*path\s*=\s*"([^"]+)"', open(f"{d}/Cargo.toml").read())
            except OSError: return False
            return bool(m) and os.path.isdir(os.path.join(d, m.group(1)))
        if not dep_ok(demo) and dep_ok(f"{base}/demo{n}"):
            demo = f"{base}/demo{n}"          # some seeders left the buildable copy beside out/
        res["demo_dir"] = demo
        mode = []
        if os.path.isdir(demo):
            runner = "sh run.sh" if os.path.isfile(f"{demo}/run.sh") else "cargo run --offline --quiet"
            rc2, out = run(f"{runner} 2>&1 | tail -5; exit ${{PIPESTATUS[0]}}", cwd=demo, timeout=2400)
            rc2, _ = run(f"{runner} >/dev/null 2>&1", cwd=demo, timeout=2400)
            if rc2 == 0 and runner.startswith("cargo"):
                # release-only manifestation (debug_assert! side effects, wrapping arithmetic)
                mode = ["--release"]
                rc2, out2 = run("cargo run --offline --quiet --release 2>&1 | tail -5", cwd=demo, timeout=2400)
                rc2, _ = run("cargo run --offline --quiet --release >/dev/null 2>&1", cwd=demo, timeout=2400)
                out = out2
            res["demo_with_change"] = {"exit": rc2, "mode": "release" if mode else "dev", "tail": out.strip()[-400:]}
        res["confirm_s"] = round(time.time() - t0)
    for c in checks:
        t0 = time.time()
        rc, out = run(["./check", c, "--tier", tier], cwd="/verif", timeout=3000, extra={"GVERIF_REPO": wt})
        lines = [l for l in out.splitlines() if l.startswith("VIOLATION") or l.startswith("KNOWN-FINDING")]
        rep = None
        for l in lines:
            if l.startswith("VIOLATION") and "replay=" in l:
                rp = l.split("replay=")[1].split()[0]
                try:
                    j = json.load(open(rp)); rep = {k: j.get(k) for k in ("kind", "input", "verdict", "model_output", "failures", "mask") if k in j}
                    if rep.get("input") and len(rep["input"]) > 400: rep["input"] = rep["input"][:400] + "…"
                except Exception as e:
                    rep = {"error": str(e)}
                break
        res["checks"][c] = {"exit": rc, "lines": [l[:200] for l in lines], "replay": rep, "s": round(time.time() - t0)}
finally:
    run(["git", "-C", wt, "apply", "-R", diff])
    # the translators name the repo they read in the header of the generated files: put /repo back (content is
    # re-derived from the tree under test at the start of every check anyway)
    run("sed -i 's#from /tmp/[A-Za-z0-9_/-]*/repo/#from /repo/#' /verif/lean/GraafVerif/Model/*Gen*.lean")
    # the patched harness copy + its build output for this scratch repo (≈0.5–3 GB): remove at once
    import hashlib, shutil
    shutil.rmtree(os.path.join("/verif/harness-alt", hashlib.sha1(wt.encode()).hexdigest()[:10]), ignore_errors=True)
    if confirm and res.get("demo_dir") and os.path.isdir(res["demo_dir"]):
        demo = res["demo_dir"]
        rel = " --release" if res.get("demo_with_change", {}).get("mode") == "release" else ""
        runner = "sh run.sh" if os.path.isfile(f"{demo}/run.sh") else f"cargo run --offline --quiet{rel}"
        rc3, out = run(f"{runner} 2>&1 | tail -3", cwd=demo, timeout=2400)
        rc3, _ = run(f"{runner} >/dev/null 2>&1", cwd=demo, timeout=2400)
        res["demo_without_change"] = {"exit": rc3, "tail": out.strip()[-300:]}
print(json.dumps(res, indent=1))
open(f"{rdir}/results.jsonl", "a").write(json.dumps(res) + "\n")
