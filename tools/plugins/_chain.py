"""Helper for property plugins that chain the translator ties (OpsGen for src/op, ReprGen for src/repr)."""
import importlib.util
import os


def _load(name):
    spec = importlib.util.spec_from_file_location(name, os.path.join(os.path.dirname(__file__), name + ".py"))
    m = importlib.util.module_from_spec(spec)
    spec.loader.exec_module(m)
    return m


_ops = _load("_opsgen")
_repr = _load("_reprgen")


def pre_build_both(ctx):
    return _ops.pre_build(ctx) + _repr.pre_build(ctx)


def pre_build_repr(ctx):
    return _repr.pre_build(ctx)


def pre_checks_repr(ctx):
    return _repr.pre_checks(ctx)
