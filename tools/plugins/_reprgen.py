"""For the C01 / C02 / C12 plugins: regenerate Model/ReprGen.lean from the repo's src/repr/*/mod.rs
(+ the blanket impls src/op/degree.rs, src/op/semidegree_sequence.rs) — the per-representation translator tie.

Chain it in a property plugin like `_opsgen`:

    _r = <load tools/plugins/_reprgen.py>
    def pre_build(ctx): return _opsgen.pre_build(ctx) + _r.pre_build(ctx)

and add "GraafVerif.Thm.ReprGen" to the property's `thm_module` list and the theorems of
props/ReprGen.json to its `theorems`, so that the regenerated definitions are re-checked."""
import os
import subprocess


def pre_build(ctx):
    tool = os.path.join(ctx["root"], "tools", "translate_repr.py")
    out = os.path.join(ctx["lean"], "GraafVerif", "Model", "ReprGen.lean")
    p = subprocess.run(["python3", tool, "--repo", ctx["repo"], "--out", out], capture_output=True, text=True)
    msg = (p.stdout + p.stderr).strip()
    if p.returncode == 2:
        # a targeted method left the translatable subset: the generated model cannot be produced -> broken tie
        return [f"ERROR translate_repr could not translate {ctx['repo']}/src/repr: {msg}"]
    if p.returncode != 0:
        return [f"ERROR translate_repr failed (exit {p.returncode}): {msg}"]
    # one summary line (the per-impl coverage lines are in docs/ReprGen.md)
    lines = msg.splitlines()
    return [lines[-1] if lines else "translate_repr: no output"]


def pre_checks(ctx):
    """Every generated definition must have its equality theorem `<ns>.<name>_eq` listed in props/ReprGen.json
    (a method added to the translator's TARGETS without a theorem would be an untied definition)."""
    import json
    import re
    gen = os.path.join(ctx["lean"], "GraafVerif", "Model", "ReprGen.lean")
    props = os.path.join(ctx["root"], "props", "ReprGen.json")
    try:
        thms = set(json.load(open(props))["theorems"])
        ns, missing = None, []
        for line in open(gen):
            m = re.match(r"namespace (AL|AM|MX|EL|WL)$", line.strip())
            if m:
                ns = m.group(1)
            m = re.match(r"def (\w+)", line)
            if m and ns and f"GraafVerif.ReprGenThm.{ns}.{m.group(1)}_eq" not in thms:
                missing.append(f"{ns}.{m.group(1)}")
    except OSError as e:
        return [f"ReprGen: {e}"]
    return [f"ReprGen: generated definitions without an equality theorem: {' '.join(missing)}"] if missing else []
