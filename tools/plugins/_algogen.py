"""For the C03 .. C08 / C19 plugins: regenerate Model/AlgoGen.lean from the repo's src/algo/*.rs - the
imperative-Rust -> Lean translator tie (tools/translate_algo.py, docs/AlgoGen.md).

Chain it in a property plugin like `_opsgen` / `_reprgen`:

    _a = <load tools/plugins/_algogen.py>
    def pre_build(ctx):  return _a.pre_build(ctx)          # (+ whatever the plugin already returns)
    def pre_checks(ctx): return _a.pre_checks(ctx)

and add "GraafVerif.Thm.AlgoGen" to the property's `thm_module` list and the theorems of
props/AlgoGen.json to its `theorems`, so that the regenerated definitions are re-checked (a changed
comparison / dropped statement in a covered function then breaks a PROOF)."""
import json
import os
import re
import subprocess


def pre_build(ctx):
    tool = os.path.join(ctx["root"], "tools", "translate_algo.py")
    out = os.path.join(ctx["lean"], "GraafVerif", "Model", "AlgoGen.lean")
    p = subprocess.run(["python3", tool, "--repo", ctx["repo"], "--out", out], capture_output=True, text=True)
    msg = (p.stdout + p.stderr).strip()
    if p.returncode == 2:
        # a targeted function left the translatable subset (or cannot be located): the generated
        # model cannot be produced -> broken tie
        return [f"ERROR translate_algo could not translate {ctx['repo']}/src/algo: {msg}"]
    if p.returncode != 0:
        return [f"ERROR translate_algo failed (exit {p.returncode}): {msg}"]
    lines = msg.splitlines()
    return [lines[-1] if lines else "translate_algo: no output"]


def generated_defs(path):
    """fully qualified suffixes `Struct.fn` of the definitions of the generated file"""
    return [m.group(1) for m in re.finditer(r"^def (\S+)", open(path).read(), re.M)]


def pre_checks(ctx):
    """Every generated definition `X.f` must have its equality theorem `GraafVerif.AlgoGenThm.X.f_eq`
    listed in props/AlgoGen.json (a function added to the translator's TARGETS without a theorem
    would be an untied definition)."""
    gen = os.path.join(ctx["lean"], "GraafVerif", "Model", "AlgoGen.lean")
    props = os.path.join(ctx["root"], "props", "AlgoGen.json")
    try:
        thms = set(json.load(open(props))["theorems"])
        missing = [d for d in generated_defs(gen) if f"GraafVerif.AlgoGenThm.{d}_eq" not in thms]
    except (OSError, ValueError, KeyError) as e:
        return [f"AlgoGen: {e}"]
    return [f"AlgoGen: generated definitions without an equality theorem: {' '.join(missing)}"] if missing else []
