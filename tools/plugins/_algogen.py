"""For the C01 .. C19 plugins: regenerate Model/AlgoGen.lean (set 1: src/algo traversals, shortest
paths, predecessor tree), Model/AlgoGen2.lean (set 2: tarjan.rs, johnson_75.rs, the From conversions),
Model/AlgoGen3.lean (set 3: the PRNGs, the sequential seeded generators, the sequential operations) and
Model/AlgoGen4.lean (set 4: the eight parallel functions under the reading of DESIGN.md 4.2) and
Model/AlgoGen5.lean (set 5: the remaining functions with unchecked accesses: bit operations, hand-rolled iterators,
pointer walks, DistanceMatrix::new) and Model/AlgoGen6.lean (set 6: the function bodies no earlier set regenerated -
AdjacencyList::indegree_sequence, the add_arc of the map / edge list / weighted list, FloydWarshall::new, the wrappers of
PredecessorTree, the default method of ContiguousOrder - and the field lists of the five representation structs) from the repo - the imperative-Rust -> Lean translator tie (tools/translate_algo.py, docs/AlgoGen.md).

Chain it in a property plugin like `_opsgen` / `_reprgen`:

    _a = <load tools/plugins/_algogen.py>
    def pre_build(ctx):  return _a.pre_build(ctx)          # (+ whatever the plugin already returns)
    def pre_checks(ctx): return _a.pre_checks(ctx)

and add "GraafVerif.Thm.AlgoGen" (C03..C08, C19) resp. "GraafVerif.Thm.AlgoGen2" (C09, C10, C16) resp.
"GraafVerif.Thm.AlgoGen3" (C11, C15) resp. "GraafVerif.Thm.AlgoGen4" (C17; threaded parts of C02, C11, C12, C14, C15) resp.
"GraafVerif.Thm.AlgoGen5" (C01, C02, C12, C13, C18) resp. "GraafVerif.Thm.AlgoGen6" (C01, C02, C05, C08, C13, C16, C19, C20) to the
property's `thm_module` list and the theorems of props/AlgoGen.json resp. props/AlgoGen2.json resp.
props/AlgoGen3.json resp. props/AlgoGen4.json resp. props/AlgoGen5.json resp. props/AlgoGen6.json to its `theorems`, so that the regenerated definitions are re-checked (a changed comparison / dropped statement in a
covered function then breaks a PROOF)."""
import json
import os
import re
import subprocess


FILES = [(1, "AlgoGen.lean", "AlgoGen.json"), (2, "AlgoGen2.lean", "AlgoGen2.json"), (3, "AlgoGen3.lean", "AlgoGen3.json"),
         (4, "AlgoGen4.lean", "AlgoGen4.json"), (5, "AlgoGen5.lean", "AlgoGen5.json"), (6, "AlgoGen6.lean", "AlgoGen6.json")]


def pre_build(ctx):
    """regenerate Model/AlgoGen.lean (set 1) .. Model/AlgoGen6.lean (set 6) from ctx["repo"]"""
    tool = os.path.join(ctx["root"], "tools", "translate_algo.py")
    notes = []
    for which, lean, _ in FILES:
        out = os.path.join(ctx["lean"], "GraafVerif", "Model", lean)
        p = subprocess.run(["python3", tool, "--repo", ctx["repo"], "--set", str(which), "--out", out],
                           capture_output=True, text=True)
        msg = (p.stdout + p.stderr).strip()
        if p.returncode == 2:
            # a targeted function left the translatable subset (or cannot be located): the generated
            # model cannot be produced -> broken tie
            notes.append(f"ERROR translate_algo (set {which}) could not translate {ctx['repo']}/src: {msg}")
        elif p.returncode != 0:
            notes.append(f"ERROR translate_algo (set {which}) failed (exit {p.returncode}): {msg}")
        else:
            lines = msg.splitlines()
            notes.append(lines[-1] if lines else "translate_algo: no output")
    return notes


def generated_defs(path):
    """fully qualified suffixes `Struct.fn` of the definitions of a generated file"""
    return [m.group(1) for m in re.finditer(r"^def (\S+)", open(path).read(), re.M)]


def pre_checks(ctx):
    """Every generated definition `X.f` (of the six files) must have its equality theorem
    `GraafVerif.AlgoGenThm.X.f_eq` listed in props/AlgoGen.json resp. AlgoGen2.json .. AlgoGen6.json (a function
    added to the translator's TARGETS without a theorem would be an untied definition)."""
    out = []
    for which, lean, props_name in FILES:
        gen = os.path.join(ctx["lean"], "GraafVerif", "Model", lean)
        props = os.path.join(ctx["root"], "props", props_name)
        try:
            thms = set(json.load(open(props))["theorems"])
            missing = [d for d in generated_defs(gen) if f"GraafVerif.AlgoGenThm.{d}_eq" not in thms]
        except (OSError, ValueError, KeyError) as e:
            out.append(f"AlgoGen (set {which}): {e}")
            continue
        if missing:
            out.append(f"AlgoGen (set {which}): generated definitions without an equality theorem: {' '.join(missing)}")
    return out
