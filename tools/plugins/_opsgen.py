"""Shared by the C02 and C12 plugins: regenerate Model/OpsGen.lean from the repo's src/op (translator tie)."""
import os
import subprocess


def pre_build(ctx):
    tool = os.path.join(ctx["root"], "tools", "translate_ops.py")
    out = os.path.join(ctx["lean"], "GraafVerif", "Model", "OpsGen.lean")
    p = subprocess.run(["python3", tool, "--repo", ctx["repo"], "--out", out], capture_output=True, text=True)
    msg = (p.stdout + p.stderr).strip()
    if p.returncode == 2:
        # the source left the translatable subset: the generated model cannot be produced -> broken tie
        return [f"ERROR translate_ops could not translate {ctx['repo']}/src/op: {msg}"]
    return [msg]
