"""C13 plugin for tools/orchestrate.py.

pre_checks(ctx)          site inventory of the repo's unsafe code regenerated from the source and
                         compared with lean/model_map_c13.json (the inventory the Chk models and
                         theorems were written against). A difference = broken correspondence.
extra_records(ctx, ins)  thorough tier: a subset of the programs under Miri; a Miri UB report is a
                         PROPFAIL record.
"""
import importlib.util
import os
import re
import subprocess
import time

HERE = os.path.dirname(os.path.abspath(__file__))
TOOLS = os.path.dirname(HERE)


def _load(name):
    spec = importlib.util.spec_from_file_location(name, os.path.join(HERE, name + ".py"))
    mod = importlib.util.module_from_spec(spec)
    spec.loader.exec_module(mod)
    return mod


def pre_build(ctx):
    """Regenerate Model/AlgoGen{,2,3,4}.lean from the repo under test (tools/translate_algo.py) BEFORE C13's proofs are
    re-checked: Thm/C13Gen.lean proves the absence of `ub` on those regenerated definitions."""
    return _load("_algogen").pre_build(ctx)


def _inventory_module():
    spec = importlib.util.spec_from_file_location("c13_inventory", os.path.join(TOOLS, "c13_inventory.py"))
    mod = importlib.util.module_from_spec(spec)
    spec.loader.exec_module(mod)
    return mod


def pre_checks(ctx):
    inv = _inventory_module()
    map_path = os.path.join(ctx["lean"], "model_map_c13.json")
    diffs = inv.compare(ctx["repo"], map_path)
    n = len(inv.inventory(ctx["repo"]))
    ctx["log"](f"C13: site inventory of {ctx['repo']}/src: {n} sites, {len(diffs)} difference(s) to model_map_c13.json")
    out = []
    if diffs:
        out.append("unsafe-site inventory differs from lean/model_map_c13.json (the models no longer describe the "
                   "source): " + "; ".join(diffs[:12]) + (f"; … {len(diffs) - 12} more" if len(diffs) > 12 else ""))
    # every theorem named as cover must be one of the audited property theorems
    try:
        mm = inv.load_map(map_path)
        listed = set(ctx["props"].get("theorems", []))
        missing = set()
        for s in mm["sites"]:
            for name in re.findall(r"GraafVerif\.C13(?:Gen)?\.[A-Za-z0-9_']+", s.get("cover", "") + " " + s.get("cover_generated", "")):
                if name not in listed:
                    missing.add(name)
        if missing:
            out.append("model_map_c13.json names theorems that props/C13.json does not audit: " + ", ".join(sorted(missing)))
    except (OSError, ValueError, KeyError):
        pass
    # the translator tie: every generated definition has its equality theorem listed (props/AlgoGen*.json)
    out.extend(_load("_algogen").pre_checks(ctx))
    return out


# --------------------------------------------------------------------------------- Miri (thorough)
MIRI_BUDGET_S = 420
MIRI_MAX = 160


def _cheap(line):
    """Programs that are cheap under Miri: no thread fan-out, small digraphs, no leak repetition."""
    if line.startswith("chk_leak") or len(line) > 220:
        return False
    op = line.split(" ", 2)
    if op[0] in ("chk_it", "chk_alg", "chk_mx", "chk_pt", "chk_dm", "pt_search_by", "chk_hist", "chk_rows",
                 "chk_repoll", "chk_interleave", "chk_twice"):
        return "1099511627776]" not in line or True
    if op[0] == "chk_q":
        return op[1] in ("converse", "union", "is_tournament", "is_semicomplete", "johnson", "has_walk", "out_neighbors",
                         "in_neighbors", "indegree_sequence", "degree_sequence", "complement", "add_arc", "toggle",
                         "remove_arc", "has_arc", "arcs")
    if op[0] == "chk_gen":
        return any(f" {n} " in line + " " for n in ("0", "1", "2", "3", "4")) and " 17" not in line and " 9" not in line
    return False


def extra_records(ctx, inputs):
    if ctx["tier"] != "thorough" or os.environ.get("GVERIF_NO_MIRI"):
        return []
    log = ctx["log"]
    harness = ctx["harness"]
    env = dict(os.environ, CARGO_NET_OFFLINE="true", RUST_BACKTRACE="0",
               MIRIFLAGS="-Zmiri-disable-isolation -Zmiri-permissive-provenance -Zmiri-ignore-leaks",
               CARGO_TARGET_DIR=os.path.join(harness, "target-miri"))
    cheap = [l for l in inputs if _cheap(l)]
    # spread over the op kinds deterministically
    by_op = {}
    for l in cheap:
        by_op.setdefault(" ".join(l.split(" ", 2)[:2]), []).append(l)
    picked = []
    keys = sorted(by_op)
    i = 0
    while len(picked) < MIRI_MAX and keys:
        k = keys[i % len(keys)]
        if by_op[k]:
            picked.append(by_op[k].pop(0))
        else:
            keys.remove(k)
            continue
        i += 1
    if not picked:
        return []
    t0 = time.time()
    recs = []
    pos = 0
    runs = 0
    while pos < len(picked) and time.time() - t0 < MIRI_BUDGET_S:
        chunk = picked[pos:]
        runs += 1
        try:
            p = subprocess.run(["cargo", "+nightly", "miri", "run", "--offline", "--quiet", "--", "eval"], cwd=harness,
                               input="\n".join(chunk) + "\n", capture_output=True, text=True, env=env,
                               timeout=max(30, MIRI_BUDGET_S - (time.time() - t0)))
            out, err, rc = p.stdout, p.stderr, p.returncode
        except subprocess.TimeoutExpired as e:
            out = e.stdout.decode() if isinstance(e.stdout, bytes) else (e.stdout or "")
            err, rc = "timeout", None
        got = [l for l in out.splitlines() if l and not l.startswith("@t ")]
        if runs == 1 and not got and rc not in (0, None) and "Undefined Behavior" not in err:
            log("C13: Miri is not usable here (" + err.strip().splitlines()[-1][:200] + "); skipped" if err.strip() else "C13: Miri not usable; skipped")
            return []
        for l in got:
            recs.append({"input": l.split(" => ")[0], "case": l, "status": "OK", "nt": True,
                         "tags": ["variant=miri"], "detail": "", "t": 1, "variant": "miri", "mask": None})
        pos += len(got)
        if rc is None:
            break  # budget exhausted inside a program: not a verdict
        if rc != 0 and pos < len(picked):
            culprit = picked[pos]
            ub = "Undefined Behavior" in err
            what = next((l.strip() for l in err.splitlines() if "Undefined Behavior" in l or l.startswith("error")), err.strip()[-300:])
            if ub:
                recs.append({"input": culprit, "case": culprit + " => fault miri", "status": "PROPFAIL", "nt": True,
                             "tags": ["variant=miri", "fault"], "detail": "Miri: " + what[:400], "t": 1,
                             "variant": "plain", "mask": None})
            else:
                log(f"C13: Miri stopped on `{culprit[:120]}` without a UB report ({what[:160]}); program skipped")
            pos += 1
    log(f"C13: Miri ran {sum(1 for r in recs if r['status'] == 'OK')} programs in {time.time() - t0:.0f}s, "
        f"{sum(1 for r in recs if r['status'] == 'PROPFAIL')} UB report(s)")
    return recs
