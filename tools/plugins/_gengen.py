"""For the C14 / C18 plugins: regenerate Model/GenGen.lean from the repo's closed-form generators
(src/repr/*/mod.rs, src/gen/{empty,biclique}.rs) and src/algo/distance_matrix.rs — translator tie GenGen.

Chain it in a property plugin like `_reprgen`:  pre_build = _gengen.pre_build, pre_checks = _gengen.pre_checks;
add "GraafVerif.Thm.GenGen" to the property's `thm_module` list and the theorems of props/GenGen.json
to its `theorems`, so that the regenerated definitions are re-checked."""
import os
import subprocess


def pre_build(ctx):
    tool = os.path.join(ctx["root"], "tools", "translate_gen.py")
    out = os.path.join(ctx["lean"], "GraafVerif", "Model", "GenGen.lean")
    p = subprocess.run(["python3", tool, "--repo", ctx["repo"], "--out", out], capture_output=True, text=True)
    msg = (p.stdout + p.stderr).strip()
    if p.returncode == 2:
        # a targeted method left the translatable subset: the generated model cannot be produced -> broken tie
        return [f"ERROR translate_gen could not translate {ctx['repo']}: {msg}"]
    if p.returncode != 0:
        return [f"ERROR translate_gen failed (exit {p.returncode}): {msg}"]
    lines = msg.splitlines()
    return [lines[-1] if lines else "translate_gen: no output"]


def pre_checks(ctx):
    """Every generated definition must have its equality theorem `<ns>.<name>_eq` listed in props/GenGen.json."""
    import json
    import re
    gen = os.path.join(ctx["lean"], "GraafVerif", "Model", "GenGen.lean")
    props = os.path.join(ctx["root"], "props", "GenGen.json")
    try:
        thms = set(json.load(open(props))["theorems"])
        ns, missing = None, []
        for line in open(gen):
            m = re.match(r"namespace (AL|AM|MX|EL|WL|DM)$", line.strip())
            if m:
                ns = m.group(1)
            m = re.match(r"def (\w+)", line)
            if m and ns and f"GraafVerif.GenGenThm.{ns}.{m.group(1)}_eq" not in thms:
                missing.append(f"{ns}.{m.group(1)}")
    except OSError as e:
        return [f"GenGen: {e}"]
    return [f"GenGen: generated definitions without an equality theorem: {' '.join(missing)}"] if missing else []
