import importlib.util
import os

_spec = importlib.util.spec_from_file_location("_algogen", os.path.join(os.path.dirname(__file__), "_algogen.py"))
_m = importlib.util.module_from_spec(_spec)
_spec.loader.exec_module(_m)
pre_build = _m.pre_build
pre_checks = _m.pre_checks
