"""Compose several translator-tie plugins: `hooks("_opsgen", "_reprgen", "_algogen")` returns (pre_build, pre_checks)."""
import importlib.util
import os


def _load(name):
    spec = importlib.util.spec_from_file_location(name, os.path.join(os.path.dirname(__file__), name + ".py"))
    m = importlib.util.module_from_spec(spec)
    spec.loader.exec_module(m)
    return m


def hooks(*names):
    mods = [_load(n) for n in names]

    def pre_build(ctx):
        out = []
        for m in mods:
            if hasattr(m, "pre_build"):
                out += m.pre_build(ctx) or []
        return out

    def pre_checks(ctx):
        out = []
        for m in mods:
            if hasattr(m, "pre_checks"):
                out += m.pre_checks(ctx) or []
        return out

    return pre_build, pre_checks
