#!/usr/bin/env python3
"""Markdown tables of the seeding experiments from /verif/seeded/*/meta.json."""
import glob, json, os
rows = {k: [] for k in range(1, 10)}
for d in sorted(glob.glob('/verif/seeded/*')):
    try: m = json.load(open(d + '/meta.json'))
    except Exception: continue
    name = os.path.basename(d)
    cells = []
    for c, runs in sorted(m.get('checks', {}).items()):
        r = runs[-1]
        rp = r.get('replay') or {}
        nfi = any('no-failing' in l for l in r.get('lines', []))
        if r['exit'] == 0: res = 'exit 0 (unaffected)' if int(m.get('round', 1)) in (3, 5) else 'exit 0 (missed)'
        elif rp.get('kind') == 'propfail': res = 'PROPFAIL `' + str(rp.get('input'))[:48].replace('|', '/') + '`'
        elif nfi: res = 'no-failing-input-found (' + str(rp.get('kind')) + ')'
        else: res = 'exit %s' % r['exit']
        cells.append(f"{c}: {res}")
    summ = (m.get('summary') or '')[:120].replace('\n', ' ').replace('|', '/')
    needs = (m.get('needs') or m.get('observable_difference') or '')
    if isinstance(needs, (dict, list)): needs = json.dumps(needs)
    needs = needs[:90].replace('\n', ' ').replace('|', '/')
    rows[int(m.get('round', 1))].append(f"| {name} | {summ} | {needs} | {'; '.join(cells)} |")
for rnd in range(1, 10):
    if not rows[rnd]: continue
    print(f"\n**Round {rnd}** ({len(rows[rnd])} changes)\n")
    print("| seed | change | needs / observable difference | checks |\n|---|---|---|---|")
    print('\n'.join(rows[rnd]))
