#!/usr/bin/env python3
"""Which non-test function bodies of /repo/src are inside the verified model, and through which tie.

For every function (and macro, struct) that `srcpin.functions` finds in the non-test part of `src/**/*.rs`:
  pinned by   : the properties whose hand-written model is pinned to that body (lean/model_map/pins.json)
  regenerated : the generated Lean files (Model/{OpsGen,ReprGen,GenGen,AlgoGen*}.lean) whose docstrings name that
                function as the source of a definition (= the translator re-derives a model from it on every run)
Writes docs/COVERAGE.md; `--check` exits 1 if a library function is in neither column (used by nothing at run time:
this is a bookkeeping aid for the "what is modelled" statement of the trusted base, not a verification step).
"""
import json
import os
import re
import sys

sys.path.insert(0, os.path.dirname(os.path.abspath(__file__)))
import srcpin  # noqa: E402

ROOT = srcpin.ROOT
REPO = os.environ.get("GVERIF_REPO", "/repo")
GEN = ["OpsGen", "ReprGen", "GenGen", "AlgoGen", "AlgoGen2", "AlgoGen3", "AlgoGen4", "AlgoGen5", "AlgoGen6"]

# generated structure names that differ from the Rust item they are read from (two private structs of the same name in
# different files): docstring header word -> source header word
ALIASES = {"MxArcsIterator": "ArcsIterator", "AlArcsIterator": "ArcsIterator"}

# not library code: test fixtures, test-generating macros, proptest strategies
def is_test_support(rel, key):
    return (rel.endswith("fixture.rs") or rel.endswith("proptest_strategy.rs")
            or re.match(r"macro:(test_|proptest_)", key) is not None)


def src_path(tag):
    """file tag of a generated docstring -> path relative to /repo"""
    if tag.startswith(("repr/", "gen/", "op/", "algo/")):
        return "src/" + tag
    for d in ("algo", "op", "gen", "gen/prng"):
        if os.path.exists(os.path.join(REPO, "src", d, tag)):
            return f"src/{d}/{tag}"
    return "src/" + tag


def generated_index():
    """{(rel, fn name): [(generated file, impl header text)]}; structs under the name `struct:X` (docstring
    "`[pub] struct X`"), macros under `macro:m` (docstring header "... (macro m!)")"""
    idx = {}
    for g in GEN:
        p = os.path.join(ROOT, "lean", "GraafVerif", "Model", g + ".lean")
        if not os.path.exists(p):
            continue
        for m in re.finditer(r"^/-- `([^`]+\.rs)`: (.*)$", open(p).read(), re.M):
            rest = m.group(2)
            rel = src_path(m.group(1))
            st = re.match(r"`(?:pub )?struct ([A-Za-z_0-9]+)`", rest)
            if st:
                idx.setdefault((rel, "struct:" + st.group(1)), []).append((g, ""))
                continue
            hdr = re.match(r"`([^`]*)`", rest)
            htxt = hdr.group(1) if hdr else ""
            for a, b in ALIASES.items():
                htxt = re.sub(r"\b" + a + r"\b", b, htxt)
            mac = re.search(r"\(macro ([A-Za-z_0-9]+)!\)", htxt)
            if mac:
                idx.setdefault((rel, "macro:" + mac.group(1)), []).append((g, ""))
            fn = re.search(r"fn `([A-Za-z_0-9]+)`|`fn ([A-Za-z_0-9]+)`", rest)
            if not fn:
                continue
            name = fn.group(1) or fn.group(2)
            idx.setdefault((rel, name), []).append((g, htxt))
    return idx


def words(h):
    return set(re.findall(r"[A-Z][A-Za-z0-9]+", h))


def main():
    pins = json.load(open(srcpin.PINS))
    pinned = {}
    for pid, d in sorted(pins.items()):
        for k in d:
            pinned.setdefault(k, []).append(pid)
    gidx = generated_index()
    rows, support = [], 0
    for root, _, files in sorted(os.walk(os.path.join(REPO, "src"))):
        for f in sorted(files):
            if not f.endswith(".rs"):
                continue
            path = os.path.join(root, f)
            rel = os.path.relpath(path, REPO)
            for key in srcpin.functions(path):
                if key == "impls:":
                    continue
                if is_test_support(rel, key):
                    support += 1
                    continue
                hdr, _, name = key.rpartition("::")
                name = re.sub(r"#\d+$", "", name)
                gens = []
                if key.startswith(("struct:", "macro:")):
                    gens = [g for g, _ in gidx.get((rel, key), [])]
                for g, gh in gidx.get((rel, name), []):
                    # the blanket impls / default methods are instantiated per representation: header words of the
                    # source item must all occur in the generated docstring's header (or the source header is generic)
                    if not hdr or words(hdr) <= words(gh) | {"D", "Self", "Iterator"} or words(gh) <= words(hdr):
                        gens.append(g)
                # blanket impls of src/op instantiated in ReprGen under `op/<file>`
                rows.append((rel, key, pinned.get(f"{rel} {key}", []), sorted(set(gens))))
    rows.sort()
    n = len(rows)
    n_pin = sum(1 for r in rows if r[2])
    n_gen = sum(1 for r in rows if r[3])
    n_both = sum(1 for r in rows if r[2] and r[3])
    neither = [r for r in rows if not r[2] and not r[3]]
    kinds = {"fn": 0, "struct": 0, "macro": 0}
    for r in rows:
        kinds["struct" if r[1].startswith("struct:") else "macro" if r[1].startswith("macro:") else "fn"] += 1
    out = ["# Which source is inside the model (generated by `tools/coverage_map.py`)", "",
           f"Non-test items of `/repo/src` (functions with bodies, `pub struct`s, non-test macros): **{n}** "
           f"({kinds['fn']} functions, {kinds['struct']} structs, {kinds['macro']} macros); "
           f"{support} fixture / test-macro / proptest-strategy items are not library code and are left out.", "",
           f"* pinned to a hand-written, proved model (source pin, `lean/model_map/pins.json`): **{n_pin}**",
           f"* re-translated into Lean on every run (generated model proved equal to the hand model): **{n_gen}**",
           f"* both: **{n_both}**; neither: **{len(neither)}**", "",
           "An item under *pinned* is modelled by hand and validated by the correspondence check of the listed "
           "properties; a change to it breaks the pin. An item under *regenerated* has its body read by a translator "
           "at the start of every check. A struct item is regenerated when a generated file declares its field list (docstring `struct X`), a macro item when a generated definition is read from one of its instantiations (docstring `(macro m!)`).", ""]
    if neither:
        out += ["## In neither column", ""] + [f"* `{r[0]}` `{r[1]}`" for r in neither] + [""]
    out += ["## Table", "", "| file | item | pinned by | regenerated in |", "|---|---|---|---|"]
    for rel, key, ps, gs in rows:
        out.append(f"| `{rel[4:]}` | `{key}` | {' '.join(ps)} | {' '.join(gs)} |")
    open(os.path.join(ROOT, "docs", "COVERAGE.md"), "w").write("\n".join(out) + "\n")
    print(f"{n} items: pinned {n_pin}, regenerated {n_gen}, both {n_both}, neither {len(neither)}")
    for r in neither:
        print("  neither:", r[0], r[1])
    if "--check" in sys.argv and neither:
        sys.exit(1)


if __name__ == "__main__":
    main()
