//! C17 — results never depend on the number of worker threads or their interleaving.
//!
//! C17 has no ops of its own: it re-runs the PARALLEL operations of the other properties
//! (`ops_complement` / `ops_union` on `al`, `ops_union` on `am` (C11), `gen_complete al` (C14),
//! `q_degseq` (C02), `pred_unary` (C12), the seeded `am` generators (C15)) on inputs
//! whose row count is below / equal / just above / far above the thread count and not a multiple of
//! the chunk size; the orchestrator runs every line under many `taskset` CPU masks, repeated.
//! Each handler compares with the model called with the observed thread count and with the
//! single-threaded definition (oracle).
#![allow(unused_imports, dead_code, clippy::all)]

use crate::graphs::{self, Desc};
use crate::rng::Rng;
use crate::value::V;

pub fn eval(_op: &str, _args: &[V]) -> Option<Vec<V>> {
    None
}

/// Orders around every chunking case for thread counts 1..=16.
fn orders(rng: &mut Rng, thorough: bool) -> Vec<usize> {
    let mut v: Vec<usize> = (1..=40).collect();
    v.extend([47, 48, 49, 63, 64, 65, 79, 80, 81, 97, 113, 127, 128, 129, 130]);
    if !thorough {
        // quick: every order up to 20 (all thread counts <= 16 crossed), then a spread
        let mut q: Vec<usize> = (1..=20).collect();
        q.extend([23, 31, 32, 33, 34, 40, 47, 49, 64, 65, 97, 130]);
        for _ in 0..4 {
            q.push(21 + rng.below(110));
        }
        return q;
    }
    for _ in 0..10 {
        v.push(41 + rng.below(90));
    }
    v
}

fn desc(rng: &mut Rng, repr: &str, n: usize) -> Desc {
    let (_, arcs) = graphs::gen_arcs(rng, n);
    let k = arcs.len();
    Desc { repr: repr.to_string(), verts: (0..n).collect(), arcs, weights: vec![1; k] }
}

/// Trailing rows carry arcs (a dropped last chunk must be visible), heads spread over all rows.
fn desc_tail_heavy(rng: &mut Rng, repr: &str, n: usize) -> Desc {
    let mut arcs = vec![];
    for u in 0..n {
        for v in 0..n {
            if u != v && (u + 3 >= n || rng.chance(1, 6)) && rng.chance(2, 3) {
                arcs.push((u, v));
            }
        }
    }
    rng.shuffle(&mut arcs);
    let k = arcs.len();
    Desc { repr: repr.to_string(), verts: (0..n).collect(), arcs, weights: vec![1; k] }
}

/// Semicomplete digraph with (2 times out of 3) ONE unordered pair left unjoined — placed in the
/// trailing rows half of the time, where a dropped last chunk would hide it.
fn semicomplete_minus(rng: &mut Rng, n: usize) -> Desc {
    let mut arcs = vec![];
    let hole = if n >= 2 && rng.chance(2, 3) {
        let a = if rng.chance(1, 2) { n - 1 } else { rng.below(n) };
        let mut b = if rng.chance(1, 2) && n >= 2 { n - 2 } else { rng.below(n) };
        if b == a {
            b = (a + 1) % n;
        }
        Some((a.min(b), a.max(b)))
    } else {
        None
    };
    for u in 0..n {
        for v in (u + 1)..n {
            if Some((u, v)) == hole {
                continue;
            }
            match rng.below(3) {
                0 => arcs.push((u, v)),
                1 => arcs.push((v, u)),
                _ => {
                    arcs.push((u, v));
                    arcs.push((v, u));
                }
            }
        }
    }
    rng.shuffle(&mut arcs);
    let k = arcs.len();
    Desc { repr: "al".to_string(), verts: (0..n).collect(), arcs, weights: vec![1; k] }
}

/// Sparse digraph whose arcs leave the trailing rows (cheap for the driver at large orders).
fn desc_sparse_tail(rng: &mut Rng, repr: &str, n: usize) -> Desc {
    let mut arcs = vec![];
    for u in (n.saturating_sub(40))..n {
        for _ in 0..2 {
            let v = rng.below(n);
            if v != u && !arcs.contains(&(u, v)) {
                arcs.push((u, v));
            }
        }
    }
    for _ in 0..n / 8 {
        let (u, v) = (rng.below(n), rng.below(n));
        if u != v && !arcs.contains(&(u, v)) {
            arcs.push((u, v));
        }
    }
    let k = arcs.len();
    Desc { repr: repr.to_string(), verts: (0..n).collect(), arcs, weights: vec![1; k] }
}

/// Out-of-distribution stream for the failing-input search (orders beyond every "rows per thread"
/// heuristic: 192.., 256·t ± 1, 513, 770, 1030): only emitted in the `stress` tier.
fn gen_stress(rng: &mut Rng, emit: &mut dyn FnMut(String)) {
    // order × CPUs > 2^20 (degree_sequence tally vectors): sparse lists of order 70 000 … 524 289
    super::c02::gen_degseq_huge(rng, emit);
    for &n in &[193usize, 257, 300, 513, 770, 1030] {
        emit(format!("gen_complete al {n}"));
        emit(format!("q_degseq {}", desc_sparse_tail(rng, "al", n).to_v()));
        emit(format!("ops_complement {}", desc_sparse_tail(rng, "al", n).to_v()));
        let m = n - 1 - rng.below(n / 3);
        emit(format!("ops_union {} {}", desc_sparse_tail(rng, "al", n).to_v(), desc_sparse_tail(rng, "al", m).to_v()));
        emit(format!("ops_union {} {}", desc_sparse_tail(rng, "am", n).to_v(), desc_sparse_tail(rng, "am", m).to_v()));
        let seed = rng.next();
        emit(format!("rand_er am {n} {} {} {seed}", 0.01f64.to_bits(), (1.0f64 - 0.01).to_bits()));
        if n <= 300 {
            emit(format!("pred_unary {}", semicomplete_minus(rng, n).to_v()));
        }
        if n <= 800 {
            emit(format!("rand_tournament am {n} {seed}"));
        }
    }
}

pub fn gen(rng: &mut Rng, thorough: bool, emit: &mut dyn FnMut(String)) {
    if crate::stress() {
        gen_stress(rng, emit);
        return;
    }
    let ns = orders(rng, thorough);
    for &n in &ns {
        // AdjacencyList::complete
        emit(format!("gen_complete al {n}"));
        // AdjacencyList::complement
        emit(format!("ops_complement {}", desc(rng, "al", n).to_v()));
        emit(format!("ops_complement {}", desc_tail_heavy(rng, "al", n).to_v()));
        // AdjacencyList::degree_sequence / is_semicomplete (C02 / C12 ops)
        emit(format!("q_degseq {}", desc_tail_heavy(rng, "al", n).to_v()));
        emit(format!("q_degseq {}", desc(rng, "al", n).to_v()));
        emit(format!("pred_unary {}", semicomplete_minus(rng, n).to_v()));
        emit(format!("pred_unary {}", desc(rng, "al", n).to_v()));
        // AdjacencyList::union: equal and different orders (smaller operand ends inside a chunk)
        let m = 1 + rng.below(n);
        emit(format!("ops_union {} {}", desc_tail_heavy(rng, "al", n).to_v(), desc_tail_heavy(rng, "al", n).to_v()));
        emit(format!("ops_union {} {}", desc_tail_heavy(rng, "al", n).to_v(), desc_tail_heavy(rng, "al", m).to_v()));
        emit(format!("ops_union {} {}", desc_tail_heavy(rng, "al", m).to_v(), desc(rng, "al", n).to_v()));
        // AdjacencyMap::union: same key set (equal keys at partition boundaries), shifted, sparse
        if n <= 64 || thorough {
            emit(format!("ops_union {} {}", desc(rng, "am", n).to_v(), desc(rng, "am", n).to_v()));
            emit(format!("ops_union {} {}", desc(rng, "am", n).to_v(), desc(rng, "am", m).to_v()));
            let (_, a) = graphs::gen_am_sparse(rng, 12);
            let (_, b) = graphs::gen_am_sparse(rng, 12);
            emit(format!("ops_union {} {}", a.to_v(), b.to_v()));
        }
        // seeded AdjacencyMap generators: valid and repeatable within one configuration (C15 ops)
        let seed = rng.next();
        emit(format!("rand_tournament am {n} {seed}"));
        let p: f64 = *rng.pick(&[0.3, 0.5, 0.75, 0.0, 1.0]);
        emit(format!("rand_er am {n} {} {} {seed}", p.to_bits(), (1.0 - p).to_bits()));
    }
}
