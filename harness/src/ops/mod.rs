//! One module per property: `gen` emits input lines, `eval` runs the real code on one.

use crate::rng::Rng;
use crate::value::V;

pub mod c01;
pub mod c02;
pub mod c03;
pub mod c04;
pub mod c05;
pub mod c06;
pub mod c07;
pub mod c08;
pub mod c09;
pub mod c10;
pub mod c11;
pub mod c12;
pub mod c13;
pub mod c14;
pub mod c15;
pub mod c16;
pub mod c17;
pub mod c18;
pub mod c19;
pub mod c20;

/// Try every module; `None` = no module knows the op or the arguments are malformed.
pub fn eval(op: &str, args: &[V]) -> Option<Vec<V>> {
    if let Some(r) = c01::eval(op, args) { return Some(r); }
    if let Some(r) = c02::eval(op, args) { return Some(r); }
    if let Some(r) = c03::eval(op, args) { return Some(r); }
    if let Some(r) = c04::eval(op, args) { return Some(r); }
    if let Some(r) = c05::eval(op, args) { return Some(r); }
    if let Some(r) = c06::eval(op, args) { return Some(r); }
    if let Some(r) = c07::eval(op, args) { return Some(r); }
    if let Some(r) = c08::eval(op, args) { return Some(r); }
    if let Some(r) = c09::eval(op, args) { return Some(r); }
    if let Some(r) = c10::eval(op, args) { return Some(r); }
    if let Some(r) = c11::eval(op, args) { return Some(r); }
    if let Some(r) = c12::eval(op, args) { return Some(r); }
    if let Some(r) = c13::eval(op, args) { return Some(r); }
    if let Some(r) = c14::eval(op, args) { return Some(r); }
    if let Some(r) = c15::eval(op, args) { return Some(r); }
    if let Some(r) = c16::eval(op, args) { return Some(r); }
    if let Some(r) = c17::eval(op, args) { return Some(r); }
    if let Some(r) = c18::eval(op, args) { return Some(r); }
    if let Some(r) = c19::eval(op, args) { return Some(r); }
    if let Some(r) = c20::eval(op, args) { return Some(r); }
    None
}

/// Generated input lines for a property. Returns false when the property has no generator.
pub fn gen(prop: &str, rng: &mut Rng, thorough: bool, emit: &mut dyn FnMut(String)) -> bool {
    match prop {
        "C01" => c01::gen(rng, thorough, emit),
        "C02" => c02::gen(rng, thorough, emit),
        "C03" => c03::gen(rng, thorough, emit),
        "C04" => c04::gen(rng, thorough, emit),
        "C05" => {
            c05::gen(rng, thorough, emit);
            c03::gen_pred(rng, thorough, emit);
        }
        "C06" => c06::gen(rng, thorough, emit),
        "C07" => c07::gen(rng, thorough, emit),
        "C08" => c08::gen(rng, thorough, emit),
        "C09" => c09::gen(rng, thorough, emit),
        "C10" => c10::gen(rng, thorough, emit),
        "C11" => c11::gen(rng, thorough, emit),
        "C12" => c12::gen(rng, thorough, emit),
        "C13" => c13::gen(rng, thorough, emit),
        "C14" => c14::gen(rng, thorough, emit),
        "C15" => c15::gen(rng, thorough, emit),
        "C16" => c16::gen(rng, thorough, emit),
        "C17" => c17::gen(rng, thorough, emit),
        "C18" => c18::gen(rng, thorough, emit),
        "C19" => c19::gen(rng, thorough, emit),
        "C20" => c20::gen(rng, thorough, emit),
        _ => return false,
    }
    true
}
