//! C02 — every read-only query of graaf, evaluated on the real code.
//!
//! Every op builds the digraph from its description through the public API, clones it,
//! evaluates the queries and finally compares the digraph with the clone (`unchanged`).
//! The first output is always the observation `[order [vertices] [arcs]]` (`[u v]`, or
//! `[u v w]` for the weighted representations) — the driver's oracle recomputes every
//! query from it with the textbook definitions.  A query that panics yields the atom `panic`
//! (each call is wrapped individually).
//!
//!   q_global <desc>          => obs size [sinks] [sources] [indegseq] [outdegseq] [semidegseq]
//!                               maxdeg mindeg maxin minin maxout minout unchanged
//!   q_degseq <desc>          => obs [degree_sequence] unchanged        (AdjacencyList: threaded)
//!   q_vertex <desc> [ids]    => obs [[outN inN indeg outdeg deg sink source isolated pendant outNW]…] unchanged
//!   q_pairs  <desc> [ids]    => obs [has_arc 0/1 …] [has_edge 0/1 …] [arc_weight …] unchanged   (row major over ids×ids)
//!   q_walks  <desc> [walks]  => obs [has_walk 0/1 …] unchanged
//!   q_remove <desc> [[u v]…] => obs [[removed 0/1, digraph-unchanged-by-it 0/1]…] unchanged
//!   q_iter <desc> [ks] [ids]  => obs, per k one list of iterator records, unchanged   (see `iter_records`)
//!   q_all <desc> [vertex ids] [pair ids] [walks] [[u v]…]
//!                            => obs, then the outputs of the six ops above in that order, unchanged
#![allow(clippy::all)]

use crate::graphs::{self, Desc};
use crate::rng::Rng;
use crate::value::V;
use graaf::{
    AdjacencyList, AdjacencyListWeighted, AdjacencyMap, AdjacencyMatrix, ArcWeight, Arcs, ArcsWeighted, Degree,
    DegreeSequence, EdgeList, HasArc, HasEdge, HasWalk, InNeighbors, Indegree, IndegreeSequence, IsIsolated,
    IsPendant, Order, OutNeighbors, OutNeighborsWeighted, Outdegree, OutdegreeSequence, RemoveArc,
    SemidegreeSequence, Sinks, Size, Sources, Vertices,
};
use std::panic::{catch_unwind, AssertUnwindSafe};

/// Weighted view: `None` for the unweighted representations.
pub trait WeightView {
    fn aw(&self, _u: usize, _v: usize) -> Option<Option<i128>> {
        None
    }
    fn onw(&self, _u: usize) -> Option<Vec<(usize, i128)>> {
        None
    }
    fn arcs_w(&self) -> Option<Vec<(usize, usize, i128)>> {
        None
    }
}
impl WeightView for AdjacencyList {}
impl WeightView for AdjacencyMap {}
impl WeightView for AdjacencyMatrix {}
impl WeightView for EdgeList {}
macro_rules! weighted_view {
    ($w:ty) => {
        impl WeightView for AdjacencyListWeighted<$w> {
            fn aw(&self, u: usize, v: usize) -> Option<Option<i128>> {
                Some(self.arc_weight(u, v).map(|w| *w as i128))
            }
            fn onw(&self, u: usize) -> Option<Vec<(usize, i128)>> {
                Some(self.out_neighbors_weighted(u).map(|(v, w)| (v, *w as i128)).collect())
            }
            fn arcs_w(&self) -> Option<Vec<(usize, usize, i128)>> {
                Some(self.arcs_weighted().map(|(u, v, w)| (u, v, *w as i128)).collect())
            }
        }
    };
}
weighted_view!(usize);
weighted_view!(isize);

pub trait Q:
    Clone
    + PartialEq
    + Order
    + Size
    + Vertices
    + Arcs
    + HasArc
    + HasEdge
    + HasWalk
    + OutNeighbors
    + InNeighbors
    + Indegree
    + Outdegree
    + Degree
    + IsIsolated
    + IsPendant
    + Sinks
    + Sources
    + DegreeSequence
    + IndegreeSequence
    + OutdegreeSequence
    + SemidegreeSequence
    + RemoveArc
    + WeightView
{
}
impl<T> Q for T where
    T: Clone
        + PartialEq
        + Order
        + Size
        + Vertices
        + Arcs
        + HasArc
        + HasEdge
        + HasWalk
        + OutNeighbors
        + InNeighbors
        + Indegree
        + Outdegree
        + Degree
        + IsIsolated
        + IsPendant
        + Sinks
        + Sources
        + DegreeSequence
        + IndegreeSequence
        + OutdegreeSequence
        + SemidegreeSequence
        + RemoveArc
        + WeightView
{
}

/// One call of the real code; `panic` atom when it panics.
fn g(f: impl FnOnce() -> V) -> V {
    catch_unwind(AssertUnwindSafe(f)).unwrap_or_else(|_| V::atom("panic"))
}

fn b01(b: bool) -> V {
    V::I(i128::from(b))
}

/// `[order [vertices] [arcs]]` (weighted: `[u v w]`).
pub fn obs<D: Q>(d: &D) -> V {
    let arcs = match d.arcs_w() {
        Some(ws) => V::L(ws.into_iter().map(|(u, v, w)| V::L(vec![V::u(u), V::u(v), V::I(w)])).collect()),
        None => V::pairs(d.arcs()),
    };
    V::L(vec![V::u(d.order()), V::us(d.vertices()), arcs])
}

/// `obs :: parts ++ [unchanged]`
fn framed<D: Q>(d: &D, parts: impl FnOnce(&D) -> Vec<V>) -> Vec<V> {
    let c = d.clone();
    let mut out = vec![obs(d)];
    out.extend(parts(d));
    out.push(V::bool(*d == c));
    out
}

fn global<D: Q>(d: &D) -> Vec<V> {
    let mut out = vec![];
    out.push(g(|| V::u(d.size())));
    out.push(g(|| V::us(d.sinks())));
    out.push(g(|| V::us(d.sources())));
    out.push(g(|| V::us(d.indegree_sequence())));
    out.push(g(|| V::us(d.outdegree_sequence())));
    out.push(g(|| V::pairs(d.semidegree_sequence())));
    out.push(g(|| V::u(d.max_degree())));
    out.push(g(|| V::u(d.min_degree())));
    out.push(g(|| V::u(d.max_indegree())));
    out.push(g(|| V::u(d.min_indegree())));
    out.push(g(|| V::u(d.max_outdegree())));
    out.push(g(|| V::u(d.min_outdegree())));
    out
}

fn degseq<D: Q>(d: &D) -> Vec<V> {
    vec![g(|| V::us(d.degree_sequence()))]
}

fn vertex<D: Q>(d: &D, ids: &[usize]) -> Vec<V> {
    let recs = ids
        .iter()
        .map(|&u| {
            V::L(vec![
                g(|| V::us(d.out_neighbors(u))),
                g(|| V::us(d.in_neighbors(u))),
                g(|| V::u(d.indegree(u))),
                g(|| V::u(d.outdegree(u))),
                g(|| V::u(d.degree(u))),
                g(|| V::bool(d.is_sink(u))),
                g(|| V::bool(d.is_source(u))),
                g(|| V::bool(d.is_isolated(u))),
                g(|| V::bool(d.is_pendant(u))),
                g(|| match d.onw(u) {
                    Some(ws) => V::L(ws.into_iter().map(|(v, w)| V::L(vec![V::u(v), V::I(w)])).collect()),
                    None => V::atom("na"),
                }),
            ])
        })
        .collect();
    vec![V::L(recs)]
}

fn pairs<D: Q>(d: &D, ids: &[usize]) -> Vec<V> {
    let mut ha = vec![];
    let mut he = vec![];
    let mut aw = vec![];
    for &u in ids {
        for &v in ids {
            ha.push(g(|| b01(d.has_arc(u, v))));
            he.push(g(|| b01(d.has_edge(u, v))));
            if let Some(w) = g_opt(|| d.aw(u, v)) {
                aw.push(w);
            }
        }
    }
    vec![V::L(ha), V::L(he), V::L(aw)]
}

/// arc_weight: `None` for the unweighted representations (no entry at all).
fn g_opt(f: impl FnOnce() -> Option<Option<i128>>) -> Option<V> {
    match catch_unwind(AssertUnwindSafe(f)) {
        Err(_) => Some(V::atom("panic")),
        Ok(None) => None,
        Ok(Some(None)) => Some(V::none()),
        Ok(Some(Some(w))) => Some(V::I(w)),
    }
}

fn walks<D: Q>(d: &D, ws: &[Vec<usize>]) -> Vec<V> {
    let rs = ws.iter().map(|w| g(|| b01(d.has_walk(w)))).collect();
    vec![V::L(rs)]
}

fn remove<D: Q>(d: &D, ps: &[(usize, usize)]) -> Vec<V> {
    let rs = ps
        .iter()
        .map(|&(u, v)| {
            let mut e = d.clone();
            let r = catch_unwind(AssertUnwindSafe(|| e.remove_arc(u, v)));
            match r {
                Ok(r) => V::L(vec![b01(r), b01(e == *d)]),
                Err(_) => V::atom("panic"),
            }
        })
        .collect();
    vec![V::L(rs)]
}

/// `q_cyclewalks <repr> [ids] <len> [positions]`: the directed cycle over `ids` and the closed walks of
/// `len` vertices around it — one without a break, one per position `p` whose ONLY non-arc is the
/// pair `(p, p+1)`. Compact form of `q_walks` for very long walks (both sides expand it).
// ---------------------------------------------------------------------------------------
// q_iter: one iterator value advanced `k` times with `next()` and then finished with a fold-based
// consumer. The sequence a query yields must not depend on HOW the iterator is consumed.
// ---------------------------------------------------------------------------------------

trait IterItem: Clone {
    fn enc(&self) -> V;
    fn val(&self) -> usize;
}
impl IterItem for usize {
    fn enc(&self) -> V {
        V::u(*self)
    }
    fn val(&self) -> usize {
        *self
    }
}
impl IterItem for (usize, usize) {
    fn enc(&self) -> V {
        V::L(vec![V::u(self.0), V::u(self.1)])
    }
    fn val(&self) -> usize {
        self.0.wrapping_add(self.1)
    }
}

/// `[taken count last rest sum skipcount]` for the iterator `mk()` builds; a fresh iterator value per
/// consumer, each advanced with `k` calls of `next()` first:
/// taken = the `k` items `next()` returned; count = `it.count()`; last = `it.last()`;
/// rest = the items `it.for_each(..)` visits; sum = `it.fold(0, |a, x| a + val(x))`;
/// skipcount = `mk().skip(k).count()`.  The whole record is `panic` when building the iterator panics.
fn iter_record<T: IterItem, I: Iterator<Item = T>>(mk: impl Fn() -> I, k: usize) -> V {
    g(|| {
        let advanced = || {
            let mut it = mk();
            let mut taken = vec![];
            for _ in 0..k {
                match it.next() {
                    Some(x) => taken.push(x),
                    None => break,
                }
            }
            (taken, it)
        };
        let (taken, it) = advanced();
        let count = it.count();
        let last = advanced().1.last();
        let mut rest = vec![];
        advanced().1.for_each(|x| rest.push(x));
        let sum = advanced().1.fold(0usize, |a, x| a.wrapping_add(x.val()));
        let skipcount = mk().skip(k).count();
        V::L(vec![
            V::L(taken.iter().map(IterItem::enc).collect()),
            V::u(count),
            last.map_or_else(V::none, |x| x.enc()),
            V::L(rest.iter().map(IterItem::enc).collect()),
            V::u(sum),
            V::u(skipcount),
        ])
    })
}

/// Records in this order: arcs, vertices, degree_sequence, indegree_sequence, outdegree_sequence,
/// semidegree_sequence, sinks, sources, then per id: in_neighbors(id), out_neighbors(id).
fn iter_records<D: Q>(d: &D, ks: &[usize], ids: &[usize]) -> Vec<V> {
    ks.iter()
        .map(|&k| {
            let mut recs = vec![
                iter_record(|| d.arcs(), k),
                iter_record(|| d.vertices(), k),
                iter_record(|| d.degree_sequence(), k),
                iter_record(|| d.indegree_sequence(), k),
                iter_record(|| d.outdegree_sequence(), k),
                iter_record(|| d.semidegree_sequence(), k),
                iter_record(|| d.sinks(), k),
                iter_record(|| d.sources(), k),
            ];
            for &v in ids {
                recs.push(iter_record(|| d.in_neighbors(v), k));
                recs.push(iter_record(|| d.out_neighbors(v), k));
            }
            V::L(recs)
        })
        .collect()
}

fn cyclewalks_desc(repr: &str, ids: &[usize]) -> Desc {
    let m = ids.len();
    let arcs: Vec<(usize, usize)> = (0..m).map(|i| (ids[i], ids[(i + 1) % m])).collect();
    let verts = if repr == "am" { ids.to_vec() } else { (0..m).collect() };
    plain(repr, verts, arcs)
}

pub fn eval(op: &str, args: &[V]) -> Option<Vec<V>> {
    if !op.starts_with("q_") {
        return None;
    }
    if op == "q_cyclewalks" {
        let [repr, ids, len, ps] = args else { return None };
        let (repr, ids, len, ps) = (repr.as_atom()?, ids.as_usizes()?, len.as_usize()?, ps.as_usizes()?);
        if ids.len() < 4 || len < 2 || len > 1 << 22 || (repr != "am" && ids.iter().enumerate().any(|(i, &x)| i != x)) {
            return None;
        }
        let desc = cyclewalks_desc(repr, &ids);
        let mut ws = vec![cycle_walk(&ids, len, None)];
        ws.extend(ps.iter().map(|&p| cycle_walk(&ids, len, Some(p))));
        return Some(crate::with_digraph!(&desc, d => framed(&d, |d| walks(d, &ws))));
    }
    let desc = Desc::parse(args.first()?)?;
    let ids_at = |i: usize| args.get(i).and_then(V::as_usizes);
    let walks_at =
        |i: usize| -> Option<Vec<Vec<usize>>> { args.get(i)?.as_list()?.iter().map(V::as_usizes).collect() };
    match op {
        "q_global" => Some(crate::with_digraph!(&desc, d => framed(&d, |d| global(d)))),
        "q_degseq" => Some(crate::with_digraph!(&desc, d => framed(&d, |d| degseq(d)))),
        "q_vertex" => {
            let ids = ids_at(1)?;
            Some(crate::with_digraph!(&desc, d => framed(&d, |d| vertex(d, &ids))))
        }
        "q_pairs" => {
            let ids = ids_at(1)?;
            Some(crate::with_digraph!(&desc, d => framed(&d, |d| pairs(d, &ids))))
        }
        "q_walks" => {
            let ws = walks_at(1)?;
            Some(crate::with_digraph!(&desc, d => framed(&d, |d| walks(d, &ws))))
        }
        "q_remove" => {
            let ps = args.get(1)?.as_pairs()?;
            Some(crate::with_digraph!(&desc, d => framed(&d, |d| remove(d, &ps))))
        }
        "q_iter" => {
            let (ks, ids) = (ids_at(1)?, ids_at(2)?);
            Some(crate::with_digraph!(&desc, d => framed(&d, |d| iter_records(d, &ks, &ids))))
        }
        "q_all" => {
            let (vids, pids, ws, ps) = (ids_at(1)?, ids_at(2)?, walks_at(3)?, args.get(4)?.as_pairs()?);
            Some(crate::with_digraph!(&desc, d => framed(&d, |d| {
                let mut out = global(d);
                out.extend(degseq(d));
                out.extend(vertex(d, &vids));
                out.extend(pairs(d, &pids));
                out.extend(walks(d, &ws));
                out.extend(remove(d, &ps));
                out
            })))
        }
        _ => None,
    }
}

// ---------------------------------------------------------------------------------------
// generator
// ---------------------------------------------------------------------------------------

/// Probe ids: every id of `0..order+2` for small digraphs, a sample (with the boundary ids
/// `0, order-1, order, order+1`) for large ones; for a sparse map its vertices plus absent ids.
fn probe_ids(rng: &mut Rng, d: &Desc, cap: usize) -> Vec<usize> {
    let n = d.order();
    let contiguous = d.verts.iter().enumerate().all(|(i, &v)| i == v);
    let mut ids: Vec<usize> = if contiguous {
        if n + 2 <= cap {
            (0..n + 2).collect()
        } else {
            let mut s: Vec<usize> = vec![0, n - 1, n, n + 1];
            while s.len() < cap {
                let x = rng.below(n);
                if !s.contains(&x) {
                    s.push(x);
                }
            }
            s
        }
    } else {
        let mut s = d.verts.clone();
        let mx = d.verts.iter().copied().max().unwrap_or(0);
        for x in [Some(0), Some(1), Some(5), mx.checked_add(1), mx.checked_add(7), Some(usize::MAX)] {
            if let Some(x) = x {
                if !s.contains(&x) {
                    s.push(x);
                }
            }
        }
        s
    };
    ids.sort_unstable();
    ids
}

fn gen_walks(rng: &mut Rng, d: &Desc) -> Vec<Vec<usize>> {
    let n = d.order();
    let vs = &d.verts;
    let mut out_rows: std::collections::BTreeMap<usize, Vec<usize>> = std::collections::BTreeMap::new();
    for &(u, v) in &d.arcs {
        out_rows.entry(u).or_default().push(v);
    }
    let follow = |rng: &mut Rng, len: usize| -> Vec<usize> {
        // a walk that follows arcs as long as it can
        let starts: Vec<usize> = out_rows.keys().copied().collect();
        if starts.is_empty() {
            return vec![vs[rng.below(n)]];
        }
        let mut w = vec![*rng.pick(&starts)];
        while w.len() < len {
            match out_rows.get(w.last().unwrap()) {
                Some(r) if !r.is_empty() => w.push(*rng.pick(r)),
                _ => break,
            }
        }
        w
    };
    let mut ws = vec![];
    // ~20 random: half arc-following (mostly true), half random vertex sequences
    for _ in 0..10 {
        let len = 2 + rng.below(7);
        ws.push(follow(rng, len));
    }
    for _ in 0..10 {
        let len = rng.below(6);
        ws.push((0..len).map(|_| vs[rng.below(n)]).collect());
    }
    // ~10 adversarial
    ws.push(vec![]);
    ws.push(vec![vs[rng.below(n)]]);
    let u = vs[rng.below(n)];
    ws.push(vec![u, u]);
    let mx = vs.iter().copied().max().unwrap_or(0);
    // an id outside V (maps whose largest key is usize::MAX: a gap below it)
    let outside = |k: usize| mx.checked_add(k).unwrap_or_else(|| (0..).find(|x| !vs.contains(x)).unwrap());
    let mut w = follow(rng, 5);
    w.push(outside(1)); // ends outside V
    ws.push(w);
    let mut w = follow(rng, 5);
    w.insert(0, outside(2)); // starts outside V
    ws.push(w);
    let mut w = follow(rng, 6);
    w.reverse(); // reversed valid walk
    ws.push(w);
    let mut w = follow(rng, 6);
    if w.len() >= 3 {
        let k = 1 + rng.below(w.len() - 2);
        w[k] = vs[rng.below(n)]; // one broken link in the middle
    }
    ws.push(w);
    let mut w = follow(rng, 7);
    if let Some(&last) = w.last() {
        w.push(last); // repeated last vertex (self-loop step)
    }
    ws.push(w);
    if let Some(&(a, b)) = d.arcs.first() {
        ws.push(vec![a, b]);
        ws.push(vec![b, a]);
        ws.push(vec![a, b, a, b, a]);
    }
    ws
}

fn show_walks(ws: &[Vec<usize>]) -> V {
    V::L(ws.iter().map(|w| V::us(w.iter().copied())).collect())
}

fn emit_all(rng: &mut Rng, d: &Desc, emit: &mut dyn FnMut(String)) {
    let dv = d.to_v();
    let n = d.order();
    let vids = V::us(probe_ids(rng, d, if n <= 40 { 64 } else { 14 }));
    let pids = V::us(probe_ids(rng, d, if n <= 40 { 64 } else { 22 }));
    let ws = show_walks(&gen_walks(rng, d));
    // remove_arc is total: present arcs, absent arcs, ids outside V
    let mx = d.verts.iter().copied().max().unwrap_or(0);
    let out1 = mx.checked_add(1).unwrap_or(mx / 3);
    let out2 = mx.checked_add(2).unwrap_or(mx / 3 + 1);
    let mut ps: Vec<(usize, usize)> = vec![(out1, 0), (0, out1), (out1, out2), (1 << 40, 0), (usize::MAX, 0)];
    for _ in 0..3 {
        ps.push((d.verts[rng.below(n)], d.verts[rng.below(n)]));
        if !d.arcs.is_empty() {
            ps.push(*rng.pick(&d.arcs));
        }
    }
    let ps = V::pairs(ps);
    if n <= 8 {
        // small digraphs: one line per group of queries (cheap, better diagnostics)
        emit(format!("q_global {dv}"));
        emit(format!("q_degseq {dv}"));
        emit(format!("q_vertex {dv} {vids}"));
        emit(format!("q_pairs {dv} {pids}"));
        emit(format!("q_walks {dv} {ws}"));
        emit(format!("q_remove {dv} {ps}"));
    } else {
        // larger ones: everything on one line (the description and the observation are long)
        emit(format!("q_all {dv} {vids} {pids} {ws} {ps}"));
    }
}

// ---------------------------------------------------------------------------------------
// out-of-distribution cases (round 2): large orders for the threaded degree_sequence, very long
// walks with exactly one non-arc, AdjacencyMap ids next to usize::MAX
// ---------------------------------------------------------------------------------------

fn plain(repr: &str, verts: Vec<usize>, arcs: Vec<(usize, usize)>) -> Desc {
    let k = arcs.len();
    Desc { repr: repr.to_string(), verts, arcs, weights: (0..k).map(|i| (i as i128) % 7 + 1).collect() }
}

/// Sparse arc sets on `0..n` whose arcs LEAVE the trailing rows (a dropped trailing chunk of rows
/// changes the indegree part of `degree_sequence`): circuit, in-star, tail rows -> random heads.
fn large_sparse(rng: &mut Rng, n: usize, shape: usize) -> Vec<(usize, usize)> {
    match shape {
        0 => (0..n).map(|u| (u, (u + 1) % n)).collect(),
        1 => (1..n).map(|u| (u, 0)).collect(),
        _ => {
            let mut set = std::collections::BTreeSet::new();
            for u in n.saturating_sub(70)..n {
                for _ in 0..3 {
                    let v = rng.below(n);
                    if v != u {
                        let _ = set.insert((u, v));
                    }
                }
            }
            for _ in 0..n / 2 {
                let (u, v) = (rng.below(n), rng.below(n));
                if u != v {
                    let _ = set.insert((u, v));
                }
            }
            let mut a: Vec<_> = set.into_iter().collect();
            rng.shuffle(&mut a);
            a
        }
    }
}

/// A closed walk around the directed cycle on `ids` of exactly `len` vertices; when `brk = Some(p)`
/// the pair at positions `(p, p+1)` is the ONLY non-arc (the walk jumps two steps ahead there).
fn cycle_walk(ids: &[usize], len: usize, brk: Option<usize>) -> Vec<usize> {
    let m = ids.len();
    let mut w = Vec::with_capacity(len);
    let mut k = 0usize;
    for i in 0..len {
        w.push(ids[k % m]);
        k += if Some(i) == brk { 2 } else { 1 };
    }
    w
}

/// Chunk-boundary positions of a walk of `len` vertices for every thread count 2..=16
/// (`chunks(ceil(len/t))`, `chunks(len/t)`), first and last boundary of each, plus a few random ones.
fn boundary_positions(rng: &mut Rng, len: usize, all_counts: bool) -> Vec<usize> {
    let mut ps = std::collections::BTreeSet::new();
    let counts: &[usize] = if all_counts { &[2, 3, 4, 5, 8, 13, 16] } else { &[3, 16] };
    for &t in counts {
        for c in [len.div_ceil(t), len / t] {
            if c >= 2 {
                let last = (len - 1) / c; // index of the last chunk
                for k in [1, last] {
                    if k >= 1 && k * c < len {
                        let _ = ps.insert(k * c - 1);
                    }
                }
            }
        }
    }
    for _ in 0..3 {
        let _ = ps.insert(rng.below(len - 1));
    }
    let _ = ps.insert(0);
    let _ = ps.insert(len - 2);
    ps.into_iter().collect()
}

fn long_walk_line(rng: &mut Rng, repr: &str, ids: &[usize], len: usize, all_counts: bool) -> String {
    let ps = boundary_positions(rng, len, all_counts);
    format!("q_cyclewalks {repr} {} {len} {}", V::us(ids.iter().copied()), V::us(ps))
}

const HUGE: [usize; 5] = [0, 7, usize::MAX / 2, usize::MAX - 1, usize::MAX];

/// AdjacencyMap digraphs whose ids include `usize::MAX`, `MAX-1`, `MAX/2`: every op group.
fn extreme_id_maps(rng: &mut Rng, count: usize, emit: &mut dyn FnMut(String)) {
    for i in 0..count {
        let mut ids: Vec<usize> = HUGE.to_vec();
        if i % 3 == 1 {
            ids = vec![usize::MAX - 2, usize::MAX - 1, usize::MAX];
        } else if i % 3 == 2 {
            ids.push(usize::MAX / 2 + 1);
            ids.sort_unstable();
        }
        let n = ids.len();
        let (_, arcs) = graphs::gen_arcs(rng, n);
        let arcs: Vec<(usize, usize)> = arcs.into_iter().map(|(u, v)| (ids[u], ids[v])).collect();
        let d = plain("am", ids, arcs);
        let dv = d.to_v();
        let vids = V::us(probe_ids(rng, &d, 64));
        emit(format!("q_global {dv}"));
        emit(format!("q_degseq {dv}"));
        emit(format!("q_vertex {dv} {vids}"));
        emit(format!("q_pairs {dv} {vids}"));
        emit(format!("q_walks {dv} {}", show_walks(&gen_walks(rng, &d))));
        let mut ps: Vec<(usize, usize)> = vec![(usize::MAX, 0), (1, usize::MAX), (usize::MAX, usize::MAX - 1)];
        ps.extend(d.arcs.iter().take(3).copied());
        emit(format!("q_remove {dv} {}", V::pairs(ps)));
    }
}

/// `q_degseq` on sparse AdjacencyLists whose order times the thread count exceeds 2^20 (66 000 … 524 289):
/// ~200 arcs, all leaving the last 200 rows, so the description is short (the observation carries the
/// vertex list: 0.5 – 4 MB per case). The driver runs the `Array` twin of the model (`degreeSequenceFast`)
/// and a hash-map oracle: 1 – 5 s per case. Also used by the C17 stress stream.
pub fn gen_degseq_huge(rng: &mut Rng, emit: &mut dyn FnMut(String)) {
    // 16 CPUs: order > 65 536; >= 6 CPUs: 200 000; 3 CPUs: > 349 525; 2 CPUs: > 524 288
    degseq_huge_orders(rng, &[70_000, 66_000, 131_073, 200_000, 350_001, 524_289], emit);
}

fn degseq_huge_orders(rng: &mut Rng, orders: &[usize], emit: &mut dyn FnMut(String)) {
    for &n in orders {
        let mut set = std::collections::BTreeSet::new();
        while set.len() < 200 {
            let u = n - 1 - rng.below(200);
            let v = rng.below(n);
            if u != v {
                let _ = set.insert((u, v));
            }
        }
        let mut arcs: Vec<(usize, usize)> = set.into_iter().collect();
        rng.shuffle(&mut arcs);
        let d = plain("al", (0..n).collect(), arcs);
        emit(format!("q_degseq {}", d.to_v()));
    }
}

/// The stress stream (only generated when a tie is broken and a failing input is searched for).
/// Most promising first; whole stream ~ 20 s of harness + driver time per thread mask.
fn gen_stress(rng: &mut Rng, emit: &mut dyn FnMut(String)) {
    // (0) order x CPUs > 2^20 (caps on the per-thread tallies)
    gen_degseq_huge(rng, emit);
    // (1) the threaded degree_sequence far above the thread count: 256-row thresholds and beyond
    for &n in &[257usize, 300, 513, 770, 1030, 192, 255, 256, 511, 600, 777, 1100] {
        for shape in 0..3 {
            let d = plain("al", (0..n).collect(), large_sparse(rng, n, shape));
            emit(format!("q_degseq {}", d.to_v()));
        }
    }
    // (2) ids next to usize::MAX
    extreme_id_maps(rng, 6, emit);
    // (3) very long walks with exactly one non-arc at (every thread count's) chunk boundaries
    let sparse: [usize; 6] = [2, 3, 11, 64, 65, 1000];
    for &len in &[4096usize, 5000, 10007, 4097, 8192, 4095, 65536] {
        emit(long_walk_line(rng, "am", &sparse, len, true));
    }
    emit(long_walk_line(rng, "am", &[0, 7, usize::MAX / 2, usize::MAX - 1, usize::MAX], 4096, true));
    for repr in ["al", "mx", "el", "wu", "wi"] {
        for &len in &[4096usize, 10007] {
            emit(long_walk_line(rng, repr, &[0, 1, 2, 3, 4], len, true));
        }
    }
    // (4) the other sequences / global queries on large sparse digraphs, every cheap representation
    for &n in &[300usize, 513, 1030] {
        for repr in ["al", "am", "el", "wu"] {
            let d = plain(repr, (0..n).collect(), large_sparse(rng, n, 2));
            emit(format!("q_global {}", d.to_v()));
        }
    }
}

/// `q_iter` cases: every representation tag, the matrix emphasised (orders whose `order^2` cells span
/// one, two, several 64-bit blocks), sparse and dense; `ks` = how often `next()` is called first.
fn gen_iter(rng: &mut Rng, thorough: bool, emit: &mut dyn FnMut(String)) {
    let rounds = if thorough { 80 } else { 20 };
    let mut lines: Vec<(usize, String)> = vec![];
    for r in 0..rounds {
        for repr in ["mx", "mx", "mx", "al", "am", "el", "wu", "wi"] {
            let n = match (r + rng.below(3)) % 6 {
                0 => 2 + rng.below(7),   // one block
                1 => 9 + rng.below(3),   // two or three blocks
                2 => 12 + rng.below(9),
                3 => 3,
                4 => 21 + rng.below(12),
                _ => 8,
            };
            let n = if repr == "mx" { n } else { n.min(16) };
            let (_, arcs) = graphs::gen_arcs(rng, n);
            let sparse_ids = repr == "am" && rng.chance(1, 2) && n <= 12;
            let d = if sparse_ids {
                let mut ids: Vec<usize> = vec![0, 2, 3, 7, 11, 63, 64, 65, 100, 127, 128, 1000];
                rng.shuffle(&mut ids);
                ids.truncate(n);
                ids.sort_unstable();
                let arcs = arcs.into_iter().map(|(u, v)| (ids[u], ids[v])).collect();
                plain(repr, ids, arcs)
            } else {
                plain(repr, (0..n).collect(), arcs)
            };
            // ids: the vertices with the largest indegree (several in-neighbours in one block), a few
            // random ones, one outside V
            let mut indeg: std::collections::BTreeMap<usize, usize> = std::collections::BTreeMap::new();
            for &(_, v) in &d.arcs {
                *indeg.entry(v).or_default() += 1;
            }
            let mut by: Vec<usize> = d.verts.clone();
            by.sort_by_key(|v| std::cmp::Reverse(indeg.get(v).copied().unwrap_or(0)));
            let mut ids: Vec<usize> = by.into_iter().take(3).collect();
            for _ in 0..2 {
                let x = d.verts[rng.below(d.verts.len())];
                if !ids.contains(&x) {
                    ids.push(x);
                }
            }
            ids.push(d.verts.iter().copied().max().unwrap_or(0) + 1);
            let ks = match rng.below(3) {
                0 => vec![0, 1],
                1 => vec![1, 2],
                _ => vec![1, 3 + rng.below(6)],
            };
            lines.push((n, format!("q_iter {} {} {}", d.to_v(), V::us(ks), V::us(ids))));
        }
    }
    lines.sort_by_key(|(n, s)| (*n, s.len()));
    for (_, s) in lines {
        emit(s);
    }
}

/// Cheap out-of-distribution cases that run in EVERY tier (after the regular stream).
fn gen_ood(rng: &mut Rng, emit: &mut dyn FnMut(String)) {
    for &n in &[257usize, 300, 513] {
        let shape = rng.below(3);
        let d = plain("al", (0..n).collect(), large_sparse(rng, n, shape));
        emit(format!("q_degseq {}", d.to_v()));
    }
    extreme_id_maps(rng, 2, emit);
    degseq_huge_orders(rng, &[70_000], emit); // order x 16 CPUs > 2^20
    emit(long_walk_line(rng, "am", &[2, 3, 11, 64, 65, 1000], 4096, false));
    emit(long_walk_line(rng, "al", &[0, 1, 2, 3, 4], 4096, false));
}

pub fn gen(rng: &mut Rng, thorough: bool, emit: &mut dyn FnMut(String)) {
    if crate::stress() {
        gen_stress(rng, emit);
        return;
    }
    if thorough {
        // exhaustive small scope: every digraph on <= 3 vertices, every representation
        for n in 1usize..=3 {
            let pairs: Vec<(usize, usize)> =
                (0..n).flat_map(|u| (0..n).filter(move |&v| v != u).map(move |v| (u, v))).collect();
            for code in 0u32..(1 << pairs.len()) {
                let arcs: Vec<(usize, usize)> =
                    pairs.iter().enumerate().filter(|(i, _)| code >> i & 1 == 1).map(|(_, &p)| p).collect();
                for repr in graphs::ALL_REPRS {
                    let k = arcs.len();
                    let d = Desc {
                        repr: repr.to_string(),
                        verts: (0..n).collect(),
                        arcs: arcs.clone(),
                        weights: (0..k).map(|i| (i as i128) % 5 + 1).collect(),
                    };
                    emit_all(rng, &d, emit);
                }
            }
        }
    }
    // Random digraphs; emitted smallest first so that the first failing case (the one the
    // orchestrator shrinks and reports) is a small one.
    let mut descs: Vec<Desc> = vec![];
    let n_base = if thorough { 300 } else { 56 };
    for _ in 0..n_base {
        let (_, base) = graphs::gen_desc(rng, "al", 130);
        for repr in graphs::ALL_REPRS {
            let mut d = base.with_repr(repr);
            match repr {
                "wu" => d.weights = d.arcs.iter().map(|_| i128::from(rng.range(0, 9))).collect(),
                "wi" => d.weights = d.arcs.iter().map(|_| i128::from(rng.range(-9, 9))).collect(),
                _ => {}
            }
            descs.push(d);
        }
    }
    let n_sparse = if thorough { 300 } else { 50 };
    for _ in 0..n_sparse {
        descs.push(graphs::gen_am_sparse(rng, 12).1);
    }
    descs.sort_by_key(|d| (d.order(), d.arcs.len()));
    for d in &descs {
        emit_all(rng, d, emit);
    }
    gen_iter(rng, thorough, emit);
    gen_ood(rng, emit);
}
