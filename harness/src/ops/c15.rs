//! C15 — the seeded random generators on the real code.
//!
//!   rand_tournament <repr> <order> <seed>                    =>  <obs|panic> <repeat>
//!   rand_rrt        <repr> <order> <seed>                    =>  <obs|panic> <repeat>
//!   rand_er         <repr> <order> <pbits> <qbits> <seed>    =>  <obs|panic> <repeat>
//!   rand_f64        <seed> <k>                               =>  [bits of the first k next_f64()]
//!   rand_u64        <seed> <k>                               =>  [first k next()]
//!
//! `repr` ∈ al am mx el.  `obs` = `graphs::observe` of the returned digraph; `repeat` = whether a
//! second call with equal arguments returned an equal digraph (`==`; two panics count as equal).
//! `pbits = p.to_bits()`; `qbits = (1.0 - p).to_bits()` as THIS harness computes it (the model
//! never subtracts doubles; `eval` refuses a line whose `qbits` is not what it computes itself).
//! Seeds are full `u64` (the protocol's integers are arbitrary precision on both sides).
#![allow(clippy::all)]

use crate::graphs;
use crate::rng::Rng;
use crate::value::V;
use graaf::gen::prng::Xoshiro256StarStar;
use graaf::{AdjacencyList, AdjacencyMap, AdjacencyMatrix, EdgeList, ErdosRenyi, RandomRecursiveTree, RandomTournament};
use std::panic::{catch_unwind, AssertUnwindSafe};

/// Call `f` twice; observe the first result and compare the two.
fn twice<D>(f: impl Fn() -> D) -> Vec<V>
where
    D: graaf::Order + graaf::Vertices + graaf::Arcs + PartialEq,
{
    let a = catch_unwind(AssertUnwindSafe(&f));
    let b = catch_unwind(AssertUnwindSafe(&f));
    let same = match (&a, &b) {
        (Ok(x), Ok(y)) => x == y,
        (Err(_), Err(_)) => true,
        _ => false,
    };
    let first = match &a {
        Ok(d) => graphs::observe(d),
        Err(_) => V::atom("panic"),
    };
    vec![first, V::bool(same)]
}

pub fn eval(op: &str, args: &[V]) -> Option<Vec<V>> {
    match op {
        "rand_tournament" => {
            let [repr, order, seed] = args else { return None };
            let (n, seed) = (order.as_usize()?, seed.as_u64()?);
            Some(match repr.as_atom()? {
                "al" => twice(|| AdjacencyList::random_tournament(n, seed)),
                "am" => twice(|| AdjacencyMap::random_tournament(n, seed)),
                "mx" => twice(|| AdjacencyMatrix::random_tournament(n, seed)),
                "el" => twice(|| EdgeList::random_tournament(n, seed)),
                _ => return None,
            })
        }
        "rand_rrt" => {
            let [repr, order, seed] = args else { return None };
            let (n, seed) = (order.as_usize()?, seed.as_u64()?);
            Some(match repr.as_atom()? {
                "al" => twice(|| AdjacencyList::random_recursive_tree(n, seed)),
                "am" => twice(|| AdjacencyMap::random_recursive_tree(n, seed)),
                "mx" => twice(|| AdjacencyMatrix::random_recursive_tree(n, seed)),
                "el" => twice(|| EdgeList::random_recursive_tree(n, seed)),
                _ => return None,
            })
        }
        "rand_er" => {
            let [repr, order, pbits, qbits, seed] = args else { return None };
            let (n, seed) = (order.as_usize()?, seed.as_u64()?);
            let p = f64::from_bits(pbits.as_u64()?);
            if (1.0 - p).to_bits() != qbits.as_u64()? {
                return None;
            }
            Some(match repr.as_atom()? {
                "al" => twice(|| AdjacencyList::erdos_renyi(n, p, seed)),
                "am" => twice(|| AdjacencyMap::erdos_renyi(n, p, seed)),
                "mx" => twice(|| AdjacencyMatrix::erdos_renyi(n, p, seed)),
                "el" => twice(|| EdgeList::erdos_renyi(n, p, seed)),
                _ => return None,
            })
        }
        "rand_f64" => {
            let [seed, k] = args else { return None };
            let mut rng = Xoshiro256StarStar::new(seed.as_u64()?);
            Some(vec![V::L((0..k.as_usize()?).map(|_| V::I(i128::from(rng.next_f64().to_bits()))).collect())])
        }
        "rand_u64" => {
            let [seed, k] = args else { return None };
            let rng = Xoshiro256StarStar::new(seed.as_u64()?);
            Some(vec![V::L(rng.take(k.as_usize()?).map(|x| V::I(i128::from(x))).collect())])
        }
        _ => None,
    }
}

/// Seeds whose FIRST xoshiro256** output is extreme.  `Xoshiro256StarStar::new(seed)` takes its state
/// word 1 from the second SplitMix64 output and the first output is `rotl(s1 * 5, 7) * 9`; both maps
/// are bijections of u64, so for every target `T` there is exactly one seed (computed offline by
/// inverting them; the driver's bit-exact model re-derives the draw, tag `draw1-extreme`).
/// Worker `k` of the map generators uses `seed + k`, so `seed - k` puts the draw at worker k's first pair.
pub const EXTREME_SEEDS: [(&str, u64); 15] = [
    ("first draw 0", 0xC391_0C8D_016B_07D6),                      // next_f64 = 0.0, next_bool = false
    ("first draw 1<<52 (low 52 bits 0)", 0xFAD5_AE5C_F52B_015E),  // next_f64 = 0.0
    ("first draw u64::MAX", 0x1B22_4C3D_76E7_78F7),               // next() % u at the top of the range
    ("first draw 2^52-1 (low 52 bits 1)", 0xA661_6825_AA13_BC2B), // next_f64 = 1 - 2^-52
    ("first draw 2^63-1", 0x4CB4_E628_7346_FE71),                 // low 52 bits all ones
    ("first draw = 0.5", 0xB804_F560_188B_7C41),
    ("first draw = 0.25", 0xAB12_A4FE_E7FD_FF1D),
    ("first draw = 0.75", 0xEC42_57B8_1075_9DA2),
    ("first draw = 2^-52", 0xF1F6_B651_1135_3E2B),
    ("first draw u64::MAX-1", 0x4497_F5B0_734F_0C37),
    ("first draw = 0.5 - 2^-52", 0x5D06_CCEE_D9CF_256C),
    ("first draw = 0.5 + 2^-52", 0x8D9C_C106_C13C_358D),
    ("first draw = 0.125", 0xDE95_EE8B_C7DC_C460),
    ("first draw 0x9010…0 (low 52 bits 0)", 0x8CA3_59AB_84BB_81ED),
    ("first draw 0x3C5F…F (low 52 bits 1)", 6_709_543_763_653_945_707),
];

/// `p` values that a `next_f64()` of the table equals exactly, or whose `1 - p` it equals.
const DYADIC_P: [f64; 8] = [1.0, 0.0, 0.5, 0.25, 0.75, 0.125, 0.875, 1.0 - 1.0 / 4503599627370496.0];

/// Extreme-draw seeds x tiny orders x all generators x all representations (cheap: orders 2..=9).
/// `ps`: how many entries of `DYADIC_P` are used; `offsets`: workers 1..=offsets also get the draw.
fn gen_extreme(emit: &mut dyn FnMut(String), orders: &[usize], ps: usize, offsets: u64) {
    for (_, seed) in EXTREME_SEEDS {
        emit(format!("rand_f64 {seed} 4"));
        emit(format!("rand_u64 {seed} 4"));
        for &n in orders {
            for repr in graphs::UNWEIGHTED {
                emit(format!("rand_rrt {repr} {n} {seed}"));
                emit(format!("rand_tournament {repr} {n} {seed}"));
                for p in &DYADIC_P[..ps] {
                    emit(er_line(repr, n, *p, seed));
                }
            }
        }
        // worker k of the map generators draws from `seed + k`: put the extreme draw there
        // (order 3 = one row per worker under masks 3 and 16)
        for k in 1..=offsets {
            let s = seed.wrapping_sub(k);
            let n = orders.last().copied().unwrap_or(2) + 1;
            emit(format!("rand_tournament am {n} {s}"));
            for p in &DYADIC_P[..ps] {
                emit(er_line("am", n, *p, s));
            }
        }
    }
}

/// Seeds next to `u64::MAX`: `seed + thread_id` wraps for the workers after the first few.
fn gen_wrap_seeds(emit: &mut dyn FnMut(String), orders: &[usize]) {
    for k in 0..=16u64 {
        let seed = u64::MAX - k;
        for &n in orders {
            emit(format!("rand_tournament am {n} {seed}"));
            emit(er_line("am", n, 0.3, seed));
            emit(er_line("am", n, 0.8125, seed));
        }
    }
}

/// Out-of-distribution stream for the failing-input search (most promising first, ~40 s budget).
fn gen_stress(rng: &mut Rng, emit: &mut dyn FnMut(String)) {
    gen_extreme(emit, &[3, 6], 8, 3);
    gen_wrap_seeds(emit, &[16, 17, 32, 48, 130]);
    // thresholds in the row/worker split that only large orders reach (256 rows per worker, …):
    // the tournament model is not run above order 300 (driver: oracle only)
    for n in [770usize, 1030, 513] {
        emit(format!("rand_tournament am {n} {}", rng.next()));
    }
    for n in [770usize, 1030] {
        emit(er_line("am", n, 2.0 / n as f64, rng.next()));
    }
    emit(er_line("am", 770, 1.0 - 2.0 / 770.0, rng.next()));
    for repr in graphs::UNWEIGHTED {
        emit(format!("rand_rrt {repr} 770 {}", rng.next()));
    }
    for repr in ["al", "mx"] {
        emit(format!("rand_tournament {repr} 363 {}", rng.next()));
        emit(er_line(repr, 363, 0.01, rng.next()));
    }
}

fn gen_seed(rng: &mut Rng) -> u64 {
    match rng.below(12) {
        0 => 0,
        1 => 1,
        2 => u64::MAX,            // seed + thread_id wraps for every worker but the first
        3 => u64::MAX - 2,        // wraps from worker 3 on
        4 => rng.below(1000) as u64,
        _ => rng.next(),
    }
}

/// Orders 1..=130: small, around the thread counts of the masks (1, 3, 16) and their multiples,
/// far above the core count, not multiples of the chunk size.
fn gen_order(rng: &mut Rng, max: usize) -> usize {
    const EDGE: [usize; 22] = [1, 2, 3, 4, 5, 6, 7, 15, 16, 17, 18, 31, 32, 33, 47, 48, 49, 63, 64, 65, 129, 130];
    let n = match rng.below(20) {
        0..=7 => 1 + rng.below(9),
        8..=11 => *rng.pick(&EDGE),
        12..=16 => 10 + rng.below(40),
        17..=18 => 50 + rng.below(41),
        _ => 91 + rng.below(40),
    };
    n.min(max).max(1)
}

fn next_up(x: f64) -> f64 {
    f64::from_bits(x.to_bits() + 1)
}
fn next_down(x: f64) -> f64 {
    f64::from_bits(x.to_bits() - 1)
}

/// Returns (p, in range?)
fn gen_p(rng: &mut Rng) -> f64 {
    match rng.below(20) {
        0 | 1 => 0.0,
        2 | 3 => 1.0,
        4 => 0.5,
        5 => next_up(0.5),
        6 => next_down(0.5),
        7 => next_down(1.0),
        8 => f64::from_bits(1),          // smallest subnormal
        9 => -0.0,
        10 | 18 | 19 => *rng.pick(&[-0.1, 1.5, f64::NAN, f64::INFINITY, f64::NEG_INFINITY, -f64::from_bits(1), next_up(1.0), -1.0, 2.0]),
        11 | 12 => (rng.next() >> 11) as f64 / (1u64 << 53) as f64 * 0.5, // [0, 0.5)
        13 | 14 => 0.5 + (rng.next() >> 11) as f64 / (1u64 << 53) as f64 * 0.5, // [0.5, 1)
        15 => 1.0 / (1 + rng.below(20)) as f64,
        16 => 1.0 - 1.0 / (2 + rng.below(20)) as f64,
        _ => (rng.next() >> 11) as f64 / (1u64 << 53) as f64,
    }
}

fn er_line(repr: &str, n: usize, p: f64, seed: u64) -> String {
    format!("rand_er {repr} {n} {} {} {seed}", p.to_bits(), (1.0 - p).to_bits())
}

pub fn gen(rng: &mut Rng, thorough: bool, emit: &mut dyn FnMut(String)) {
    let reprs = graphs::UNWEIGHTED;
    if crate::stress() {
        // search mode: only the out-of-distribution stream (the regular streams ran already)
        gen_stress(rng, emit);
        return;
    }
    // (0) extreme-draw seeds and wrapping worker seeds: part of every tier
    gen_extreme(emit, if thorough { &[2, 5] } else { &[2] }, if thorough { 8 } else { 5 }, if thorough { 3 } else { 1 });
    gen_wrap_seeds(emit, if thorough { &[16, 20, 32, 48] } else { &[20] });
    // (1) exhaustive small scope: every order 1..=6 x 3 fixed seeds x every repr, all three generators
    let small_max = if thorough { 9 } else { 5 };
    for n in 1..=small_max {
        for seed in [0u64, 1, u64::MAX] {
            for repr in reprs {
                emit(format!("rand_tournament {repr} {n} {seed}"));
                emit(format!("rand_rrt {repr} {n} {seed}"));
                for p in [0.0, 1.0, 0.5, 0.75] {
                    emit(er_line(repr, n, p, seed));
                }
            }
        }
    }
    // (2) the same (order, seed[, p]) for all four representations (the sequential ones must agree)
    let rounds = if thorough { 330 } else { 26 };
    let max_order = 130;
    for _ in 0..rounds {
        let n = gen_order(rng, max_order);
        let seed = gen_seed(rng);
        for repr in reprs {
            emit(format!("rand_tournament {repr} {n} {seed}"));
        }
        let n = gen_order(rng, max_order);
        let seed = gen_seed(rng);
        for repr in reprs {
            emit(format!("rand_rrt {repr} {n} {seed}"));
        }
        for _ in 0..2 {
            let n = gen_order(rng, max_order);
            let seed = gen_seed(rng);
            let p = gen_p(rng);
            for repr in reprs {
                // the edge-list model inserts into a sorted list (quadratic): most large dense cases skip it
                if repr == "el" && n > 70 && p > 0.25 && !rng.chance(1, 4) {
                    continue;
                }
                emit(er_line(repr, n, p, seed));
            }
        }
    }
    // (3) extra weight on the threaded map variants (orders around / above the thread counts)
    // orders whose split over 3 / 16 workers has a short last chunk or spawns fewer workers than `t`
    const AROUND_T: [usize; 20] = [4, 4, 4, 5, 7, 8, 16, 17, 18, 20, 22, 26, 31, 33, 40, 47, 63, 100, 119, 130];
    for _ in 0..(if thorough { 700 } else { 175 }) {
        let n = if rng.chance(3, 4) { *rng.pick(&AROUND_T) } else { gen_order(rng, max_order) };
        let seed = gen_seed(rng);
        emit(format!("rand_tournament am {n} {seed}"));
        let n = if rng.chance(3, 4) { *rng.pick(&AROUND_T) } else { gen_order(rng, max_order) };
        let p = gen_p(rng);
        emit(er_line("am", n, p, gen_seed(rng)));
    }
    // (4) out-of-range p for every representation, p = 0 / 1 on larger orders
    for repr in reprs {
        for p in [-0.1, 1.5, f64::NAN, f64::INFINITY, next_up(1.0), -f64::from_bits(1), f64::NEG_INFINITY, -1.0, 2.0, -f64::NAN, 1e300, -1e-300] {
            emit(er_line(repr, 1 + rng.below(20), p, gen_seed(rng)));
        }
        for p in [0.0, 1.0, -0.0] {
            emit(er_line(repr, gen_order(rng, max_order), p, gen_seed(rng)));
        }
    }
    // (5) raw PRNG: next() and next_f64() bit patterns
    for seed in [0u64, 1, u64::MAX, 123] {
        emit(format!("rand_u64 {seed} 64"));
        emit(format!("rand_f64 {seed} 64"));
    }
    for _ in 0..(if thorough { 300 } else { 90 }) {
        let seed = gen_seed(rng);
        emit(format!("rand_u64 {seed} {}", 1 + rng.below(200)));
        emit(format!("rand_f64 {seed} {}", if thorough { 2000 } else { 1000 }));
    }
    // (6) order 0 is outside the property (documented panic): correspondence only
    for repr in reprs {
        emit(format!("rand_tournament {repr} 0 7"));
        emit(format!("rand_rrt {repr} 0 7"));
        emit(er_line(repr, 0, 0.25, 7));
    }
}
