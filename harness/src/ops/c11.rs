//! C11 — `complement`, `converse`, `union`, `filter_vertices` on the real code (and the
//! operation part of C17: the same ops are run under several `taskset` masks).
//!
//!   ops_complement D        => obs(D) obs(R) unchanged invol
//!   ops_converse   D        => obs(D) obs(R) unchanged invol
//!   ops_union      A B      => obs(A) obs(B) obs(R) unchanged comm idemA idemB
//!   ops_union3     A B C    => obs(A) obs(B) obs(C) obs((A u B) u C) assoc
//!   ops_filter     D pred   => obs(D) obs(R) unchanged
//!
//! `obs` = `[order [vertices] [arcs]]` (`graphs::observe`; weighted arcs as `[u v w]`),
//! `unchanged` = operands `==` their pre-call clones, the other flags are the algebraic
//! identities evaluated with `==` on the real results.  `pred` ∈
//! `[ge k] [lt k] [mod m r] [in [..]] none all`.
#![allow(clippy::all)]

use crate::graphs::{self, observe, Desc};
use crate::rng::Rng;
use crate::value::V;
use graaf::{
    AdjacencyListWeighted, Arcs, ArcsWeighted, Complement, Converse, FilterVertices, Order, Union,
    Vertices,
};
use std::collections::BTreeSet;

trait ToI128: Copy {
    fn to_i128(self) -> i128;
}
impl ToI128 for usize {
    fn to_i128(self) -> i128 {
        self as i128
    }
}
impl ToI128 for isize {
    fn to_i128(self) -> i128 {
        self as i128
    }
}

fn observe_w<W: ToI128>(d: &AdjacencyListWeighted<W>) -> V {
    V::L(vec![
        V::u(d.order()),
        V::us(d.vertices()),
        V::L(d
            .arcs_weighted()
            .map(|(u, v, w)| V::L(vec![V::u(u), V::u(v), V::I(w.to_i128())]))
            .collect()),
    ])
}

fn complement_case<D>(d: D) -> Vec<V>
where
    D: Complement + Clone + PartialEq + Order + Vertices + Arcs,
{
    let before = d.clone();
    let r = d.complement();
    let unchanged = d == before;
    let invol = r.complement() == d;
    vec![observe(&d), observe(&r), V::bool(unchanged), V::bool(invol)]
}

fn converse_case<D>(d: D) -> Vec<V>
where
    D: Converse + Clone + PartialEq + Order + Vertices + Arcs,
{
    let before = d.clone();
    let r = d.converse();
    let unchanged = d == before;
    let invol = r.converse() == d;
    vec![observe(&d), observe(&r), V::bool(unchanged), V::bool(invol)]
}

fn converse_case_w<W>(d: AdjacencyListWeighted<W>) -> Vec<V>
where
    W: ToI128 + PartialEq,
{
    let before = d.clone();
    let r = d.converse();
    let unchanged = d == before;
    let invol = r.converse() == d;
    vec![observe_w(&d), observe_w(&r), V::bool(unchanged), V::bool(invol)]
}

fn union_case<D>(a: D, b: D) -> Vec<V>
where
    D: Union + Clone + PartialEq + Order + Vertices + Arcs,
{
    let (a0, b0) = (a.clone(), b.clone());
    let r = a.union(&b);
    let unchanged = a == a0 && b == b0;
    let comm = r == b.union(&a);
    let idem_a = a.union(&a) == a;
    let idem_b = b.union(&b) == b;
    vec![
        observe(&a),
        observe(&b),
        observe(&r),
        V::bool(unchanged),
        V::bool(comm),
        V::bool(idem_a),
        V::bool(idem_b),
    ]
}

fn union3_case<D>(a: D, b: D, c: D) -> Vec<V>
where
    D: Union + Clone + PartialEq + Order + Vertices + Arcs,
{
    let l = a.union(&b).union(&c);
    let r = a.union(&b.union(&c));
    vec![observe(&a), observe(&b), observe(&c), observe(&l), V::bool(l == r)]
}

fn parse_pred(v: &V) -> Option<Box<dyn Fn(usize) -> bool>> {
    match v {
        V::A(a) if a == "none" => Some(Box::new(|_| false)),
        V::A(a) if a == "all" => Some(Box::new(|_| true)),
        V::L(xs) if !xs.is_empty() => match (xs[0].as_atom()?, xs.len()) {
            ("ge", 2) => {
                let k = xs[1].as_usize()?;
                Some(Box::new(move |v| v >= k))
            }
            ("lt", 2) => {
                let k = xs[1].as_usize()?;
                Some(Box::new(move |v| v < k))
            }
            ("mod", 3) => {
                let m = xs[1].as_usize()?;
                let r = xs[2].as_usize()?;
                if m == 0 {
                    return None;
                }
                Some(Box::new(move |v| v % m == r))
            }
            ("in", 2) => {
                let set: BTreeSet<usize> = xs[1].as_usizes()?.into_iter().collect();
                Some(Box::new(move |v| set.contains(&v)))
            }
            _ => None,
        },
        _ => None,
    }
}

pub fn eval(op: &str, args: &[V]) -> Option<Vec<V>> {
    match op {
        "ops_complement" => {
            let [d] = args else { return None };
            let d = Desc::parse(d)?;
            match d.repr.as_str() {
                "al" => Some(complement_case(d.build_al())),
                "am" => Some(complement_case(d.build_am())),
                "mx" => Some(complement_case(d.build_mx())),
                "el" => Some(complement_case(d.build_el())),
                _ => None,
            }
        }
        "ops_converse" => {
            let [d] = args else { return None };
            let d = Desc::parse(d)?;
            match d.repr.as_str() {
                "al" => Some(converse_case(d.build_al())),
                "am" => Some(converse_case(d.build_am())),
                "mx" => Some(converse_case(d.build_mx())),
                "el" => Some(converse_case(d.build_el())),
                "wu" => Some(converse_case_w(d.build_wu())),
                "wi" => Some(converse_case_w(d.build_wi())),
                _ => None,
            }
        }
        "ops_union" => {
            let [a, b] = args else { return None };
            let a = Desc::parse(a)?;
            let b = Desc::parse(b)?;
            if a.repr != b.repr {
                return None;
            }
            match a.repr.as_str() {
                "al" => Some(union_case(a.build_al(), b.build_al())),
                "am" => Some(union_case(a.build_am(), b.build_am())),
                "mx" => Some(union_case(a.build_mx(), b.build_mx())),
                "el" => Some(union_case(a.build_el(), b.build_el())),
                _ => None,
            }
        }
        "ops_union3" => {
            let [a, b, c] = args else { return None };
            let a = Desc::parse(a)?;
            let b = Desc::parse(b)?;
            let c = Desc::parse(c)?;
            if a.repr != b.repr || b.repr != c.repr {
                return None;
            }
            match a.repr.as_str() {
                "al" => Some(union3_case(a.build_al(), b.build_al(), c.build_al())),
                "am" => Some(union3_case(a.build_am(), b.build_am(), c.build_am())),
                "mx" => Some(union3_case(a.build_mx(), b.build_mx(), c.build_mx())),
                "el" => Some(union3_case(a.build_el(), b.build_el(), c.build_el())),
                _ => None,
            }
        }
        "ops_filter" => {
            let [d, p] = args else { return None };
            let d = Desc::parse(d)?;
            if d.repr != "am" {
                return None;
            }
            let p = parse_pred(p)?;
            let g = d.build_am();
            let before = g.clone();
            let r = g.filter_vertices(|v| p(v));
            let unchanged = g == before;
            Some(vec![observe(&g), observe(&r), V::bool(unchanged)])
        }
        _ => None,
    }
}

// ---------------------------------------------------------------------------------------
// generator
// ---------------------------------------------------------------------------------------

const UNW: [&str; 4] = ["al", "am", "mx", "el"];

/// Largest order generated for a representation (the model of `EdgeList` is quadratic in the
/// number of arcs; the threaded ones go above the core count).
fn cap(repr: &str) -> usize {
    match repr {
        "el" => 40,
        "mx" => 100,
        _ => 130,
    }
}

fn mk(repr: &str, n: usize, arcs: Vec<(usize, usize)>) -> Desc {
    let k = arcs.len();
    Desc { repr: repr.to_string(), verts: (0..n).collect(), arcs, weights: vec![1; k] }
}

/// A random description of order exactly `n`.
fn desc_of_order(rng: &mut Rng, repr: &str, n: usize) -> Desc {
    let (_f, arcs) = graphs::gen_arcs(rng, n);
    mk(repr, n, arcs)
}

/// Relabel a contiguous description onto the given ascending id list (`am` only).
fn relabel(d: &Desc, ids: &[usize]) -> Desc {
    let arcs: Vec<(usize, usize)> = d.arcs.iter().map(|&(u, v)| (ids[u], ids[v])).collect();
    let k = arcs.len();
    Desc { repr: "am".to_string(), verts: ids.to_vec(), arcs, weights: vec![1; k] }
}

/// `n` distinct ascending ids below `bound`.
fn sparse_ids(rng: &mut Rng, n: usize, bound: usize) -> Vec<usize> {
    let mut all: Vec<usize> = (0..bound.max(n)).collect();
    rng.shuffle(&mut all);
    all.truncate(n);
    all.sort_unstable();
    all
}

/// A random `am` description, a third of them with non-contiguous ids.
fn gen_am(rng: &mut Rng, max: usize) -> Desc {
    match rng.below(3) {
        0 => graphs::gen_am_sparse(rng, max).1,
        1 => {
            let (_f, d) = graphs::gen_desc(rng, "am", max);
            let n = d.order();
            let ids = sparse_ids(rng, n, 3 * n + 5);
            relabel(&d, &ids)
        }
        _ => graphs::gen_desc(rng, "am", max).1,
    }
}

fn gen_any(rng: &mut Rng, repr: &str) -> Desc {
    if repr == "am" {
        gen_am(rng, cap(repr))
    } else {
        graphs::gen_desc(rng, repr, cap(repr)).1
    }
}

fn gen_pred(rng: &mut Rng, d: &Desc, kind: usize) -> V {
    let hi = d.verts.last().copied().unwrap_or(0) + 1;
    match kind {
        0 => V::atom("none"),
        1 => V::atom("all"),
        2 => V::L(vec![V::atom("ge"), V::u(rng.below(hi + 1))]),
        3 => V::L(vec![V::atom("lt"), V::u(rng.below(hi + 1))]),
        4 => {
            let m = 2 + rng.below(3);
            V::L(vec![V::atom("mod"), V::u(m), V::u(rng.below(m))])
        }
        _ => {
            let mut keep: Vec<usize> = d.verts.iter().copied().filter(|_| rng.chance(1, 2)).collect();
            if rng.chance(1, 4) {
                keep.push(hi + 3); // an id that is not a vertex
            }
            V::L(vec![V::atom("in"), V::us(keep)])
        }
    }
}

/// Pair for `union`: equal order (half of the time), or independent orders.
fn gen_pair(rng: &mut Rng, repr: &str, mode: usize) -> (Desc, Desc) {
    if repr == "am" {
        let a = gen_am(rng, cap(repr));
        let b = match mode % 4 {
            // the same key set: every key is an equal-key pair, also at the partition boundaries
            0 => {
                let n = a.order();
                let c = desc_of_order(rng, "am", n);
                relabel(&c, &a.verts)
            }
            // interleaved / shifted keys
            2 => {
                let n = 1 + rng.below(a.order() + 3);
                let c = desc_of_order(rng, "am", n);
                let off = rng.below(3);
                let ids: Vec<usize> = (0..n).map(|i| 2 * i + off).collect();
                relabel(&c, &ids)
            }
            _ => gen_am(rng, cap(repr)),
        };
        if rng.chance(1, 2) { (a, b) } else { (b, a) }
    } else {
        let a = graphs::gen_desc(rng, repr, cap(repr)).1;
        let b = if rng.chance(1, 2) {
            desc_of_order(rng, repr, a.order())
        } else {
            graphs::gen_desc(rng, repr, cap(repr)).1
        };
        (a, b)
    }
}

/// All digraphs on `n` vertices (arc subsets of the `n(n-1)` ordered pairs).
fn all_digraphs(n: usize) -> Vec<Vec<(usize, usize)>> {
    let pairs: Vec<(usize, usize)> =
        (0..n).flat_map(|u| (0..n).filter(move |&v| v != u).map(move |v| (u, v))).collect();
    (0..(1usize << pairs.len()))
        .map(|code| pairs.iter().enumerate().filter(|(i, _)| code >> i & 1 == 1).map(|(_, &p)| p).collect())
        .collect()
}

pub fn gen(rng: &mut Rng, thorough: bool, emit: &mut dyn FnMut(String)) {
    // (1) exhaustive small scope: every digraph on <= 3 vertices, every representation;
    //     thorough: also every pair of them for union (orders equal and different).
    let small: Vec<(usize, Vec<(usize, usize)>)> =
        (1..=3).flat_map(|n| all_digraphs(n).into_iter().map(move |a| (n, a))).collect();
    for repr in UNW {
        for (n, arcs) in &small {
            if !thorough && *n == 3 && rng.below(8) != 0 {
                continue;
            }
            let d = mk(repr, *n, arcs.clone()).to_v();
            emit(format!("ops_complement {d}"));
            emit(format!("ops_converse {d}"));
        }
        for (n1, a1) in &small {
            for (n2, a2) in &small {
                let keep = if thorough { *n1 + *n2 < 6 || rng.below(8) == 0 } else { rng.below(60) == 0 };
                if keep {
                    emit(format!("ops_union {} {}", mk(repr, *n1, a1.clone()).to_v(), mk(repr, *n2, a2.clone()).to_v()));
                }
            }
        }
    }
    // (2) orders around the thread counts (rows below / equal / just above / far above `t`,
    //     not multiples of the chunk size) for the three threaded operations
    let ladder: &[usize] = if thorough {
        &[1, 2, 3, 4, 5, 7, 8, 9, 12, 13, 14, 15, 16, 17, 18, 23, 31, 32, 33, 47, 48, 49, 63, 64, 65, 97, 113, 127, 128, 129, 130]
    } else {
        &[1, 2, 3, 4, 5, 15, 16, 17, 33, 47, 49, 65, 113, 130]
    };
    for &n in ladder {
        let a = desc_of_order(rng, "al", n);
        emit(format!("ops_complement {}", a.to_v()));
        let m = ladder[rng.below(ladder.len())];
        let b = desc_of_order(rng, "al", m);
        emit(format!("ops_union {} {}", a.to_v(), b.to_v()));
        // map union: n1 + n2 around the thread count; same key set and disjoint key ranges
        let c = desc_of_order(rng, "am", n);
        let e = desc_of_order(rng, "am", n);
        emit(format!("ops_union {} {}", c.to_v(), e.to_v()));
        let ids: Vec<usize> = (0..m).map(|i| n + 2 + i).collect();
        let f = relabel(&desc_of_order(rng, "am", m), &ids);
        emit(format!("ops_union {} {}", c.to_v(), f.to_v()));
        emit(format!("ops_union {} {}", f.to_v(), c.to_v()));
    }
    // (3) random digraphs / pairs, every representation that implements the operation
    let rounds = if thorough { 120 } else { 40 };
    for round in 0..rounds {
        for (ri, repr) in UNW.into_iter().enumerate() {
            let d = gen_any(rng, repr);
            emit(format!("ops_complement {}", d.to_v()));
            let d = gen_any(rng, repr);
            emit(format!("ops_converse {}", d.to_v()));
            let (a, b) = gen_pair(rng, repr, round + ri);
            emit(format!("ops_union {} {}", a.to_v(), b.to_v()));
            if (round + ri) % 4 != 0 {
                let (a, b) = gen_pair(rng, repr, round + ri + 1);
                let c = if rng.chance(1, 2) { gen_any(rng, repr) } else { desc_of_order(rng, repr, a.order()) };
                let c = if repr == "am" && rng.chance(1, 2) { relabel(&desc_of_order(rng, "am", a.order()), &a.verts) } else { c };
                emit(format!("ops_union3 {} {} {}", a.to_v(), b.to_v(), c.to_v()));
            }
        }
        // one more map union with unrelated key sets
        let (a, b) = gen_pair(rng, "am", 4 * round + 1 + 2 * (round % 2));
        emit(format!("ops_union {} {}", a.to_v(), b.to_v()));
        // weighted converse
        for _ in 0..3 {
            let (_f, d) = graphs::gen_wdesc(rng, "wu", 100, 0, 1_000_000);
            emit(format!("ops_converse {}", d.to_v()));
            let (_f, d) = graphs::gen_wdesc(rng, "wi", 100, -1_000_000, 1_000_000);
            emit(format!("ops_converse {}", d.to_v()));
        }
        // filter_vertices (AdjacencyMap only)
        for kind in [0, 0, 1, 1, 2, 2, 3, 4, 4, 4, 5, 5, 5] {
            let d = gen_am(rng, 130);
            let p = gen_pred(rng, &d, kind);
            emit(format!("ops_filter {} {p}", d.to_v()));
        }
    }
}
