//! C11 — `complement`, `converse`, `union`, `filter_vertices` on the real code (and the
//! operation part of C17: the same ops are run under several `taskset` masks).
//!
//!   ops_complement D        => obs(D) obs(R) unchanged invol
//!   ops_converse   D        => obs(D) obs(R) unchanged invol
//!   ops_union      A B      => obs(A) obs(B) obs(R) unchanged comm idemA idemB
//!   ops_union3     A B C    => obs(A) obs(B) obs(C) obs((A u B) u C) assoc
//!   ops_filter     D pred   => obs(D) obs(R) unchanged
//!   ops_complement_dg D     => obs(D) order nverts size digest loops maxend unchanged invol
//!
//! `ops_complement_dg` is `ops_complement` for LARGE `AdjacencyList` operands (orders 256..4097, far
//! above `256 * t`): the dense result is not printed but summarised — `order()`, number of
//! `vertices()`, number of arcs, `digest` = sum of `u * 1000003 + v` over the arcs, number of
//! self-loops, largest arc endpoint (`none` without arcs).
//!
//! `obs` = `[order [vertices] [arcs]]` (`graphs::observe`; weighted arcs as `[u v w]`),
//! `unchanged` = operands `==` their pre-call clones, the other flags are the algebraic
//! identities evaluated with `==` on the real results.  `pred` ∈
//! `[ge k] [lt k] [mod m r] [in [..]] none all`.
#![allow(clippy::all)]

use crate::graphs::{self, observe, Desc};
use crate::rng::Rng;
use crate::value::V;
use graaf::{
    AdjacencyListWeighted, Arcs, ArcsWeighted, Complement, Converse, FilterVertices, Order, Union,
    Vertices,
};
use std::collections::BTreeSet;

trait ToI128: Copy {
    fn to_i128(self) -> i128;
}
impl ToI128 for usize {
    fn to_i128(self) -> i128 {
        self as i128
    }
}
impl ToI128 for isize {
    fn to_i128(self) -> i128 {
        self as i128
    }
}

fn observe_w<W: ToI128>(d: &AdjacencyListWeighted<W>) -> V {
    V::L(vec![
        V::u(d.order()),
        V::us(d.vertices()),
        V::L(d
            .arcs_weighted()
            .map(|(u, v, w)| V::L(vec![V::u(u), V::u(v), V::I(w.to_i128())]))
            .collect()),
    ])
}

fn complement_case<D>(d: D) -> Vec<V>
where
    D: Complement + Clone + PartialEq + Order + Vertices + Arcs,
{
    let before = d.clone();
    let r = d.complement();
    let unchanged = d == before;
    let invol = r.complement() == d;
    vec![observe(&d), observe(&r), V::bool(unchanged), V::bool(invol)]
}

fn converse_case<D>(d: D) -> Vec<V>
where
    D: Converse + Clone + PartialEq + Order + Vertices + Arcs,
{
    let before = d.clone();
    let r = d.converse();
    let unchanged = d == before;
    let invol = r.converse() == d;
    vec![observe(&d), observe(&r), V::bool(unchanged), V::bool(invol)]
}

fn converse_case_w<W>(d: AdjacencyListWeighted<W>) -> Vec<V>
where
    W: ToI128 + PartialEq,
{
    let before = d.clone();
    let r = d.converse();
    let unchanged = d == before;
    let invol = r.converse() == d;
    vec![observe_w(&d), observe_w(&r), V::bool(unchanged), V::bool(invol)]
}

fn union_case<D>(a: D, b: D) -> Vec<V>
where
    D: Union + Clone + PartialEq + Order + Vertices + Arcs,
{
    let (a0, b0) = (a.clone(), b.clone());
    let r = a.union(&b);
    let unchanged = a == a0 && b == b0;
    let comm = r == b.union(&a);
    let idem_a = a.union(&a) == a;
    let idem_b = b.union(&b) == b;
    vec![
        observe(&a),
        observe(&b),
        observe(&r),
        V::bool(unchanged),
        V::bool(comm),
        V::bool(idem_a),
        V::bool(idem_b),
    ]
}

fn union3_case<D>(a: D, b: D, c: D) -> Vec<V>
where
    D: Union + Clone + PartialEq + Order + Vertices + Arcs,
{
    let l = a.union(&b).union(&c);
    let r = a.union(&b.union(&c));
    vec![observe(&a), observe(&b), observe(&c), observe(&l), V::bool(l == r)]
}

fn parse_pred(v: &V) -> Option<Box<dyn Fn(usize) -> bool>> {
    match v {
        V::A(a) if a == "none" => Some(Box::new(|_| false)),
        V::A(a) if a == "all" => Some(Box::new(|_| true)),
        V::L(xs) if !xs.is_empty() => match (xs[0].as_atom()?, xs.len()) {
            ("ge", 2) => {
                let k = xs[1].as_usize()?;
                Some(Box::new(move |v| v >= k))
            }
            ("lt", 2) => {
                let k = xs[1].as_usize()?;
                Some(Box::new(move |v| v < k))
            }
            ("mod", 3) => {
                let m = xs[1].as_usize()?;
                let r = xs[2].as_usize()?;
                if m == 0 {
                    return None;
                }
                Some(Box::new(move |v| v % m == r))
            }
            ("in", 2) => {
                let set: BTreeSet<usize> = xs[1].as_usizes()?.into_iter().collect();
                Some(Box::new(move |v| set.contains(&v)))
            }
            _ => None,
        },
        _ => None,
    }
}

pub fn eval(op: &str, args: &[V]) -> Option<Vec<V>> {
    match op {
        "ops_complement" => {
            let [d] = args else { return None };
            let d = Desc::parse(d)?;
            match d.repr.as_str() {
                "al" => Some(complement_case(d.build_al())),
                "am" => Some(complement_case(d.build_am())),
                "mx" => Some(complement_case(d.build_mx())),
                "el" => Some(complement_case(d.build_el())),
                _ => None,
            }
        }
        "ops_complement_dg" => {
            let [d] = args else { return None };
            let d = Desc::parse(d)?;
            if d.repr != "al" {
                return None;
            }
            let g = d.build_al();
            let before = g.clone();
            let r = g.complement();
            let unchanged = g == before;
            let invol = r.complement() == g;
            let mut size: i128 = 0;
            let mut digest: i128 = 0;
            let mut loops: i128 = 0;
            let mut maxend: Option<usize> = None;
            for (u, v) in r.arcs() {
                size += 1;
                digest += (u as i128) * 1_000_003 + v as i128;
                if u == v {
                    loops += 1;
                }
                maxend = Some(maxend.map_or(u.max(v), |m| m.max(u).max(v)));
            }
            Some(vec![
                observe(&g),
                V::u(r.order()),
                V::u(r.vertices().count()),
                V::I(size),
                V::I(digest),
                V::I(loops),
                V::opt_u(maxend),
                V::bool(unchanged),
                V::bool(invol),
            ])
        }
        "ops_converse" => {
            let [d] = args else { return None };
            let d = Desc::parse(d)?;
            match d.repr.as_str() {
                "al" => Some(converse_case(d.build_al())),
                "am" => Some(converse_case(d.build_am())),
                "mx" => Some(converse_case(d.build_mx())),
                "el" => Some(converse_case(d.build_el())),
                "wu" => Some(converse_case_w(d.build_wu())),
                "wi" => Some(converse_case_w(d.build_wi())),
                _ => None,
            }
        }
        "ops_union" => {
            let [a, b] = args else { return None };
            let a = Desc::parse(a)?;
            let b = Desc::parse(b)?;
            if a.repr != b.repr {
                return None;
            }
            match a.repr.as_str() {
                "al" => Some(union_case(a.build_al(), b.build_al())),
                "am" => Some(union_case(a.build_am(), b.build_am())),
                "mx" => Some(union_case(a.build_mx(), b.build_mx())),
                "el" => Some(union_case(a.build_el(), b.build_el())),
                _ => None,
            }
        }
        "ops_union3" => {
            let [a, b, c] = args else { return None };
            let a = Desc::parse(a)?;
            let b = Desc::parse(b)?;
            let c = Desc::parse(c)?;
            if a.repr != b.repr || b.repr != c.repr {
                return None;
            }
            match a.repr.as_str() {
                "al" => Some(union3_case(a.build_al(), b.build_al(), c.build_al())),
                "am" => Some(union3_case(a.build_am(), b.build_am(), c.build_am())),
                "mx" => Some(union3_case(a.build_mx(), b.build_mx(), c.build_mx())),
                "el" => Some(union3_case(a.build_el(), b.build_el(), c.build_el())),
                _ => None,
            }
        }
        "ops_filter" => {
            let [d, p] = args else { return None };
            let d = Desc::parse(d)?;
            if d.repr != "am" {
                return None;
            }
            let p = parse_pred(p)?;
            let g = d.build_am();
            let before = g.clone();
            let r = g.filter_vertices(|v| p(v));
            let unchanged = g == before;
            Some(vec![observe(&g), observe(&r), V::bool(unchanged)])
        }
        _ => None,
    }
}

// ---------------------------------------------------------------------------------------
// generator
// ---------------------------------------------------------------------------------------

const UNW: [&str; 4] = ["al", "am", "mx", "el"];

/// Largest order generated for a representation (the model of `EdgeList` is quadratic in the
/// number of arcs; the threaded ones go above the core count).
fn cap(repr: &str) -> usize {
    match repr {
        "el" => 40,
        "mx" => 100,
        _ => 130,
    }
}

fn mk(repr: &str, n: usize, arcs: Vec<(usize, usize)>) -> Desc {
    let k = arcs.len();
    Desc { repr: repr.to_string(), verts: (0..n).collect(), arcs, weights: vec![1; k] }
}

/// A random description of order exactly `n`.
fn desc_of_order(rng: &mut Rng, repr: &str, n: usize) -> Desc {
    let (_f, arcs) = graphs::gen_arcs(rng, n);
    mk(repr, n, arcs)
}

/// Relabel a contiguous description onto the given ascending id list (`am` only).
fn relabel(d: &Desc, ids: &[usize]) -> Desc {
    let arcs: Vec<(usize, usize)> = d.arcs.iter().map(|&(u, v)| (ids[u], ids[v])).collect();
    let k = arcs.len();
    Desc { repr: "am".to_string(), verts: ids.to_vec(), arcs, weights: vec![1; k] }
}

/// `n` distinct ascending ids below `bound`.
fn sparse_ids(rng: &mut Rng, n: usize, bound: usize) -> Vec<usize> {
    let mut all: Vec<usize> = (0..bound.max(n)).collect();
    rng.shuffle(&mut all);
    all.truncate(n);
    all.sort_unstable();
    all
}

/// A random `am` description, a third of them with non-contiguous ids.
fn gen_am(rng: &mut Rng, max: usize) -> Desc {
    match rng.below(3) {
        0 => graphs::gen_am_sparse(rng, max).1,
        1 => {
            let (_f, d) = graphs::gen_desc(rng, "am", max);
            let n = d.order();
            let ids = sparse_ids(rng, n, 3 * n + 5);
            relabel(&d, &ids)
        }
        _ => graphs::gen_desc(rng, "am", max).1,
    }
}

fn gen_any(rng: &mut Rng, repr: &str) -> Desc {
    if repr == "am" {
        gen_am(rng, cap(repr))
    } else {
        graphs::gen_desc(rng, repr, cap(repr)).1
    }
}

fn gen_pred(rng: &mut Rng, d: &Desc, kind: usize) -> V {
    // thresholds are vertex ids themselves (or their saturated successor): ids may be usize::MAX
    let pick = |rng: &mut Rng| -> usize {
        if d.verts.is_empty() {
            0
        } else {
            let x = d.verts[rng.below(d.verts.len())];
            if rng.chance(1, 3) { x.saturating_add(1) } else { x }
        }
    };
    match kind {
        0 => V::atom("none"),
        1 => V::atom("all"),
        2 => V::L(vec![V::atom("ge"), V::u(pick(rng))]),
        3 => V::L(vec![V::atom("lt"), V::u(pick(rng))]),
        4 => {
            let m = 2 + rng.below(3);
            V::L(vec![V::atom("mod"), V::u(m), V::u(rng.below(m))])
        }
        _ => {
            let mut keep: Vec<usize> = d.verts.iter().copied().filter(|_| rng.chance(1, 2)).collect();
            if rng.chance(1, 4) {
                // an id that is (usually) not a vertex
                keep.push(d.verts.last().copied().unwrap_or(0) / 2 + 13);
            }
            V::L(vec![V::atom("in"), V::us(keep)])
        }
    }
}

/// Extreme vertex ids for `AdjacencyMap` (sentinel values of "optimised" code).
const XIDS: [usize; 9] = [
    0,
    1,
    7,
    usize::MAX / 2 - 1,
    usize::MAX / 2,
    usize::MAX / 2 + 1,
    usize::MAX - 2,
    usize::MAX - 1,
    usize::MAX,
];

/// A small map whose key set is drawn from `XIDS`; `usize::MAX` is a vertex 3 times out of 4.
fn gen_am_extreme(rng: &mut Rng) -> Desc {
    let n = 1 + rng.below(6);
    let mut ids: Vec<usize> = XIDS[..XIDS.len() - 1].to_vec();
    rng.shuffle(&mut ids);
    ids.truncate(n);
    if rng.chance(3, 4) {
        ids[0] = usize::MAX;
    }
    ids.sort_unstable();
    ids.dedup();
    let c = desc_of_order(rng, "am", ids.len());
    relabel(&c, &ids)
}

/// `k` distinct ids strictly between `lo` and `hi`.
fn interior(rng: &mut Rng, lo: usize, hi: usize, k: usize) -> Vec<usize> {
    let mut all: Vec<usize> = (lo + 1..hi).collect();
    rng.shuffle(&mut all);
    all.truncate(k);
    all
}

/// STRUCTURED COINCIDENCES between the key sets of two maps (what a "the operands line up" shortcut
/// would test instead of the key sets themselves):
/// 0 same size, same min, same max, different interior   1 same size + min, other max
/// 2 same size + max, other min   3 one shifted by a constant   4 keys of one ⊂ keys of the other
/// 5 same min + max, different size   6 same key set   7 interleaved (evens / odds)
fn gen_coincident_pair(rng: &mut Rng, kind: usize) -> (Desc, Desc) {
    let n = if rng.chance(1, 6) { 9 + rng.below(30) } else { 3 + rng.below(7) };
    let lo = [0usize, 0, 1, 5, 64][rng.below(5)];
    let hi = lo + 2 * n + 2 + rng.below(n + 3);
    let mut ka: Vec<usize> = interior(rng, lo, hi, n - 2);
    ka.push(lo);
    ka.push(hi);
    ka.sort_unstable();
    let kb: Vec<usize> = match kind % 8 {
        0 => {
            // same size / min / max, at least one interior id different
            let mut kb;
            loop {
                kb = interior(rng, lo, hi, n - 2);
                kb.push(lo);
                kb.push(hi);
                kb.sort_unstable();
                if kb != ka {
                    break;
                }
            }
            kb
        }
        1 => {
            let mut kb = interior(rng, lo, hi, n - 2);
            kb.push(lo);
            kb.push(hi + 1 + rng.below(3));
            kb.sort_unstable();
            kb
        }
        2 => {
            let mut kb = interior(rng, lo + 1, hi, n - 2);
            kb.push(lo + 1);
            kb.push(hi);
            kb.sort_unstable();
            kb
        }
        3 => {
            let c = [1usize, 2, n, hi + 1, 1000][rng.below(5)];
            ka.iter().map(|&x| x + c).collect()
        }
        4 => {
            let mut kb: Vec<usize> = ka.iter().copied().filter(|_| rng.chance(1, 2)).collect();
            if kb.is_empty() {
                kb.push(ka[rng.below(ka.len())]);
            }
            kb
        }
        5 => {
            let m = if n > 3 && rng.chance(1, 2) { n - 3 } else { n - 1 };
            let mut kb = interior(rng, lo, hi, m);
            kb.push(lo);
            kb.push(hi);
            kb.sort_unstable();
            kb
        }
        6 => ka.clone(),
        _ => {
            let off = 1 - lo % 2;
            ka = (0..n).map(|i| 2 * i + lo % 2).collect();
            (0..n).map(|i| 2 * i + off).collect()
        }
    };
    let a = relabel(&desc_of_order(rng, "am", ka.len()), &ka);
    let b = relabel(&desc_of_order(rng, "am", kb.len()), &kb);
    if rng.chance(1, 2) { (a, b) } else { (b, a) }
}

/// Sparse `AdjacencyList` description of exactly `n` vertices with about `m` arcs.
fn sparse_al(rng: &mut Rng, n: usize, m: usize) -> Desc {
    let mut set: BTreeSet<(usize, usize)> = BTreeSet::new();
    for _ in 0..m {
        let u = rng.below(n);
        let v = rng.below(n);
        if u != v {
            let _ = set.insert((u, v));
        }
    }
    // the last rows are the ones a short chunking drops: give them arcs
    if n >= 2 {
        let _ = set.insert((n - 1, 0));
        let _ = set.insert((0, n - 1));
    }
    let mut arcs: Vec<(usize, usize)> = set.into_iter().collect();
    rng.shuffle(&mut arcs);
    mk("al", n, arcs)
}

/// The out-of-distribution stream: large orders for the threaded operations (thresholds like
/// `256 * t`), extreme ids, structured key coincidences.  Most promising first, ~10 s per mask.
fn gen_stress(rng: &mut Rng, emit: &mut dyn FnMut(String)) {
    // large AdjacencyList orders: 2 * 256 + 1, 3 * 256 + 1 / + 2, …, not multiples of small t
    for &n in &[513usize, 769, 770, 1000, 1099, 257, 511] {
        let d = sparse_al(rng, n, 10);
        emit(format!("ops_complement_dg {}", d.to_v()));
        let m = n - rng.below(3);
        let e = sparse_al(rng, m, 10);
        emit(format!("ops_union {} {}", d.to_v(), e.to_v()));
    }
    // one order above 256 * 16 (4097 = 17 * 241: not a multiple of any t in 2..=16)
    emit(format!("ops_complement_dg {}", sparse_al(rng, 4097, 4).to_v())); // few arcs: cheap to shrink
    emit(format!("ops_union {} {}", sparse_al(rng, 4097, 4).to_v(), sparse_al(rng, 4099, 4).to_v()));
    // map union with many keys (n1 + n2 far above the thread count): same / shifted / unrelated keys
    for &n in &[300usize, 513, 800] {
        let a = desc_of_order(rng, "am", 8);
        let ids_a = sparse_ids(rng, n, 2 * n);
        let arcs_a: Vec<(usize, usize)> = a.arcs.iter().map(|&(u, v)| (ids_a[u], ids_a[n - 1 - v])).filter(|(u, v)| u != v).collect();
        let ka = arcs_a.len();
        let da = Desc { repr: "am".to_string(), verts: ids_a.clone(), arcs: arcs_a, weights: vec![1; ka] };
        let ids_b = if n % 2 == 0 { ids_a.clone() } else { sparse_ids(rng, n, 2 * n) };
        let arcs_b: Vec<(usize, usize)> = vec![(ids_b[0], ids_b[n - 1]), (ids_b[n / 2], ids_b[1])];
        let db = Desc { repr: "am".to_string(), verts: ids_b, arcs: arcs_b, weights: vec![1; 2] };
        emit(format!("ops_union {} {}", da.to_v(), db.to_v()));
    }
    // extreme ids
    for i in 0..120 {
        let d = gen_am_extreme(rng);
        emit(format!("ops_complement {}", d.to_v()));
        if i % 2 == 0 {
            emit(format!("ops_converse {}", d.to_v()));
            let e = gen_am_extreme(rng);
            emit(format!("ops_union {} {}", d.to_v(), e.to_v()));
            let p = gen_pred(rng, &d, 2 + i % 4);
            emit(format!("ops_filter {} {p}", d.to_v()));
        }
    }
    // key coincidences
    for i in 0..240 {
        let (a, b) = gen_coincident_pair(rng, if i % 3 == 0 { 0 } else { i });
        emit(format!("ops_union {} {}", a.to_v(), b.to_v()));
        if i % 8 == 0 {
            let (c, _) = gen_coincident_pair(rng, i / 8);
            emit(format!("ops_union3 {} {} {}", a.to_v(), b.to_v(), c.to_v()));
        }
    }
}

/// Pair for `union`: equal order (half of the time), or independent orders.
fn gen_pair(rng: &mut Rng, repr: &str, mode: usize) -> (Desc, Desc) {
    if repr == "am" {
        let a = gen_am(rng, cap(repr));
        let b = match mode % 4 {
            // the same key set: every key is an equal-key pair, also at the partition boundaries
            0 => {
                let n = a.order();
                let c = desc_of_order(rng, "am", n);
                relabel(&c, &a.verts)
            }
            // interleaved / shifted keys
            2 => {
                let n = 1 + rng.below(a.order() + 3);
                let c = desc_of_order(rng, "am", n);
                let off = rng.below(3);
                let ids: Vec<usize> = (0..n).map(|i| 2 * i + off).collect();
                relabel(&c, &ids)
            }
            _ => gen_am(rng, cap(repr)),
        };
        if rng.chance(1, 2) { (a, b) } else { (b, a) }
    } else {
        let a = graphs::gen_desc(rng, repr, cap(repr)).1;
        let b = if rng.chance(1, 2) {
            desc_of_order(rng, repr, a.order())
        } else {
            graphs::gen_desc(rng, repr, cap(repr)).1
        };
        (a, b)
    }
}

/// All digraphs on `n` vertices (arc subsets of the `n(n-1)` ordered pairs).
fn all_digraphs(n: usize) -> Vec<Vec<(usize, usize)>> {
    let pairs: Vec<(usize, usize)> =
        (0..n).flat_map(|u| (0..n).filter(move |&v| v != u).map(move |v| (u, v))).collect();
    (0..(1usize << pairs.len()))
        .map(|code| pairs.iter().enumerate().filter(|(i, _)| code >> i & 1 == 1).map(|(_, &p)| p).collect())
        .collect()
}

pub fn gen(rng: &mut Rng, thorough: bool, emit: &mut dyn FnMut(String)) {
    if crate::stress() {
        // the search after a broken tie: only the out-of-distribution stream (budget!)
        gen_stress(rng, emit);
        return;
    }
    // (0) one large AdjacencyList order above 256 * 3 in every run (digest form, cheap)
    emit(format!("ops_complement_dg {}", sparse_al(rng, 770, 12).to_v()));
    if thorough {
        for &n in &[513usize, 1000, 1099] {
            emit(format!("ops_complement_dg {}", sparse_al(rng, n, n / 8).to_v()));
        }
    }
    // (1) exhaustive small scope: every digraph on <= 3 vertices, every representation;
    //     thorough: also every pair of them for union (orders equal and different).
    let small: Vec<(usize, Vec<(usize, usize)>)> =
        (1..=3).flat_map(|n| all_digraphs(n).into_iter().map(move |a| (n, a))).collect();
    for repr in UNW {
        for (n, arcs) in &small {
            if !thorough && *n == 3 && rng.below(8) != 0 {
                continue;
            }
            let d = mk(repr, *n, arcs.clone()).to_v();
            emit(format!("ops_complement {d}"));
            emit(format!("ops_converse {d}"));
        }
        for (n1, a1) in &small {
            for (n2, a2) in &small {
                let keep = if thorough { *n1 + *n2 < 6 || rng.below(8) == 0 } else { rng.below(60) == 0 };
                if keep {
                    emit(format!("ops_union {} {}", mk(repr, *n1, a1.clone()).to_v(), mk(repr, *n2, a2.clone()).to_v()));
                }
            }
        }
    }
    // (2) orders around the thread counts (rows below / equal / just above / far above `t`,
    //     not multiples of the chunk size) for the three threaded operations
    let ladder: &[usize] = if thorough {
        &[1, 2, 3, 4, 5, 7, 8, 9, 12, 13, 14, 15, 16, 17, 18, 23, 31, 32, 33, 47, 48, 49, 63, 64, 65, 97, 113, 127, 128, 129, 130]
    } else {
        &[1, 2, 3, 4, 5, 15, 16, 17, 33, 47, 49, 65, 113, 130]
    };
    for &n in ladder {
        let a = desc_of_order(rng, "al", n);
        emit(format!("ops_complement {}", a.to_v()));
        let m = ladder[rng.below(ladder.len())];
        let b = desc_of_order(rng, "al", m);
        emit(format!("ops_union {} {}", a.to_v(), b.to_v()));
        // map union: n1 + n2 around the thread count; same key set and disjoint key ranges
        let c = desc_of_order(rng, "am", n);
        let e = desc_of_order(rng, "am", n);
        emit(format!("ops_union {} {}", c.to_v(), e.to_v()));
        let ids: Vec<usize> = (0..m).map(|i| n + 2 + i).collect();
        let f = relabel(&desc_of_order(rng, "am", m), &ids);
        emit(format!("ops_union {} {}", c.to_v(), f.to_v()));
        emit(format!("ops_union {} {}", f.to_v(), c.to_v()));
    }
    // (3) random digraphs / pairs, every representation that implements the operation
    let rounds = if thorough { 70 } else { 40 };
    for round in 0..rounds {
        for (ri, repr) in UNW.into_iter().enumerate() {
            let d = gen_any(rng, repr);
            emit(format!("ops_complement {}", d.to_v()));
            let d = gen_any(rng, repr);
            emit(format!("ops_converse {}", d.to_v()));
            let (a, b) = gen_pair(rng, repr, round + ri);
            emit(format!("ops_union {} {}", a.to_v(), b.to_v()));
            if (round + ri) % 4 != 0 {
                let (a, b) = gen_pair(rng, repr, round + ri + 1);
                let c = if rng.chance(1, 2) { gen_any(rng, repr) } else { desc_of_order(rng, repr, a.order()) };
                let c = if repr == "am" && rng.chance(1, 2) { relabel(&desc_of_order(rng, "am", a.order()), &a.verts) } else { c };
                emit(format!("ops_union3 {} {} {}", a.to_v(), b.to_v(), c.to_v()));
            }
        }
        // structured coincidences between the key sets (same size / min / max, shifted, subset, …)
        for k in [0, 0, 0, 6, 1 + round % 2, 4 + round % 2, 4 + (round + 1) % 2, if round % 2 == 0 { 3 } else { 7 }] {
            let (a, b) = gen_coincident_pair(rng, k);
            emit(format!("ops_union {} {}", a.to_v(), b.to_v()));
        }
        if round % 2 == 0 {
            let (a, b) = gen_coincident_pair(rng, 0);
            let (c, _) = gen_coincident_pair(rng, round / 2);
            emit(format!("ops_union3 {} {} {}", a.to_v(), b.to_v(), c.to_v()));
        }
        // extreme ids (usize::MAX, MAX - 1, MAX / 2, …) in maps
        let x = gen_am_extreme(rng);
        emit(format!("ops_complement {}", x.to_v()));
        emit(format!("ops_filter {} {}", x.to_v(), gen_pred(rng, &x, round % 2)));
        let y = gen_am_extreme(rng);
        emit(format!("ops_union {} {}", x.to_v(), y.to_v()));
        match round % 3 {
            0 => emit(format!("ops_converse {}", y.to_v())),
            1 => emit(format!("ops_filter {} {}", y.to_v(), gen_pred(rng, &y, 2 + round % 4))),
            _ => emit(format!("ops_complement {}", y.to_v())),
        }
        // one more map union with unrelated key sets
        let (a, b) = gen_pair(rng, "am", 4 * round + 1 + 2 * (round % 2));
        emit(format!("ops_union {} {}", a.to_v(), b.to_v()));
        // weighted converse
        for _ in 0..3 {
            let (_f, d) = graphs::gen_wdesc(rng, "wu", 100, 0, 1_000_000);
            emit(format!("ops_converse {}", d.to_v()));
            let (_f, d) = graphs::gen_wdesc(rng, "wi", 100, -1_000_000, 1_000_000);
            emit(format!("ops_converse {}", d.to_v()));
        }
        // filter_vertices (AdjacencyMap only)
        for kind in [0, 0, 1, 1, 2, 2, 3, 4, 4, 4, 5, 5, 5] {
            let d = gen_am(rng, 130);
            let p = gen_pred(rng, &d, kind);
            emit(format!("ops_filter {} {p}", d.to_v()));
        }
    }
}
