//! Generator of C13 programs: every constructor / operation / algorithm entry point × small
//! digraphs of every representation (maps also non-contiguous and the order-0 map) × vertex
//! arguments from {in range, order, order+1, 2^40} (+ for maps: a key ≥ order, a non-key < order).
//! quick = a deterministic sample of each category, thorough = the whole product.

use crate::graphs::{self, Desc};
use crate::rng::Rng;
use crate::value::V;

const FAR: usize = 1 << 40;

fn desc(repr: &str, verts: &[usize], arcs: &[(usize, usize)]) -> Desc {
    Desc { repr: repr.to_string(), verts: verts.to_vec(), arcs: arcs.to_vec(), weights: vec![1; arcs.len()] }
}

fn weighted(mut d: Desc, rng: &mut Rng, lo: i64, hi: i64) -> Desc {
    d.weights = d.arcs.iter().map(|_| i128::from(rng.range(lo, hi))).collect();
    d
}

/// Small digraphs of one representation: fixed shapes + a few random ones.
fn small_descs(rng: &mut Rng, repr: &str, random: usize) -> Vec<Desc> {
    let mut out = Vec::new();
    let contiguous: [(usize, Vec<(usize, usize)>); 7] = [
        (1, vec![]),
        (2, vec![(0, 1)]),
        (3, vec![(0, 1), (1, 2)]),
        (3, vec![(0, 1), (1, 2), (2, 0), (1, 0), (2, 1), (0, 2)]),
        (4, vec![(0, 1), (0, 2), (0, 3), (3, 2)]),
        (5, vec![(0, 1), (1, 2), (2, 0), (2, 3), (3, 4), (4, 3)]),
        (9, vec![(0, 8), (8, 0), (7, 1), (3, 4), (8, 7), (7, 8)]),
    ];
    for (n, arcs) in &contiguous {
        let verts: Vec<usize> = (0..*n).collect();
        out.push(desc(repr, &verts, arcs));
    }
    if repr == "am" {
        // non-contiguous vertex sets: successors ≥ order, keys ≥ order, non-keys < order
        out.push(desc(repr, &[], &[]));
        out.push(desc(repr, &[7], &[]));
        out.push(desc(repr, &[0, 5], &[(0, 5)]));
        out.push(desc(repr, &[0, 5], &[(5, 0)]));
        out.push(desc(repr, &[0, 5], &[(0, 5), (5, 0)]));
        out.push(desc(repr, &[2, 3], &[(2, 3), (3, 2)]));
        out.push(desc(repr, &[1, 2, 3], &[(1, 2), (2, 3), (3, 1)]));
        out.push(desc(repr, &[0, 1, 3], &[(0, 1), (1, 3), (3, 0)]));
        out.push(desc(repr, &[0, 2, 3, 7, 1000], &[(0, 2), (2, 3), (3, 7), (7, 1000), (1000, 0), (3, 0)]));
        out.push(desc(repr, &[0, 1, 2, 64, 65], &[(0, 1), (1, 2), (2, 0), (2, 64), (64, 65), (65, 64)]));
        for _ in 0..random {
            out.push(graphs::gen_am_sparse(rng, 7).1);
        }
    }
    for _ in 0..random {
        out.push(graphs::gen_desc(rng, repr, 7).1);
    }
    if repr == "wu" {
        out = out.into_iter().map(|d| weighted(d, rng, 0, 9)).collect();
    }
    if repr == "wi" {
        out = out.into_iter().map(|d| weighted(d, rng, -3, 9)).collect();
    }
    out
}

/// Vertex arguments for a description.
fn vargs(d: &Desc) -> Vec<usize> {
    let n = d.order();
    let mut v = vec![n, n + 1, FAR];
    if let Some(&x) = d.verts.first() {
        v.push(x);
    }
    if let Some(&x) = d.verts.last() {
        v.push(x);
    }
    if d.verts.len() > 2 {
        v.push(d.verts[d.verts.len() / 2]);
    }
    if d.repr == "am" {
        // a non-key below the order / below the maximum key
        if let Some(x) = (0..n).find(|x| !d.verts.contains(x)) {
            v.push(x);
        }
        if let Some(&m) = d.verts.last() {
            if let Some(x) = (0..m).rev().find(|x| !d.verts.contains(x)) {
                v.push(x);
            }
        }
    }
    v.sort_unstable();
    v.dedup();
    v
}

struct Bucket {
    lines: Vec<String>,
}

impl Bucket {
    fn new() -> Self {
        Bucket { lines: Vec::new() }
    }
    fn push(&mut self, s: String) {
        self.lines.push(s);
    }
    /// thorough: everything (capped); quick: a deterministic sample of `quick` lines
    fn flush(mut self, rng: &mut Rng, thorough: bool, quick: usize, cap: usize, emit: &mut dyn FnMut(String), leak: &mut Vec<String>) {
        self.lines.sort();
        self.lines.dedup();
        rng.shuffle(&mut self.lines);
        let k = if thorough { cap } else { quick };
        self.lines.truncate(k);
        for (i, l) in self.lines.into_iter().enumerate() {
            if i % 6 == 0 {
                leak.push(l.clone());
            }
            emit(l);
        }
    }
}

const Q_VERTEX1: [&str; 11] = [
    "in_neighbors", "out_neighbors", "indegree", "outdegree", "degree", "is_source", "is_sink", "is_isolated",
    "is_pendant", "out_neighbors_weighted", "bfm_new",
];
const Q_VERTEX2: [&str; 8] =
    ["has_arc", "has_edge", "add_arc", "remove_arc", "toggle", "arc_weight", "add_arc_weighted", "has_walk2"];
const Q_NOARG: [&str; 33] = [
    "arcs", "vertices", "order", "size", "degree_sequence", "indegree_sequence", "outdegree_sequence",
    "semidegree_sequence", "max_degree", "min_degree", "max_indegree", "min_indegree", "max_outdegree", "min_outdegree",
    "sinks", "sources", "is_balanced", "is_complete", "is_oriented", "is_regular", "is_semicomplete", "is_simple",
    "is_symmetric", "is_tournament", "tarjan", "complement", "converse", "clone_eq", "contiguous_order", "arcs_weighted",
    "johnson", "fw_new", "fw",
];

fn applies(name: &str, repr: &str) -> bool {
    let unweighted = matches!(repr, "al" | "am" | "mx" | "el");
    let weighted = !unweighted;
    match name {
        "toggle" => repr == "mx",
        "add_arc" | "complement" | "clone_eq" | "union" | "is_subdigraph" | "is_superdigraph" | "is_spanning_subdigraph" => unweighted,
        "contiguous_order" => repr != "am",
        "bfm_new" => repr != "am",
        "johnson" | "filter_vertices" => repr == "am",
        "arcs_weighted" | "out_neighbors_weighted" | "arc_weight" | "add_arc_weighted" => weighted,
        "fw" | "bfm" => repr == "wi",
        _ => true,
    }
}

pub fn gen(rng: &mut Rng, thorough: bool, emit: &mut dyn FnMut(String)) {
    let random = if thorough { 12 } else { 3 };
    let mut leak: Vec<String> = Vec::new();
    let us = |v: &[usize]| V::us(v.iter().copied()).to_string();

    // ---------------------------------------------------------------- constructors
    let mut bk = Bucket::new();
    for repr in graphs::UNWEIGHTED {
        let sizes: Vec<usize> = vec![0, 1, 2, 3, 4, 5, 7, 9, 17];
        for &n in &sizes {
            for name in ["empty", "circuit", "complete", "cycle", "path", "star", "wheel"] {
                bk.push(format!("chk_gen {repr} {name} {n}"));
            }
            for seed in [0u64, 1, 0xFFFF_FFFF_FFFF_FFFF] {
                bk.push(format!("chk_gen {repr} rrt {n} {seed}"));
                bk.push(format!("chk_gen {repr} rt {n} {seed}"));
                for p in [0.0f64, 0.3, 0.5, 0.7, 1.0, -0.1, 1.5, f64::NAN, f64::INFINITY] {
                    if n <= 7 {
                        bk.push(format!("chk_gen {repr} er {n} {} {seed}", p.to_bits()));
                    }
                }
            }
            for m in [0usize, 1, 2, 5] {
                if n <= 5 {
                    bk.push(format!("chk_gen {repr} biclique {m} {n}"));
                }
            }
        }
        for name in ["trivial", "claw", "utility"] {
            bk.push(format!("chk_gen {repr} {name}"));
        }
    }
    for repr in ["wu", "wi"] {
        for n in [0usize, 1, 2, 5] {
            bk.push(format!("chk_gen {repr} empty {n}"));
        }
        bk.push(format!("chk_gen {repr} trivial"));
    }
    // orders whose square overflows: documented panic, no allocation happens (the matrix only;
    // the other representations would legitimately try to allocate ≫ RAM)
    for n in [1usize << 32, (1 << 32) + 1, 1 << 40, usize::MAX] {
        for name in ["empty", "circuit", "complete", "cycle", "path", "star", "wheel"] {
            bk.push(format!("chk_gen mx {name} {n}"));
        }
        bk.push(format!("chk_gen mx rrt {n} 1"));
        bk.push(format!("chk_gen mx rt {n} 1"));
        bk.push(format!("chk_gen mx er {n} {} 1", 0.5f64.to_bits()));
        bk.push(format!("chk_dm new {n}"));
    }
    for n in [0usize, 1, 2, 3, 8, 1 << 30, 1 << 31] {
        bk.push(format!("chk_dm new {n}"));
    }
    bk.flush(rng, thorough, 500, 100_000, emit, &mut leak);

    // From<rows> / From<pairs>
    let mut bk = Bucket::new();
    let row_sets: [&str; 10] = [
        "[]", "[[]]", "[[1] []]", "[[1] [0]]", "[[0] []]", "[[1] [1]]", "[[2] []]", "[[1 2] [2] [0]]",
        "[[1099511627776] []]", "[[] [] [0 1 3]]",
    ];
    for r in row_sets {
        bk.push(format!("chk_rows al {r}"));
        bk.push(format!("chk_rows am {r}"));
    }
    let pair_lists: [&str; 9] = [
        "[]", "[[0 1]]", "[[1 0] [0 1]]", "[[0 0]]", "[[0 1] [2 2]]", "[[3 1] [1 2]]", "[[0 70]]",
        "[[0 1099511627776]]", "[[0 18446744073709551615]]",
    ];
    for r in pair_lists {
        bk.push(format!("chk_rows mx {r}"));
        if !r.contains("1099511627776") {
            // EdgeList::from with a far id just stores the order: digesting `vertices()` would
            // iterate 0..2^40
            bk.push(format!("chk_rows el {r}"));
        }
    }
    let row_maps: [&str; 8] = [
        "[]", "[[]]", "[[[1 5]] []]", "[[[1 5]] [[0 2]]]", "[[[0 1]] []]", "[[[2 1]] []]", "[[[1 1] [2 3]] [[2 0]] [[0 4]]]",
        "[[[1099511627776 1]] []]",
    ];
    for r in row_maps {
        bk.push(format!("chk_rows wu {r}"));
        bk.push(format!("chk_rows wi {r}"));
    }
    bk.flush(rng, thorough, 80, 100_000, emit, &mut leak);

    // ---------------------------------------------------------------- per digraph
    let mut by_repr: Vec<(String, Vec<Desc>)> = Vec::new();
    for repr in graphs::ALL_REPRS {
        by_repr.push((repr.to_string(), small_descs(rng, repr, random)));
    }

    // conversions
    let mut bk = Bucket::new();
    for (repr, descs) in &by_repr {
        if repr == "wu" || repr == "wi" {
            continue;
        }
        for d in descs {
            for dst in graphs::ALL_REPRS {
                if dst != repr {
                    bk.push(format!("chk_from {} {dst}", d.to_v()));
                }
            }
        }
    }
    bk.flush(rng, thorough, 150, 100_000, emit, &mut leak);

    // queries
    let mut q1 = Bucket::new();
    let mut q2 = Bucket::new();
    let mut q0 = Bucket::new();
    let mut qb = Bucket::new();
    for (repr, descs) in &by_repr {
        for d in descs {
            let dv = d.to_v();
            let va = vargs(d);
            for name in Q_VERTEX1 {
                if !applies(name, repr) {
                    continue;
                }
                for &x in &va {
                    if name == "bfm_new" {
                        q1.push(format!("chk_alg bfm_new {dv} {x}"));
                        if repr == "wi" {
                            q1.push(format!("chk_alg bfm {dv} {x}"));
                        }
                    } else {
                        q1.push(format!("chk_q {name} {dv} {x}"));
                    }
                }
            }
            for name in Q_VERTEX2 {
                if name != "has_walk2" && !applies(name, repr) {
                    continue;
                }
                for &x in &va {
                    for &y in &va {
                        if name == "has_walk2" {
                            q2.push(format!("chk_q has_walk {dv} [{x} {y}]"));
                            q2.push(format!("chk_q has_walk {dv} [{x} {y} {x}]"));
                        } else {
                            q2.push(format!("chk_q {name} {dv} {x} {y}"));
                        }
                    }
                }
            }
            q2.push(format!("chk_q has_walk {dv} []"));
            q2.push(format!("chk_q has_walk {dv} [0]"));
            for name in Q_NOARG {
                if !applies(name, repr) {
                    continue;
                }
                if name == "fw" || name == "fw_new" {
                    q0.push(format!("chk_alg {name} {dv}"));
                } else {
                    q0.push(format!("chk_q {name} {dv}"));
                }
            }
            if repr == "am" {
                for keep in [vec![], d.verts.clone(), d.verts.iter().copied().skip(1).collect(), vec![FAR], d.verts.iter().copied().take(1).collect()] {
                    q0.push(format!("chk_q filter_vertices {dv} {}", us(&keep)));
                }
            }
            // binary operations with every digraph of the same representation
            if applies("union", repr) {
                for e in descs {
                    for name in ["union", "is_subdigraph", "is_superdigraph", "is_spanning_subdigraph"] {
                        qb.push(format!("chk_q {name} {dv} {}", e.to_v()));
                    }
                }
            }
        }
    }
    q1.flush(rng, thorough, 700, 200_000, emit, &mut leak);
    q2.flush(rng, thorough, 700, 200_000, emit, &mut leak);
    q0.flush(rng, thorough, 700, 200_000, emit, &mut leak);
    qb.flush(rng, thorough, 300, 200_000, emit, &mut leak);

    // chains: the result of every producing operation / generator fed to the consumers that index
    // vectors by successors or rows without a check
    let mut bk = Bucket::new();
    let consumers = ["degree_sequence", "indegree_sequence", "converse", "complement", "is_tournament", "is_semicomplete",
        "is_complete", "is_symmetric", "arcs", "tarjan", "bfs"];
    let prods = ["cpl", "cnv", "uni", "dbl", "cln"];
    for (repr, descs) in &by_repr {
        if repr == "wu" || repr == "wi" {
            continue;
        }
        let mut starts: Vec<String> = descs.iter().filter(|d| d.order() >= 1).map(|d| d.to_v().to_string()).collect();
        for n in [1usize, 2, 3, 5, 8, 17] {
            for name in ["empty", "circuit", "complete", "cycle", "path", "star"] {
                starts.push(format!("[gen {repr} {name} {n}]"));
            }
            if n >= 4 {
                starts.push(format!("[gen {repr} wheel {n}]"));
            }
            starts.push(format!("[gen {repr} biclique {n} 2]"));
            starts.push(format!("[gen {repr} rrt {n} 7]"));
            starts.push(format!("[gen {repr} rt {n} 7]"));
            starts.push(format!("[gen {repr} er {n} {} 7]", 0.3f64.to_bits()));
            starts.push(format!("[gen {repr} er {n} {} 7]", 0.8f64.to_bits()));
        }
        for st in &starts {
            for _ in 0..(if thorough { 6 } else { 2 }) {
                let k = rng.below(4);
                let ps: Vec<&str> = (0..k).map(|_| *rng.pick(&prods)).collect();
                bk.push(format!("chk_chain {st} [{}] {}", ps.join(" "), rng.pick(&consumers)));
            }
        }
    }
    bk.flush(rng, thorough, 500, 100_000, emit, &mut leak);

    // histories (sequences of mutating / querying calls, some with arguments that are not vertices)
    let mut bk = Bucket::new();
    for (repr, descs) in &by_repr {
        if repr == "wu" || repr == "wi" {
            continue;
        }
        for d in descs {
            let va = vargs(d);
            for _ in 0..(if thorough { 6 } else { 2 }) {
                let len = 1 + rng.below(8);
                let steps: Vec<String> = (0..len)
                    .map(|_| {
                        let x = *rng.pick(&va);
                        let y = *rng.pick(&va);
                        match rng.below(8) {
                            0 | 1 | 2 => format!("[add {x} {y}]"),
                            3 => format!("[rem {x} {y}]"),
                            4 => format!("[tog {x} {y}]"),
                            5 => format!("[outdeg {x}]"),
                            6 => format!("[indeg {x}]"),
                            _ => format!("[outn {x}]"),
                        }
                    })
                    .collect();
                bk.push(format!("chk_hist {} [{}]", d.to_v(), steps.join(" ")));
            }
        }
    }
    bk.flush(rng, thorough, 200, 100_000, emit, &mut leak);

    // matrix index arithmetic: all (u, v) over {0.., order-1, order, order+1, far}
    let mut bk = Bucket::new();
    for n in [1usize, 2, 3, 7, 8, 9, 11, 64, 65] {
        let ids = [0, 1, n / 2, n - 1, n, n + 1, FAR];
        for _ in 0..(if thorough { 30 } else { 6 }) {
            let len = 1 + rng.below(10);
            let steps: Vec<String> = (0..len)
                .map(|_| {
                    let x = *rng.pick(&ids);
                    let y = *rng.pick(&ids);
                    let op = *rng.pick(&["add", "add", "tog", "rem", "has"]);
                    format!("[{op} {x} {y}]")
                })
                .collect();
            bk.push(format!("chk_mx {n} [{}]", steps.join(" ")));
        }
        // the last cell: the highest index the matrix ever computes
        bk.push(format!("chk_mx {n} [[add {} {}] [has {} {}] [tog {} {}] [rem {} {}]]", n - 1, n.saturating_sub(2), n - 1, n.saturating_sub(2), n - 1, n.saturating_sub(2), n - 1, n.saturating_sub(2)));
    }
    for n in [0usize, 1 << 32, 1 << 40, usize::MAX] {
        bk.push(format!("chk_mx {n} [[add 0 1]]"));
    }
    bk.flush(rng, thorough, 70, 100_000, emit, &mut leak);

    // ---------------------------------------------------------------- traversals
    let mut it = Bucket::new();
    let mut alg = Bucket::new();
    let mut dij = Bucket::new(); // the Dijkstra family exists for one representation only: own quota
    for (repr, descs) in &by_repr {
        for d in descs {
            let dv = d.to_v();
            let n = d.order();
            let va = vargs(d);
            let mut srcs: Vec<Vec<usize>> = vec![vec![]];
            for &x in &va {
                srcs.push(vec![x]);
            }
            if let (Some(&a), Some(&b)) = (d.verts.first(), d.verts.last()) {
                srcs.push(vec![a, b]);
                srcs.push(vec![b, a, a]);
                srcs.push(vec![a, n]);
                srcs.push(vec![FAR, a]);
                srcs.push(vec![a, FAR]);
                // ids below the order (what the traversals accept) that may not be keys of a map
                srcs.push((0..n.min(4)).collect());
            }
            let kinds: &[&str] = if repr == "wu" {
                &["bfs", "bfs_dist", "bfs_pred", "dfs", "dfs_dist", "dfs_pred", "dijkstra", "dijkstra_dist", "dijkstra_pred"]
            } else {
                &["bfs", "bfs_dist", "bfs_pred", "dfs", "dfs_dist", "dfs_pred"]
            };
            for s in &srcs {
                for k in kinds {
                    let rounds = 1 + rng.below(3);
                    let line = format!("chk_it {k} {dv} {} {rounds}", us(s));
                    if k.starts_with("dijkstra") { dij.push(line) } else { it.push(line) }
                }
                let tg = vec![*rng.pick(&va), *rng.pick(&va)];
                let mut names = vec!["bfs_dist_distances", "bfs_pred_predecessors", "bfs_pred_cycles", "dfs_pred_predecessors"];
                if repr == "wu" {
                    names.extend(["dijkstra_dist_distances", "dijkstra_pred_predecessors"]);
                }
                for name in names {
                    let line = format!("chk_alg {name} {dv} {}", us(s));
                    if name.starts_with("dijkstra") { dij.push(line) } else { alg.push(line) }
                }
                alg.push(format!("chk_alg bfs_pred_shortest_path {dv} {} {}", us(s), us(&tg)));
                if repr == "wu" {
                    dij.push(format!("chk_alg dijkstra_pred_shortest_path {dv} {} {}", us(s), us(&tg)));
                }
            }
        }
    }
    it.flush(rng, thorough, 900, 300_000, emit, &mut leak);
    alg.flush(rng, thorough, 600, 300_000, emit, &mut leak);
    dij.flush(rng, thorough, 400, 300_000, emit, &mut leak);

    // ---------------------------------------------------------------- small types
    let mut bk = Bucket::new();
    let mats: [(&str, isize, usize); 7] = [
        ("[]", 9, 0), ("[]", 9, 1), ("[0]", 9, 1), ("[0 1 2 0]", 9, 2), ("[0 1 2]", 9, 2), ("[0 9 9 0]", 9, 2), ("[0 1 2 3 4 5]", 9, 4),
    ];
    for (dist, inf, order) in mats {
        for name in ["center", "diameter", "eccentricities", "is_connected", "periphery"] {
            bk.push(format!("chk_dm {name} {dist} {inf} {order}"));
        }
        for i in [0usize, 1, 3, 4, 6, FAR] {
            bk.push(format!("chk_dm index {dist} {inf} {order} {i}"));
            for j in [0usize, 1, 2, FAR] {
                bk.push(format!("chk_dm index2 {dist} {inf} {order} {i} {j}"));
                bk.push(format!("chk_dm index_mut2 {dist} {inf} {order} {i} {j}"));
            }
        }
    }
    for n in [0usize, 1, 2, 5] {
        bk.push(format!("chk_pt new {n}"));
    }
    for pred in ["[]", "[none]", "[1 none]", "[7 none 0]"] {
        for i in [0usize, 1, 2, 3, FAR] {
            bk.push(format!("chk_pt index {pred} {i}"));
            bk.push(format!("chk_pt index_mut {pred} {i}"));
        }
    }
    for seed in [0u64, 1, 42, u64::MAX] {
        bk.push(format!("chk_prng {seed} 50"));
    }
    bk.flush(rng, thorough, 120, 100_000, emit, &mut leak);

    // user-built predecessor trees with out-of-range entries / starts (handled by H19)
    super::super::c19::gen_malformed(rng, thorough, emit);

    // ---------------------------------------------------------------- leak programs
    // every sixth program of every category, repeated k times; plus the §7 witness
    leak.push(format!(
        "chk_q union {} {}",
        desc("am", &[0, 1, 2, 3, 4], &[(0, 1), (1, 2), (2, 3), (3, 4), (4, 0)]).to_v(),
        desc("am", &[0, 1, 2, 3, 4, 5, 6], &[(0, 1), (1, 2), (2, 3), (3, 4), (4, 5), (5, 6)]).to_v()
    ));
    leak.sort();
    leak.dedup();
    rng.shuffle(&mut leak);
    let k = if thorough { 30 } else { 30 };
    let take = if thorough { 6_000 } else { 450 };
    // the witness first
    let w = leak.iter().position(|l| l.starts_with("chk_q union [am [0 1 2 3 4] ")).unwrap_or(0);
    leak.swap(0, w);
    for l in leak.into_iter().take(take) {
        emit(format!("chk_leak {k} [{l}]"));
    }
}
