//! Generator of C13 programs: every constructor / operation / algorithm entry point × small
//! digraphs of every representation (maps also non-contiguous and the order-0 map) × vertex
//! arguments from {in range, order, order+1, 2^40} (+ for maps: a key ≥ order, a non-key < order).
//! quick = a deterministic sample of each category, thorough = the whole product.

use crate::graphs::{self, Desc};
use crate::rng::Rng;
use crate::value::V;

const FAR: usize = 1 << 40;

fn desc(repr: &str, verts: &[usize], arcs: &[(usize, usize)]) -> Desc {
    Desc { repr: repr.to_string(), verts: verts.to_vec(), arcs: arcs.to_vec(), weights: vec![1; arcs.len()] }
}

fn weighted(mut d: Desc, rng: &mut Rng, lo: i64, hi: i64) -> Desc {
    d.weights = d.arcs.iter().map(|_| i128::from(rng.range(lo, hi))).collect();
    d
}

/// Small digraphs of one representation: fixed shapes + a few random ones.
fn small_descs(rng: &mut Rng, repr: &str, random: usize) -> Vec<Desc> {
    let mut out = Vec::new();
    let contiguous: [(usize, Vec<(usize, usize)>); 7] = [
        (1, vec![]),
        (2, vec![(0, 1)]),
        (3, vec![(0, 1), (1, 2)]),
        (3, vec![(0, 1), (1, 2), (2, 0), (1, 0), (2, 1), (0, 2)]),
        (4, vec![(0, 1), (0, 2), (0, 3), (3, 2)]),
        (5, vec![(0, 1), (1, 2), (2, 0), (2, 3), (3, 4), (4, 3)]),
        (9, vec![(0, 8), (8, 0), (7, 1), (3, 4), (8, 7), (7, 8)]),
    ];
    for (n, arcs) in &contiguous {
        let verts: Vec<usize> = (0..*n).collect();
        out.push(desc(repr, &verts, arcs));
    }
    if repr == "am" {
        // non-contiguous vertex sets: successors ≥ order, keys ≥ order, non-keys < order
        out.push(desc(repr, &[], &[]));
        out.push(desc(repr, &[7], &[]));
        out.push(desc(repr, &[0, 5], &[(0, 5)]));
        out.push(desc(repr, &[0, 5], &[(5, 0)]));
        out.push(desc(repr, &[0, 5], &[(0, 5), (5, 0)]));
        out.push(desc(repr, &[2, 3], &[(2, 3), (3, 2)]));
        out.push(desc(repr, &[1, 2, 3], &[(1, 2), (2, 3), (3, 1)]));
        out.push(desc(repr, &[0, 1, 3], &[(0, 1), (1, 3), (3, 0)]));
        out.push(desc(repr, &[0, 2, 3, 7, 1000], &[(0, 2), (2, 3), (3, 7), (7, 1000), (1000, 0), (3, 0)]));
        out.push(desc(repr, &[0, 1, 2, 64, 65], &[(0, 1), (1, 2), (2, 0), (2, 64), (64, 65), (65, 64)]));
        // extreme ids: usize::MAX, MAX - 1, 2^63
        out.push(desc(repr, &[0, usize::MAX], &[(0, usize::MAX), (usize::MAX, 0)]));
        out.push(desc(repr, &[0, 1, usize::MAX - 1, usize::MAX], &[(0, 1), (1, usize::MAX - 1), (usize::MAX - 1, usize::MAX), (usize::MAX, 0)]));
        out.push(desc(repr, &[1 << 63, usize::MAX], &[(1 << 63, usize::MAX)]));
        for _ in 0..random {
            out.push(graphs::gen_am_sparse(rng, 7).1);
        }
    }
    for _ in 0..random {
        out.push(graphs::gen_desc(rng, repr, 7).1);
    }
    if repr == "wu" {
        out = out.into_iter().map(|d| weighted(d, rng, 0, 9)).collect();
    }
    if repr == "wi" {
        out = out.into_iter().map(|d| weighted(d, rng, -3, 9)).collect();
    }
    if repr == "wu" || repr == "wi" {
        // weights around 2^50 … 2^58 whose path sums still fit
        let big = desc(repr, &[0, 1, 2, 3], &[(0, 1), (1, 2), (2, 3), (0, 3), (3, 0)]);
        out.push(weighted(big, rng, 1 << 50, 1 << 58));
    }
    out
}

/// Vertex arguments for a description.
fn vargs(d: &Desc) -> Vec<usize> {
    let n = d.order();
    let mut v = vec![n, n + 1, FAR];
    if d.verts.last().is_some_and(|&x| x > FAR) || crate::stress() {
        v.extend([usize::MAX, usize::MAX - 1, 1 << 63, 1 << 62, usize::MAX / 2]);
        if n > 0 {
            v.push((usize::MAX / n).wrapping_add(1)); // u * order wraps to a small number in release
        }
    }
    if let Some(&x) = d.verts.first() {
        v.push(x);
    }
    if let Some(&x) = d.verts.last() {
        v.push(x);
    }
    if d.verts.len() > 2 {
        v.push(d.verts[d.verts.len() / 2]);
    }
    if d.repr == "am" {
        // a non-key below the order / below the maximum key
        if let Some(x) = (0..n).find(|x| !d.verts.contains(x)) {
            v.push(x);
        }
        if let Some(&m) = d.verts.last() {
            if let Some(x) = (0..m).rev().find(|x| !d.verts.contains(x)) {
                v.push(x);
            }
        }
    }
    v.sort_unstable();
    v.dedup();
    v
}

struct Bucket {
    lines: Vec<String>,
}

impl Bucket {
    fn new() -> Self {
        Bucket { lines: Vec::new() }
    }
    fn push(&mut self, s: String) {
        self.lines.push(s);
    }
    /// thorough: everything (capped); quick: a deterministic sample of `quick` lines
    fn flush(mut self, rng: &mut Rng, thorough: bool, quick: usize, cap: usize, emit: &mut dyn FnMut(String), leak: &mut Vec<String>) {
        self.lines.sort();
        self.lines.dedup();
        rng.shuffle(&mut self.lines);
        let k = if thorough { cap } else { quick };
        self.lines.truncate(k);
        for (i, l) in self.lines.into_iter().enumerate() {
            if i % 6 == 0 {
                leak.push(l.clone());
            }
            emit(l);
        }
    }
}

const Q_VERTEX1: [&str; 11] = [
    "in_neighbors", "out_neighbors", "indegree", "outdegree", "degree", "is_source", "is_sink", "is_isolated",
    "is_pendant", "out_neighbors_weighted", "bfm_new",
];
const Q_VERTEX2: [&str; 8] =
    ["has_arc", "has_edge", "add_arc", "remove_arc", "toggle", "arc_weight", "add_arc_weighted", "has_walk2"];
const Q_NOARG: [&str; 33] = [
    "arcs", "vertices", "order", "size", "degree_sequence", "indegree_sequence", "outdegree_sequence",
    "semidegree_sequence", "max_degree", "min_degree", "max_indegree", "min_indegree", "max_outdegree", "min_outdegree",
    "sinks", "sources", "is_balanced", "is_complete", "is_oriented", "is_regular", "is_semicomplete", "is_simple",
    "is_symmetric", "is_tournament", "tarjan", "complement", "converse", "clone_eq", "contiguous_order", "arcs_weighted",
    "johnson", "fw_new", "fw",
];

fn applies(name: &str, repr: &str) -> bool {
    let unweighted = matches!(repr, "al" | "am" | "mx" | "el");
    let weighted = !unweighted;
    match name {
        "toggle" => repr == "mx",
        "add_arc" | "complement" | "clone_eq" | "union" | "is_subdigraph" | "is_superdigraph" | "is_spanning_subdigraph" => unweighted,
        "contiguous_order" => repr != "am",
        "bfm_new" => repr != "am",
        "johnson" | "filter_vertices" => repr == "am",
        "arcs_weighted" | "out_neighbors_weighted" | "arc_weight" | "add_arc_weighted" => weighted,
        "fw" | "bfm" => repr == "wi",
        _ => true,
    }
}

/// Out-of-distribution stream (`gharness gen C13 <seed> stress`): large orders, stacks / heaps above
/// 65 536 entries, the matrix iterator above 2048², extreme vertex arguments. Class-only models.
fn gen_stress(rng: &mut Rng, emit: &mut dyn FnMut(String)) {
    let consumers = ["arcs", "bfs", "dfs", "dfs_pred", "bfs_dist", "degree_sequence", "indegree_sequence", "converse",
        "complement", "is_semicomplete", "is_tournament", "tarjan"];
    for repr in graphs::UNWEIGHTED {
        for n in [192usize, 257, 363, 512, 513, 770, 1100, 2048] {
            let cheap = ["path", "cycle", "circuit", "star", "empty", "rrt", "wheel"];
            for name in cheap {
                if n > 1100 && (repr != "mx" || name == "star" || name == "wheel") && name != "path" {
                    continue;
                }
                let st = if name == "rrt" { format!("[gen {repr} rrt {n} 7]") } else { format!("[gen {repr} {name} {n}]") };
                let c1 = *rng.pick(&consumers);
                let c2 = *rng.pick(&consumers);
                emit(format!("chk_chain {st} [] {c1}"));
                emit(format!("chk_chain {st} [{}] {c2}", rng.pick(&["cnv", "uni", "dbl", "cln"])));
            }
            if n <= 513 && repr != "el" {
                // dense: a vertex pushes > 65 536 stack / queue entries at order 363 and above
                for name in ["complete", "rt"] {
                    let st = if name == "rt" { format!("[gen {repr} rt {n} 7]") } else { format!("[gen {repr} {name} {n}]") };
                    for c in ["dfs", "dfs_pred", "bfs", "arcs", "is_tournament"] {
                        emit(format!("chk_chain {st} [] {c}"));
                    }
                }
            }
        }
    }
    // re-polled iterators and traversals over long sparse digraphs (explicit descriptions)
    for repr in graphs::ALL_REPRS {
        for n in [257usize, 1100] {
            let path: Vec<(usize, usize)> = (0..n - 1).map(|u| (u, u + 1)).collect();
            let mut d = desc(repr, &(0..n).collect::<Vec<_>>(), &path);
            if repr == "wu" || repr == "wi" {
                d = weighted(d, rng, 1, 5);
            }
            let dv = d.to_v();
            for name in ["arcs", "vertices", "degree_sequence", "sinks"] {
                emit(format!("chk_repoll {name} {dv}"));
            }
            emit(format!("chk_interleave arcs {dv} {dv}"));
            for k in ["bfs", "dfs", "bfs_pred", "dfs_dist"] {
                emit(format!("chk_it {k} {dv} [0] 3"));
                emit(format!("chk_it {k} {dv} [{} 0] 2 2", n - 1));
            }
            emit(format!("chk_twice tarjan {dv}"));
        }
    }
    // extreme vertex arguments on every vertex-argument operation (release: index arithmetic wraps)
    for repr in graphs::ALL_REPRS {
        for d in small_descs(rng, repr, 1) {
            let dv = d.to_v();
            for &x in &vargs(&d) {
                for name in Q_VERTEX1 {
                    if applies(name, repr) && name != "bfm_new" {
                        emit(format!("chk_q {name} {dv} {x}"));
                    }
                }
                for &y in &vargs(&d) {
                    for name in ["has_arc", "add_arc", "remove_arc", "toggle"] {
                        if applies(name, repr) {
                            emit(format!("chk_q {name} {dv} {x} {y}"));
                        }
                    }
                }
                for k in ["bfs", "dfs", "dfs_pred"] {
                    emit(format!("chk_it {k} {dv} [{x}] 2"));
                }
            }
        }
    }
    for n in [3usize, 9, 65, 1000] {
        let ids = [0, n - 1, n, usize::MAX, usize::MAX - 1, 1 << 63, 1 << 62, (usize::MAX / n).wrapping_add(1), usize::MAX / n];
        for _ in 0..40 {
            let steps: Vec<String> = (0..6)
                .map(|_| format!("[{} {} {}]", rng.pick(&["add", "tog", "rem", "has"]), rng.pick(&ids), rng.pick(&ids)))
                .collect();
            emit(format!("chk_mx {n} [{}]", steps.join(" ")));
        }
    }
}

pub fn gen(rng: &mut Rng, thorough: bool, emit: &mut dyn FnMut(String)) {
    if crate::stress() {
        gen_stress(rng, emit);
        return;
    }
    let random = if thorough { 12 } else { 3 };
    let mut leak: Vec<String> = Vec::new();
    let us = |v: &[usize]| V::us(v.iter().copied()).to_string();

    // ---------------------------------------------------------------- constructors
    let mut bk = Bucket::new();
    for repr in graphs::UNWEIGHTED {
        let sizes: Vec<usize> = vec![0, 1, 2, 3, 4, 5, 7, 9, 17];
        for &n in &sizes {
            for name in ["empty", "circuit", "complete", "cycle", "path", "star", "wheel"] {
                bk.push(format!("chk_gen {repr} {name} {n}"));
            }
            for seed in [0u64, 1, 0xFFFF_FFFF_FFFF_FFFF] {
                bk.push(format!("chk_gen {repr} rrt {n} {seed}"));
                bk.push(format!("chk_gen {repr} rt {n} {seed}"));
                for p in [0.0f64, 0.3, 0.5, 0.7, 1.0, -0.1, 1.5, f64::NAN, f64::INFINITY] {
                    if n <= 7 {
                        bk.push(format!("chk_gen {repr} er {n} {} {seed}", p.to_bits()));
                    }
                }
            }
            for m in [0usize, 1, 2, 5] {
                if n <= 5 {
                    bk.push(format!("chk_gen {repr} biclique {m} {n}"));
                }
            }
        }
        for name in ["trivial", "claw", "utility"] {
            bk.push(format!("chk_gen {repr} {name}"));
        }
    }
    for repr in ["wu", "wi"] {
        for n in [0usize, 1, 2, 5] {
            bk.push(format!("chk_gen {repr} empty {n}"));
        }
        bk.push(format!("chk_gen {repr} trivial"));
    }
    // orders whose square overflows: documented panic, no allocation happens (the matrix only;
    // the other representations would legitimately try to allocate ≫ RAM)
    for n in [1usize << 32, (1 << 32) + 1, 1 << 40, usize::MAX] {
        for name in ["empty", "circuit", "complete", "cycle", "path", "star", "wheel"] {
            bk.push(format!("chk_gen mx {name} {n}"));
        }
        bk.push(format!("chk_gen mx rrt {n} 1"));
        bk.push(format!("chk_gen mx rt {n} 1"));
        bk.push(format!("chk_gen mx er {n} {} 1", 0.5f64.to_bits()));
        bk.push(format!("chk_dm new {n}"));
    }
    for n in [0usize, 1, 2, 3, 8, 1 << 30, 1 << 31] {
        bk.push(format!("chk_dm new {n}"));
    }
    bk.flush(rng, thorough, 500, 100_000, emit, &mut leak);

    // From<rows> / From<pairs>
    let mut bk = Bucket::new();
    let row_sets: [&str; 10] = [
        "[]", "[[]]", "[[1] []]", "[[1] [0]]", "[[0] []]", "[[1] [1]]", "[[2] []]", "[[1 2] [2] [0]]",
        "[[1099511627776] []]", "[[] [] [0 1 3]]",
    ];
    for r in row_sets {
        bk.push(format!("chk_rows al {r}"));
        bk.push(format!("chk_rows am {r}"));
    }
    let pair_lists: [&str; 9] = [
        "[]", "[[0 1]]", "[[1 0] [0 1]]", "[[0 0]]", "[[0 1] [2 2]]", "[[3 1] [1 2]]", "[[0 70]]",
        "[[0 1099511627776]]", "[[0 18446744073709551615]]",
    ];
    for r in pair_lists {
        bk.push(format!("chk_rows mx {r}"));
        if !r.contains("1099511627776") {
            // EdgeList::from with a far id just stores the order: digesting `vertices()` would
            // iterate 0..2^40
            bk.push(format!("chk_rows el {r}"));
        }
    }
    let row_maps: [&str; 8] = [
        "[]", "[[]]", "[[[1 5]] []]", "[[[1 5]] [[0 2]]]", "[[[0 1]] []]", "[[[2 1]] []]", "[[[1 1] [2 3]] [[2 0]] [[0 4]]]",
        "[[[1099511627776 1]] []]",
    ];
    for r in row_maps {
        bk.push(format!("chk_rows wu {r}"));
        bk.push(format!("chk_rows wi {r}"));
    }
    bk.flush(rng, thorough, 80, 100_000, emit, &mut leak);

    // ---------------------------------------------------------------- per digraph
    let mut by_repr: Vec<(String, Vec<Desc>)> = Vec::new();
    for repr in graphs::ALL_REPRS {
        by_repr.push((repr.to_string(), small_descs(rng, repr, random)));
    }

    // conversions
    let mut bk = Bucket::new();
    for (repr, descs) in &by_repr {
        if repr == "wu" || repr == "wi" {
            continue;
        }
        for d in descs {
            for dst in graphs::ALL_REPRS {
                if dst != repr {
                    bk.push(format!("chk_from {} {dst}", d.to_v()));
                }
            }
        }
    }
    bk.flush(rng, thorough, 150, 100_000, emit, &mut leak);

    // queries
    let mut q1 = Bucket::new();
    let mut q2 = Bucket::new();
    let mut q0 = Bucket::new();
    let mut qb = Bucket::new();
    for (repr, descs) in &by_repr {
        for d in descs {
            let dv = d.to_v();
            let va = vargs(d);
            for name in Q_VERTEX1 {
                if !applies(name, repr) {
                    continue;
                }
                for &x in &va {
                    if name == "bfm_new" {
                        q1.push(format!("chk_alg bfm_new {dv} {x}"));
                        if repr == "wi" {
                            q1.push(format!("chk_alg bfm {dv} {x}"));
                        }
                    } else {
                        q1.push(format!("chk_q {name} {dv} {x}"));
                    }
                }
            }
            for name in Q_VERTEX2 {
                if name != "has_walk2" && !applies(name, repr) {
                    continue;
                }
                for &x in &va {
                    for &y in &va {
                        if name == "has_walk2" {
                            q2.push(format!("chk_q has_walk {dv} [{x} {y}]"));
                            q2.push(format!("chk_q has_walk {dv} [{x} {y} {x}]"));
                        } else {
                            q2.push(format!("chk_q {name} {dv} {x} {y}"));
                        }
                    }
                }
            }
            q2.push(format!("chk_q has_walk {dv} []"));
            q2.push(format!("chk_q has_walk {dv} [0]"));
            for name in Q_NOARG {
                if !applies(name, repr) {
                    continue;
                }
                if name == "fw" || name == "fw_new" {
                    q0.push(format!("chk_alg {name} {dv}"));
                } else {
                    q0.push(format!("chk_q {name} {dv}"));
                }
            }
            if repr == "am" {
                for keep in [vec![], d.verts.clone(), d.verts.iter().copied().skip(1).collect(), vec![FAR], d.verts.iter().copied().take(1).collect()] {
                    q0.push(format!("chk_q filter_vertices {dv} {}", us(&keep)));
                }
            }
            // binary operations with every digraph of the same representation
            if applies("union", repr) {
                for e in descs {
                    for name in ["union", "is_subdigraph", "is_superdigraph", "is_spanning_subdigraph", "clone_from"] {
                        qb.push(format!("chk_q {name} {dv} {}", e.to_v()));
                    }
                }
            }
        }
    }
    q1.flush(rng, thorough, 700, 200_000, emit, &mut leak);
    q2.flush(rng, thorough, 700, 200_000, emit, &mut leak);
    q0.flush(rng, thorough, 700, 200_000, emit, &mut leak);
    qb.flush(rng, thorough, 300, 200_000, emit, &mut leak);

    // chains: the result of every producing operation / generator fed to the consumers that index
    // vectors by successors or rows without a check
    let mut bk = Bucket::new();
    let consumers = ["degree_sequence", "indegree_sequence", "converse", "complement", "is_tournament", "is_semicomplete",
        "is_complete", "is_symmetric", "arcs", "tarjan", "bfs"];
    let prods = ["cpl", "cnv", "uni", "dbl", "cln"];
    for (repr, descs) in &by_repr {
        if repr == "wu" || repr == "wi" {
            continue;
        }
        let mut starts: Vec<String> = descs.iter().filter(|d| d.order() >= 1).map(|d| d.to_v().to_string()).collect();
        for n in [1usize, 2, 3, 5, 8, 17] {
            for name in ["empty", "circuit", "complete", "cycle", "path", "star"] {
                starts.push(format!("[gen {repr} {name} {n}]"));
            }
            if n >= 4 {
                starts.push(format!("[gen {repr} wheel {n}]"));
            }
            starts.push(format!("[gen {repr} biclique {n} 2]"));
            starts.push(format!("[gen {repr} rrt {n} 7]"));
            starts.push(format!("[gen {repr} rt {n} 7]"));
            starts.push(format!("[gen {repr} er {n} {} 7]", 0.3f64.to_bits()));
            starts.push(format!("[gen {repr} er {n} {} 7]", 0.8f64.to_bits()));
        }
        for st in &starts {
            for _ in 0..(if thorough { 6 } else { 2 }) {
                let k = rng.below(4);
                let ps: Vec<&str> = (0..k).map(|_| *rng.pick(&prods)).collect();
                bk.push(format!("chk_chain {st} [{}] {}", ps.join(" "), rng.pick(&consumers)));
            }
        }
    }
    bk.flush(rng, thorough, 500, 100_000, emit, &mut leak);

    // histories (sequences of mutating / querying calls, some with arguments that are not vertices)
    let mut bk = Bucket::new();
    for (repr, descs) in &by_repr {
        if repr == "wu" || repr == "wi" {
            continue;
        }
        for d in descs {
            let va = vargs(d);
            for _ in 0..(if thorough { 6 } else { 2 }) {
                let len = 1 + rng.below(8);
                let steps: Vec<String> = (0..len)
                    .map(|_| {
                        let x = *rng.pick(&va);
                        let y = *rng.pick(&va);
                        match rng.below(8) {
                            0 | 1 | 2 => format!("[add {x} {y}]"),
                            3 => format!("[rem {x} {y}]"),
                            4 => format!("[tog {x} {y}]"),
                            5 => format!("[outdeg {x}]"),
                            6 => format!("[indeg {x}]"),
                            _ => format!("[outn {x}]"),
                        }
                    })
                    .collect();
                bk.push(format!("chk_hist {} [{}]", d.to_v(), steps.join(" ")));
            }
        }
    }
    bk.flush(rng, thorough, 200, 100_000, emit, &mut leak);

    // matrix index arithmetic: all (u, v) over {0.., order-1, order, order+1, far}
    let mut bk = Bucket::new();
    for n in [1usize, 2, 3, 7, 8, 9, 11, 64, 65] {
        let ids = [0, 1, n / 2, n - 1, n, n + 1, FAR];
        for _ in 0..(if thorough { 30 } else { 6 }) {
            let len = 1 + rng.below(10);
            let steps: Vec<String> = (0..len)
                .map(|_| {
                    let x = *rng.pick(&ids);
                    let y = *rng.pick(&ids);
                    let op = *rng.pick(&["add", "add", "tog", "rem", "has"]);
                    format!("[{op} {x} {y}]")
                })
                .collect();
            bk.push(format!("chk_mx {n} [{}]", steps.join(" ")));
        }
        // the last cell: the highest index the matrix ever computes
        bk.push(format!("chk_mx {n} [[add {} {}] [has {} {}] [tog {} {}] [rem {} {}]]", n - 1, n.saturating_sub(2), n - 1, n.saturating_sub(2), n - 1, n.saturating_sub(2), n - 1, n.saturating_sub(2)));
    }
    for n in [0usize, 1 << 32, 1 << 40, usize::MAX] {
        bk.push(format!("chk_mx {n} [[add 0 1]]"));
    }
    bk.flush(rng, thorough, 70, 100_000, emit, &mut leak);

    // ---------------------------------------------------------------- traversals
    let mut it = Bucket::new();
    let mut alg = Bucket::new();
    let mut dij = Bucket::new(); // the Dijkstra family exists for one representation only: own quota
    for (repr, descs) in &by_repr {
        for d in descs {
            let dv = d.to_v();
            let n = d.order();
            let va = vargs(d);
            let mut srcs: Vec<Vec<usize>> = vec![vec![]];
            for &x in &va {
                srcs.push(vec![x]);
            }
            if let (Some(&a), Some(&b)) = (d.verts.first(), d.verts.last()) {
                srcs.push(vec![a, b]);
                srcs.push(vec![b, a, a]);
                srcs.push(vec![a, n]);
                srcs.push(vec![FAR, a]);
                srcs.push(vec![a, FAR]);
                // ids below the order (what the traversals accept) that may not be keys of a map
                srcs.push((0..n.min(4)).collect());
            }
            let kinds: &[&str] = if repr == "wu" {
                &["bfs", "bfs_dist", "bfs_pred", "dfs", "dfs_dist", "dfs_pred", "dijkstra", "dijkstra_dist", "dijkstra_pred"]
            } else {
                &["bfs", "bfs_dist", "bfs_pred", "dfs", "dfs_dist", "dfs_pred"]
            };
            for s in &srcs {
                for k in kinds {
                    let rounds = 1 + rng.below(3);
                    let shape = rng.below(6); // 0, 4, 5: exact size_hint; 1..3: the lazy shapes
                    let line = if (1..=3).contains(&shape) {
                        format!("chk_it {k} {dv} {} {rounds} {shape}", us(s))
                    } else {
                        format!("chk_it {k} {dv} {} {rounds}", us(s))
                    };
                    if k.starts_with("dijkstra") { dij.push(line) } else { it.push(line) }
                }
                let tg = vec![*rng.pick(&va), *rng.pick(&va)];
                let mut names = vec!["bfs_dist_distances", "bfs_pred_predecessors", "bfs_pred_cycles", "dfs_pred_predecessors"];
                if repr == "wu" {
                    names.extend(["dijkstra_dist_distances", "dijkstra_pred_predecessors"]);
                }
                for name in names {
                    let line = format!("chk_alg {name} {dv} {}", us(s));
                    if name.starts_with("dijkstra") { dij.push(line) } else { alg.push(line) }
                }
                alg.push(format!("chk_alg bfs_pred_shortest_path {dv} {} {}", us(s), us(&tg)));
                if repr == "wu" {
                    dij.push(format!("chk_alg dijkstra_pred_shortest_path {dv} {} {}", us(s), us(&tg)));
                }
            }
        }
    }
    it.flush(rng, thorough, 900, 300_000, emit, &mut leak);
    alg.flush(rng, thorough, 600, 300_000, emit, &mut leak);
    dij.flush(rng, thorough, 400, 300_000, emit, &mut leak);


    // ---------------------------------------------------------------- round 2
    // (a) `From<rows | maps | pairs>` with valid and invalid heads mixed in every position, then
    //     (when the constructor returned) every operation / algorithm on the result
    let mut bk = Bucket::new();
    for n in 1usize..=4 {
        let bases: Vec<Vec<Vec<usize>>> = vec![
            vec![vec![]; n],
            (0..n).map(|u| if u + 1 < n { vec![u + 1] } else { vec![] }).collect(),
            (0..n).map(|u| if n > 1 { vec![(u + 1) % n] } else { vec![] }).collect(),
            (0..n).map(|u| (0..n).filter(|&v| v != u).collect()).collect(),
        ];
        for base in &bases {
            let show_sets = |rows: &Vec<Vec<usize>>| {
                format!("[{}]", rows.iter().map(|r| us(r)).collect::<Vec<_>>().join(" "))
            };
            let show_maps = |rows: &Vec<Vec<usize>>| {
                format!(
                    "[{}]",
                    rows.iter()
                        .map(|r| format!("[{}]", r.iter().map(|v| format!("[{v} {}]", 1 + v % 7)).collect::<Vec<_>>().join(" ")))
                        .collect::<Vec<_>>()
                        .join(" ")
                )
            };
            let mut variants: Vec<Vec<Vec<usize>>> = vec![base.clone()];
            for u in 0..n {
                let valid: Vec<usize> = (0..n).filter(|&v| v != u).collect();
                let mut extra: Vec<Vec<usize>> = vec![
                    vec![n], vec![n + 1], vec![FAR], vec![usize::MAX], vec![n, n + 1], vec![u],
                ];
                if let Some(&a) = valid.first() {
                    let z = *valid.last().unwrap_or(&a);
                    extra.extend([
                        vec![a, n],             // smallest valid, largest invalid
                        vec![a, n + 1],
                        vec![a, FAR],
                        vec![a, usize::MAX],
                        vec![a, n, usize::MAX], // valid, invalid in the middle, invalid
                        vec![a, z, n],
                        vec![a, u],             // self-loop not first (when a < u) / first (when a > u)
                        vec![a, z, u],
                        vec![u, n],
                    ]);
                }
                for e in extra {
                    let mut rows = base.clone();
                    let mut r: Vec<usize> = rows[u].iter().copied().chain(e).collect();
                    r.sort_unstable();
                    r.dedup();
                    rows[u] = r;
                    variants.push(rows);
                }
            }
            for rows in variants {
                bk.push(format!("chk_rows_all al {}", show_sets(&rows)));
                bk.push(format!("chk_rows_all am {}", show_sets(&rows)));
                bk.push(format!("chk_rows_all wu {}", show_maps(&rows)));
                bk.push(format!("chk_rows_all wi {}", show_maps(&rows)));
                // arc lists: the same arcs in row order, reversed, and with the invalid ones first
                let pairs: Vec<(usize, usize)> =
                    rows.iter().enumerate().flat_map(|(u, r)| r.iter().map(move |&v| (u, v))).collect();
                if pairs.iter().all(|&(u, v)| u.max(v) < 64) {
                    let fwd = V::pairs(pairs.iter().copied()).to_string();
                    let rev = V::pairs(pairs.iter().rev().copied()).to_string();
                    for r in ["mx", "el"] {
                        bk.push(format!("chk_rows_all {r} {fwd}"));
                        bk.push(format!("chk_rows_all {r} {rev}"));
                    }
                }
            }
        }
    }
    bk.push("chk_rows_all al []".to_string());
    bk.push("chk_rows_all wi []".to_string());
    bk.push("chk_rows_all mx []".to_string());
    bk.push("chk_rows_all el []".to_string());
    bk.flush(rng, thorough, 420, 100_000, emit, &mut leak);

    // (b) every iterator the API returns: re-polled after `None`, two of them interleaved
    let mut bk = Bucket::new();
    let iters = ["arcs", "vertices", "sinks", "sources", "degree_sequence", "indegree_sequence", "outdegree_sequence",
        "semidegree_sequence", "arcs_weighted"];
    let iters1 = ["out_neighbors", "in_neighbors", "out_neighbors_weighted"];
    for (repr, descs) in &by_repr {
        for d in descs {
            let dv = d.to_v();
            for name in iters {
                if !applies(name, repr) {
                    continue;
                }
                bk.push(format!("chk_repoll {name} {dv}"));
                if name != "arcs_weighted" {
                    for e in descs.iter().take(6) {
                        bk.push(format!("chk_interleave {name} {dv} {}", e.to_v()));
                    }
                    bk.push(format!("chk_interleave {name} {dv} {dv}"));
                }
            }
            for name in iters1 {
                if !applies(name, repr) {
                    continue;
                }
                for &x in &vargs(d) {
                    bk.push(format!("chk_repoll {name} {dv} {x}"));
                    if name != "out_neighbors_weighted" {
                        bk.push(format!("chk_interleave {name} {dv} {dv} {x}"));
                    }
                }
            }
        }
    }
    for (dist, inf, order) in [("[]", 9isize, 1usize), ("[0]", 9, 1), ("[0 1 2 0]", 9, 2), ("[0 1 2]", 9, 2), ("[0 9 9 0 1 2]", 9, 4), ("[1]", 9, 0)] {
        bk.push(format!("chk_repoll dm_eccentricities {dist} {inf} {order}"));
        bk.push(format!("chk_repoll dm_periphery {dist} {inf} {order}"));
    }
    bk.flush(rng, thorough, 600, 300_000, emit, &mut leak);

    // (c) seeded generators with seeds next to u64::MAX (a worker adds its thread id to the seed)
    let mut bk = Bucket::new();
    for repr in graphs::UNWEIGHTED {
        for k in 0u64..=16 {
            let seed = u64::MAX - k;
            for n in [2usize, 3, 5, 17, 33] {
                bk.push(format!("chk_gen {repr} rrt {n} {seed}"));
                bk.push(format!("chk_gen {repr} rt {n} {seed}"));
                for p in [0.3f64, 0.8] {
                    if n <= 17 {
                        bk.push(format!("chk_gen {repr} er {n} {} {seed}", p.to_bits()));
                    }
                }
            }
        }
    }
    for seed in [u64::MAX, u64::MAX - 1, u64::MAX - 15] {
        bk.push(format!("chk_prng {seed} 50"));
    }
    bk.flush(rng, thorough, 260, 100_000, emit, &mut leak);

    // (d) the same entry point three times on the same object
    let mut bk = Bucket::new();
    for (repr, descs) in &by_repr {
        for d in descs {
            let dv = d.to_v();
            let a = d.verts.first().copied().unwrap_or(0);
            for src in [vec![], vec![a], d.verts.iter().copied().filter(|&v| v < d.order()).collect(), vec![d.order()]] {
                for name in ["bfs_dist_distances", "bfs_pred_predecessors", "dfs_pred_predecessors"] {
                    bk.push(format!("chk_twice {name} {dv} {}", us(&src)));
                }
                if repr == "wu" {
                    bk.push(format!("chk_twice dijkstra {dv} {}", us(&src)));
                }
                if repr == "wi" && !src.is_empty() {
                    bk.push(format!("chk_twice bfm {dv} {}", us(&src)));
                }
            }
            bk.push(format!("chk_twice tarjan {dv}"));
            if repr == "am" {
                bk.push(format!("chk_twice johnson {dv}"));
            }
            if repr == "wi" {
                bk.push(format!("chk_twice fw {dv}"));
            }
        }
    }
    bk.flush(rng, thorough, 250, 100_000, emit, &mut leak);

    // ---------------------------------------------------------------- small types
    let mut bk = Bucket::new();
    let mats: [(&str, isize, usize); 7] = [
        ("[]", 9, 0), ("[]", 9, 1), ("[0]", 9, 1), ("[0 1 2 0]", 9, 2), ("[0 1 2]", 9, 2), ("[0 9 9 0]", 9, 2), ("[0 1 2 3 4 5]", 9, 4),
    ];
    for (dist, inf, order) in mats {
        for name in ["center", "diameter", "eccentricities", "is_connected", "periphery"] {
            bk.push(format!("chk_dm {name} {dist} {inf} {order}"));
        }
        for i in [0usize, 1, 3, 4, 6, FAR] {
            bk.push(format!("chk_dm index {dist} {inf} {order} {i}"));
            for j in [0usize, 1, 2, FAR] {
                bk.push(format!("chk_dm index2 {dist} {inf} {order} {i} {j}"));
                bk.push(format!("chk_dm index_mut2 {dist} {inf} {order} {i} {j}"));
            }
        }
    }
    for n in [0usize, 1, 2, 5] {
        bk.push(format!("chk_pt new {n}"));
    }
    for pred in ["[]", "[none]", "[1 none]", "[7 none 0]"] {
        for i in [0usize, 1, 2, 3, FAR] {
            bk.push(format!("chk_pt index {pred} {i}"));
            bk.push(format!("chk_pt index_mut {pred} {i}"));
        }
    }
    for seed in [0u64, 1, 42, u64::MAX] {
        bk.push(format!("chk_prng {seed} 50"));
    }
    bk.flush(rng, thorough, 120, 100_000, emit, &mut leak);

    // user-built predecessor trees with out-of-range entries / starts (handled by H19)
    super::super::c19::gen_malformed(rng, thorough, emit);

    // ---------------------------------------------------------------- leak programs
    // every sixth program of every category, repeated k times; plus the §7 witness
    leak.push(format!(
        "chk_q union {} {}",
        desc("am", &[0, 1, 2, 3, 4], &[(0, 1), (1, 2), (2, 3), (3, 4), (4, 0)]).to_v(),
        desc("am", &[0, 1, 2, 3, 4, 5, 6], &[(0, 1), (1, 2), (2, 3), (3, 4), (4, 5), (5, 6)]).to_v()
    ));
    leak.sort();
    leak.dedup();
    rng.shuffle(&mut leak);
    let k = if thorough { 30 } else { 30 };
    let take = if thorough { 6_000 } else { 450 };
    // the witness first
    let w = leak.iter().position(|l| l.starts_with("chk_q union [am [0 1 2 3 4] ")).unwrap_or(0);
    leak.swap(0, w);
    for l in leak.into_iter().take(take) {
        emit(format!("chk_leak {k} [{l}]"));
    }
}
