//! C09 — `Tarjan::components` on the real code.
//!
//!   tarjan_components <desc>   =>  [[ids of component 1, ascending] [component 2] ...] | panic
//!
//!   tarjan_repeat <desc> <k>   =>  [[[..] ..] [[..] ..] ..] | panic   (k = 1..5)
//!       `components()` called `k` times on ONE `Tarjan` value; the k returned lists in call order.
//!
//! `desc` is any digraph description (`al am mx el wu wi`; all six implement
//! `OutNeighbors + Vertices`).  The components are printed in EMISSION order (the order of the
//! returned `Vec`), each `BTreeSet` in its iteration (= ascending) order.
#![allow(clippy::all)]

use crate::graphs::{self, Desc};
use crate::rng::Rng;
use crate::value::V;
use crate::with_digraph;
use graaf::Tarjan;
use std::collections::BTreeSet;

pub fn eval(op: &str, args: &[V]) -> Option<Vec<V>> {
    match op {
        "tarjan_components" => {
            let [desc] = args else { return None };
            let desc = Desc::parse(desc)?;
            let comps: Vec<BTreeSet<usize>> =
                with_digraph!(&desc, d => Tarjan::new(&d).components().clone());
            Some(vec![V::L(comps.into_iter().map(V::us).collect())])
        }
        "tarjan_repeat" => {
            let [desc, k] = args else { return None };
            let desc = Desc::parse(desc)?;
            let k = k.as_usize()?;
            if k == 0 || k > 5 {
                return None;
            }
            let outs: Vec<Vec<BTreeSet<usize>>> = with_digraph!(&desc, d => {
                let mut t = Tarjan::new(&d);
                (0..k).map(|_| t.components().clone()).collect()
            });
            Some(vec![V::L(outs
                .into_iter()
                .map(|cs| V::L(cs.into_iter().map(V::us).collect()))
                .collect())])
        }
        _ => None,
    }
}

const REPRS: [&str; 6] = ["al", "am", "mx", "el", "wu", "wi"];

fn emit_desc(emit: &mut dyn FnMut(String), d: &Desc) {
    emit(format!("tarjan_components {}", d.to_v()));
}

fn emit_repeat(emit: &mut dyn FnMut(String), d: &Desc, k: usize) {
    emit(format!("tarjan_repeat {} {k}", d.to_v()));
}

/// Ids far outside `0..order`: around 2^32, 2^62, 2^63 and `usize::MAX`, mixed with small ones,
/// with pairs congruent mod 64 / mod 2^32 (hash-, filter- or truncation-style shortcuts).
fn huge_ids(rng: &mut Rng, n: usize) -> Vec<usize> {
    const M: usize = usize::MAX;
    const POOL: [usize; 28] = [
        0, 1, 2, 63, 64, 65, 128, 1 << 16, (1 << 32) - 1, 1 << 32, (1 << 32) + 1, (1 << 32) + 64,
        (1 << 33) + 1, 1 << 48, 1 << 62, (1 << 62) + 64, (1 << 63) - 1, 1 << 63, (1 << 63) + 1,
        (1 << 63) + 64, M / 2 - 1, M / 3, M - 129, M - 65, M - 64, M - 2, M - 1, M,
    ];
    let mut ids: Vec<usize> = POOL.to_vec();
    rng.shuffle(&mut ids);
    ids.truncate(n.min(POOL.len()));
    while ids.len() < n {
        let x = (rng.next() as usize) | if rng.chance(1, 2) { 1 << 63 } else { 0 };
        if !ids.contains(&x) {
            ids.push(x);
        }
    }
    ids.sort_unstable();
    ids
}

fn huge_desc(rng: &mut Rng, n: usize) -> Desc {
    let (_, arcs) = if rng.chance(1, 2) { graphs::gen_arcs(rng, n) } else { gen_scc_arcs(rng, n) };
    let ids = huge_ids(rng, n);
    let arcs: Vec<(usize, usize)> = arcs.into_iter().map(|(u, v)| (ids[u], ids[v])).collect();
    let k = arcs.len();
    Desc { repr: "am".to_string(), verts: ids, arcs, weights: vec![1; k] }
}

/// Large orders (200..600): sparse SCC-structured families, plus "circuit with pendants"
/// (a long circuit whose vertices each have a finished out-neighbour: residue / filter bugs).
fn large_desc(rng: &mut Rng, lo: usize, hi: usize) -> Desc {
    let repr = REPRS[rng.below(6)];
    let n = lo + rng.below(hi - lo + 1);
    let arcs = if rng.chance(1, 3) {
        let c = n / 2 + rng.below(n / 4 + 1);
        let mut a: Vec<(usize, usize)> = (0..c).map(|i| (i, (i + 1) % c)).collect();
        for p in c..n {
            a.push((rng.below(c), p));
        }
        rng.shuffle(&mut a);
        a
    } else {
        gen_scc_arcs(rng, n).1
    };
    let sparse = rng.chance(1, 2);
    finish_desc(rng, repr, n, arcs, sparse)
}

/// Order mixture: recursion depth matters, word boundaries do not — cap at 60.
fn gen_order(rng: &mut Rng) -> usize {
    let r = rng.below(100);
    if r < 55 {
        1 + rng.below(8)
    } else if r < 85 {
        9 + rng.below(16)
    } else {
        25 + rng.below(36)
    }
}

fn permute(rng: &mut Rng, n: usize, arcs: &mut [(usize, usize)]) {
    let mut p: Vec<usize> = (0..n).collect();
    rng.shuffle(&mut p);
    for a in arcs.iter_mut() {
        *a = (p[a.0], p[a.1]);
    }
}

/// SCC-structured families (besides the shared ones of `graphs::gen_arcs`).
fn gen_scc_arcs(rng: &mut Rng, n: usize) -> (&'static str, Vec<(usize, usize)>) {
    let mut set: BTreeSet<(usize, usize)> = BTreeSet::new();
    let name: &'static str;
    match rng.below(6) {
        0 => {
            // one Hamiltonian cycle with chords: nested cycles, a single component
            name = "nested-cycles";
            if n >= 2 {
                for i in 0..n {
                    let _ = set.insert((i, (i + 1) % n));
                }
                for _ in 0..rng.below(n + 1) {
                    let (a, b) = (rng.below(n), rng.below(n));
                    if a != b {
                        let _ = set.insert((a, b));
                    }
                }
            }
        }
        1 | 2 => {
            // blocks = strongly connected pieces, arcs between blocks only forward
            name = "scc-dag";
            let mut bounds = vec![0usize];
            while *bounds.last().unwrap() < n {
                let last = *bounds.last().unwrap();
                let len = if rng.chance(1, 3) { 1 } else { 1 + rng.below(6) };
                bounds.push((last + len).min(n));
            }
            for w in bounds.windows(2) {
                let (lo, hi) = (w[0], w[1]);
                let len = hi - lo;
                if len >= 2 {
                    for i in 0..len {
                        let _ = set.insert((lo + i, lo + (i + 1) % len));
                    }
                    for _ in 0..rng.below(len) {
                        let (a, b) = (lo + rng.below(len), lo + rng.below(len));
                        if a != b {
                            let _ = set.insert((a, b));
                        }
                    }
                }
            }
            // forward cross arcs (later blocks never reach back)
            let cross = rng.below(2 * n + 1);
            for _ in 0..cross {
                let (a, b) = (rng.below(n), rng.below(n));
                let (a, b) = (a.min(b), a.max(b));
                let ba = bounds.iter().rposition(|&x| x <= a).unwrap();
                let bb = bounds.iter().rposition(|&x| x <= b).unwrap();
                if ba != bb {
                    let _ = set.insert((a, b));
                }
            }
        }
        3 => {
            // a long path (deep recursion, n singletons), optionally closed into a lollipop
            name = "path";
            for i in 0..n.saturating_sub(1) {
                let _ = set.insert((i, i + 1));
            }
            if n >= 3 && rng.chance(1, 2) {
                let _ = set.insert((n - 1, rng.below(n - 1)));
            }
        }
        4 => {
            // out-tree + back arcs to ancestors + cross arcs to earlier non-ancestors
            name = "tree-back-cross";
            let mut parent = vec![0usize; n];
            for v in 1..n {
                parent[v] = rng.below(v);
                let _ = set.insert((parent[v], v));
            }
            for _ in 0..rng.below(n + 1) {
                let v = rng.below(n);
                if v == 0 {
                    continue;
                }
                if rng.chance(1, 2) {
                    // back arc: to a random ancestor
                    let mut a = parent[v];
                    while a != 0 && rng.chance(1, 2) {
                        a = parent[a];
                    }
                    let _ = set.insert((v, a));
                } else {
                    let w = rng.below(v);
                    if w != v {
                        let _ = set.insert((v, w));
                    }
                }
            }
        }
        _ => {
            // two cycles joined one way or both ways
            name = "two-cycles";
            if n >= 4 {
                let k = 2 + rng.below(n - 3);
                for i in 0..k {
                    let _ = set.insert((i, (i + 1) % k));
                }
                for i in k..n {
                    let _ = set.insert((i, if i + 1 < n { i + 1 } else { k }));
                }
                match rng.below(3) {
                    0 => {
                        let _ = set.insert((rng.below(k), k + rng.below(n - k)));
                    }
                    1 => {
                        let _ = set.insert((k + rng.below(n - k), rng.below(k)));
                    }
                    _ => {
                        let _ = set.insert((rng.below(k), k + rng.below(n - k)));
                        let _ = set.insert((k + rng.below(n - k), rng.below(k)));
                    }
                }
                set.retain(|&(a, b)| a != b);
            }
        }
    }
    let mut arcs: Vec<(usize, usize)> = set.into_iter().collect();
    if rng.chance(2, 3) {
        // the DFS order must not coincide with the label order
        permute(rng, n, &mut arcs);
    }
    rng.shuffle(&mut arcs);
    (name, arcs)
}

/// Strictly ascending ids with random gaps (non-contiguous `AdjacencyMap`).
fn sparse_ids(rng: &mut Rng, n: usize) -> Vec<usize> {
    let mut ids = Vec::with_capacity(n);
    let mut x = rng.below(4);
    for _ in 0..n {
        ids.push(x);
        x += 1 + if rng.chance(1, 2) { 0 } else { rng.below(40) };
    }
    ids
}

fn finish_desc(rng: &mut Rng, repr: &str, n: usize, arcs: Vec<(usize, usize)>, sparse: bool) -> Desc {
    let k = arcs.len();
    let mut d = Desc { repr: repr.to_string(), verts: (0..n).collect(), arcs, weights: vec![1; k] };
    match repr {
        "wu" => d.weights = (0..k).map(|_| i128::from(rng.range(0, 9))).collect(),
        "wi" => d.weights = (0..k).map(|_| i128::from(rng.range(-5, 9))).collect(),
        "am" if sparse => {
            let ids = sparse_ids(rng, n);
            d.arcs = d.arcs.iter().map(|&(u, v)| (ids[u], ids[v])).collect();
            d.verts = ids;
        }
        _ => {}
    }
    d
}

/// All digraphs on `n` vertices (no self-loops): one bit per ordered pair.
fn all_digraphs(n: usize, mut f: impl FnMut(u32, Vec<(usize, usize)>)) {
    let pairs: Vec<(usize, usize)> =
        (0..n).flat_map(|u| (0..n).filter(move |&v| v != u).map(move |v| (u, v))).collect();
    for code in 0u32..(1u32 << pairs.len()) {
        let arcs = pairs.iter().enumerate().filter(|(i, _)| code >> i & 1 == 1).map(|(_, &p)| p).collect();
        f(code, arcs);
    }
}

/// Out-of-distribution stream (`gharness gen C09 <seed> stress`): used by the orchestrator's
/// search when a tie is broken.  Most promising first; ~30 s of harness + driver time.
fn gen_stress(rng: &mut Rng, emit: &mut dyn FnMut(String)) {
    // state carried between calls, all representations, small digraphs first
    for n in 1..=3usize {
        let mut all: Vec<Vec<(usize, usize)>> = vec![];
        all_digraphs(n, |_, arcs| all.push(arcs));
        for (j, arcs) in all.into_iter().enumerate() {
            let d = finish_desc(rng, REPRS[j % 6], n, arcs, j % 2 == 0);
            emit_repeat(emit, &d, 2 + j % 2);
        }
    }
    // huge ids
    for j in 0..1500usize {
        let n = 1 + rng.below(if j % 4 == 0 { 24 } else { 8 });
        let d = huge_desc(rng, n);
        if j % 3 == 0 {
            emit_repeat(emit, &d, 2 + rng.below(2));
        } else {
            emit_desc(emit, &d);
        }
    }
    // orders 64..200: ids congruent mod 64, denser digraphs
    for _ in 0..300 {
        let repr = REPRS[rng.below(6)];
        let n = 64 + rng.below(137);
        let (_, arcs) = if rng.chance(1, 2) { graphs::gen_arcs(rng, n) } else { gen_scc_arcs(rng, n) };
        let arcs: Vec<(usize, usize)> = if arcs.len() > 6 * n { arcs.into_iter().take(6 * n).collect() } else { arcs };
        let sparse = rng.chance(1, 2);
        let d = finish_desc(rng, repr, n, arcs, sparse);
        emit_desc(emit, &d);
    }
    // orders 200..600 (recursion depth, stack sizes)
    for j in 0..24usize {
        let d = if j < 16 { large_desc(rng, 200, 360) } else { large_desc(rng, 360, 600) };
        if j % 4 == 0 {
            emit_repeat(emit, &d, 2);
        } else {
            emit_desc(emit, &d);
        }
    }
}

pub fn gen(rng: &mut Rng, thorough: bool, emit: &mut dyn FnMut(String)) {
    if crate::stress() {
        gen_stress(rng, emit);
        return;
    }
    // (1) exhaustive small scope: every digraph on <= 3 vertices in all six representations,
    //     every digraph on 4 vertices (representation rotates; thorough: `al` as well);
    //     sparse ids for every other `am`.  Every digraph on <= 3 vertices also with repeated calls.
    let mut k = 0usize;
    for n in 1..=4 {
        let mut all: Vec<Vec<(usize, usize)>> = vec![];
        all_digraphs(n, |_, arcs| all.push(arcs));
        for arcs in all {
            let reprs: Vec<&str> = if n <= 3 {
                REPRS.to_vec()
            } else if thorough {
                vec!["al", REPRS[1 + k % 5]]
            } else {
                vec![REPRS[k % 6]]
            };
            for repr in reprs {
                k += 1;
                let d = finish_desc(rng, repr, n, arcs.clone(), k % 12 < 6);
                emit_desc(emit, &d);
            }
            if n <= 3 {
                let d = finish_desc(rng, REPRS[k % 6], n, arcs.clone(), k % 12 < 6);
                emit_repeat(emit, &d, 2 + k % 2);
            }
        }
    }
    // the empty AdjacencyMap (reachable through `filter_vertices`)
    emit("tarjan_components [am [] []]".to_string());
    emit("tarjan_repeat [am [] []] 3".to_string());

    // (2) random: shared families and SCC-structured families, all representations;
    //     every 5th digraph with `components()` called 2..3 times on the same value
    let n_random = if thorough { 40_000 } else { 2_000 };
    for j in 0..n_random {
        let repr = REPRS[rng.below(6)];
        let n = gen_order(rng);
        let (_, arcs) = if rng.chance(1, 2) { graphs::gen_arcs(rng, n) } else { gen_scc_arcs(rng, n) };
        let sparse = rng.chance(1, 2);
        let d = finish_desc(rng, repr, n, arcs, sparse);
        if j % 5 == 4 {
            emit_repeat(emit, &d, 2 + rng.below(2));
        } else {
            emit_desc(emit, &d);
        }
        // the shared sparse generator (ids around word boundaries) now and then
        if j % 16 == 0 {
            let (_, d) = graphs::gen_am_sparse(rng, 12);
            emit_desc(emit, &d);
        }
        // ids around 2^32, 2^63, usize::MAX
        if j % 16 == 8 {
            let n = 1 + rng.below(10);
            let d = huge_desc(rng, n);
            if j % 32 == 8 {
                emit_repeat(emit, &d, 2);
            } else {
                emit_desc(emit, &d);
            }
        }
    }

    // (3) deep recursion: orders 100..200, sparse SCC-structured families only;
    //     thorough: a few of 200..600
    for _ in 0..(if thorough { 40 } else { 4 }) {
        let d = large_desc(rng, 100, 200);
        emit_desc(emit, &d);
    }
    if thorough {
        for _ in 0..6 {
            let d = large_desc(rng, 200, 600);
            emit_desc(emit, &d);
        }
    } else {
        let d = large_desc(rng, 200, 300);
        emit_desc(emit, &d);
    }
}
