//! C12 — the structural predicates of graaf, evaluated on the real code.
//!
//!   pred_unary <desc>          => obs is_complete is_semicomplete is_tournament is_regular
//!                                 is_balanced is_symmetric is_oriented is_simple unchanged
//!   pred_rel   <descH> <descD> => obsH obsD H.is_subdigraph(D) H.is_superdigraph(D)
//!                                 H.is_spanning_subdigraph(D)
//!
//! `obs` = `[order [vertices] [arcs]]` of the digraph as built (the driver's oracle evaluates
//! the definitions on it).  `AdjacencyList::is_semicomplete` is threaded: the whole stream is
//! run under the `taskset` masks of `props/C12.json`.
#![allow(clippy::all)]

use super::c02::{obs, Q};
use crate::graphs::{self, Desc};
use crate::rng::Rng;
use crate::value::V;
use graaf::{
    IsBalanced, IsComplete, IsOriented, IsRegular, IsSemicomplete, IsSimple, IsSpanningSubdigraph, IsSubdigraph,
    IsSuperdigraph, IsSymmetric, IsTournament,
};
use std::collections::BTreeSet;
use std::panic::{catch_unwind, AssertUnwindSafe};

pub trait P:
    Q + IsComplete
    + IsSemicomplete
    + IsTournament
    + IsRegular
    + IsBalanced
    + IsSymmetric
    + IsOriented
    + IsSimple
    + IsSubdigraph
    + IsSuperdigraph
    + IsSpanningSubdigraph
{
}
impl<T> P for T where
    T: Q + IsComplete
        + IsSemicomplete
        + IsTournament
        + IsRegular
        + IsBalanced
        + IsSymmetric
        + IsOriented
        + IsSimple
        + IsSubdigraph
        + IsSuperdigraph
        + IsSpanningSubdigraph
{
}

fn g(f: impl FnOnce() -> bool) -> V {
    catch_unwind(AssertUnwindSafe(f)).map_or_else(|_| V::atom("panic"), V::bool)
}

/// `pred_minus_pair`: no observation of the arcs (lines stay short); instead a summary that ties the built
/// digraph to the description: `[order size has_arc(u,v) has_arc(v,u) arcs()==rule]`, then the predicates.
fn minus_pair<D: P>(d: &D, u: usize, v: usize, rule_sorted: &[(usize, usize)]) -> Vec<V> {
    let c = d.clone();
    let arcs_ok = d.arcs().eq(rule_sorted.iter().copied());
    vec![
        V::L(vec![V::u(d.order()), V::u(d.size()), V::bool(d.has_arc(u, v)), V::bool(d.has_arc(v, u)), V::bool(arcs_ok)]),
        g(|| d.is_complete()),
        g(|| d.is_semicomplete()),
        g(|| d.is_tournament()),
        g(|| d.is_regular()),
        g(|| d.is_balanced()),
        g(|| d.is_symmetric()),
        g(|| d.is_oriented()),
        g(|| d.is_simple()),
        V::bool(*d == c),
    ]
}

/// Arcs of `pred_minus_pair <repr> <n> <u> <v> <mode>`, heads in descending order (cheap row inserts):
/// `pair` = complete(n) minus both arcs between `u` and `v`; `arc` = complete(n) minus the arc `u -> v`;
/// `tour` = the rule tournament of `pred_tour` with the pair `{u, v}` not joined (another pair doubled).
pub fn minus_pair_arcs(n: usize, u: usize, v: usize, mode: &str) -> Option<Vec<(usize, usize)>> {
    if u == v || u >= n || v >= n {
        return None;
    }
    match mode {
        "pair" | "arc" => {
            let mut arcs = Vec::with_capacity(n * n);
            for b in (0..n).rev() {
                for a in (0..n).rev() {
                    let removed = (a == u && b == v) || (mode == "pair" && a == v && b == u);
                    if a != b && !removed {
                        arcs.push((a, b));
                    }
                }
            }
            Some(arcs)
        }
        "tour" if n >= 4 => Some(tour_arcs(n, Some((u.min(v), u.max(v))))),
        _ => None,
    }
}

fn unary<D: P>(d: &D) -> Vec<V> {
    let c = d.clone();
    vec![
        obs(d),
        g(|| d.is_complete()),
        g(|| d.is_semicomplete()),
        g(|| d.is_tournament()),
        g(|| d.is_regular()),
        g(|| d.is_balanced()),
        g(|| d.is_symmetric()),
        g(|| d.is_oriented()),
        g(|| d.is_simple()),
        V::bool(*d == c),
    ]
}

fn rel<D: P>(h: &D, d: &D) -> Vec<V> {
    vec![
        obs(h),
        obs(d),
        g(|| h.is_subdigraph(d)),
        g(|| h.is_superdigraph(d)),
        g(|| h.is_spanning_subdigraph(d)),
    ]
}

/// The rule tournament on `0..n` (`u < v`: `u -> v` when `u + v` is even, else `v -> u`); with
/// `missing = (a, b)` that pair is not joined and another pair is doubled, so the size is still
/// `n(n-1)/2` and every size pre-check passes. Compact form of a dense `pred_unary` case.
pub fn tour_arcs(n: usize, missing: Option<(usize, usize)>) -> Vec<(usize, usize)> {
    let mut arcs = Vec::with_capacity(n * n / 2 + 1);
    let dbl = missing.map(|(a, b)| if a.min(b) >= 2 { (0, 1) } else { (n - 2, n - 1) });
    // pairs in descending order (v = n-1..1, u = v-1..0): every row receives its heads in decreasing
    // order, so both the real `BTreeSet` inserts and the model's `sinsert` are cheap
    for v in (1..n).rev() {
        for u in (0..v).rev() {
            if missing == Some((u, v)) {
                continue;
            }
            if dbl == Some((u, v)) {
                arcs.push((u, v));
                arcs.push((v, u));
            } else if (u + v) % 2 == 0 {
                arcs.push((u, v));
            } else {
                arcs.push((v, u));
            }
        }
    }
    arcs
}

pub fn eval(op: &str, args: &[V]) -> Option<Vec<V>> {
    match op {
        "pred_tour" => {
            // pred_tour <repr> <n> [] | [a b]   (a < b < n, n >= 4 when a pair is given)
            let [repr, n, pr] = args else { return None };
            let (repr, n, pr) = (repr.as_atom()?, n.as_usize()?, pr.as_usizes()?);
            let missing = match pr.as_slice() {
                [] => None,
                [a, b] if a < b && *b < n && n >= 4 => Some((*a, *b)),
                _ => return None,
            };
            if n == 0 || n > 2000 || !graphs::ALL_REPRS.contains(&repr) {
                return None;
            }
            let arcs = tour_arcs(n, missing);
            let k = arcs.len();
            let desc = Desc { repr: repr.to_string(), verts: (0..n).collect(), arcs, weights: vec![1; k] };
            Some(crate::with_digraph!(&desc, d => unary(&d)))
        }
        "pred_minus_pair" => {
            let [repr, n, u, v, mode] = args else { return None };
            let (repr, n, u, v, mode) = (repr.as_atom()?, n.as_usize()?, u.as_usize()?, v.as_usize()?, mode.as_atom()?);
            if n > 2000 || !graphs::ALL_REPRS.contains(&repr) {
                return None;
            }
            let arcs = minus_pair_arcs(n, u, v, mode)?;
            let mut sorted = arcs.clone();
            sorted.sort_unstable();
            let k = arcs.len();
            let desc = Desc { repr: repr.to_string(), verts: (0..n).collect(), arcs, weights: vec![1; k] };
            Some(crate::with_digraph!(&desc, d => minus_pair(&d, u, v, &sorted)))
        }
        "pred_unary" => {
            let [d] = args else { return None };
            let desc = Desc::parse(d)?;
            Some(crate::with_digraph!(&desc, d => unary(&d)))
        }
        "pred_rel" => {
            let [h, d] = args else { return None };
            let (hd, dd) = (Desc::parse(h)?, Desc::parse(d)?);
            if hd.repr != dd.repr {
                return None;
            }
            Some(match hd.repr.as_str() {
                "al" => rel(&hd.build_al(), &dd.build_al()),
                "am" => rel(&hd.build_am(), &dd.build_am()),
                "mx" => rel(&hd.build_mx(), &dd.build_mx()),
                "el" => rel(&hd.build_el(), &dd.build_el()),
                "wu" => rel(&hd.build_wu(), &dd.build_wu()),
                "wi" => rel(&hd.build_wi(), &dd.build_wi()),
                _ => return None,
            })
        }
        _ => None,
    }
}

// ---------------------------------------------------------------------------------------
// generator
// ---------------------------------------------------------------------------------------

fn order_mix(rng: &mut Rng, max: usize) -> usize {
    let r = rng.below(100);
    let n = if r < 55 {
        1 + rng.below(8)
    } else if r < 82 {
        9 + rng.below(32)
    } else {
        41 + rng.below(60)
    };
    n.min(max).max(1)
}

/// A pair of distinct vertices; biased towards the first / last rows (chunk boundaries).
fn pick_pair(rng: &mut Rng, n: usize) -> (usize, usize) {
    // the last two / three vertices: the rows a wrong chunking is most likely to drop
    match rng.below(8) {
        0 | 1 if n >= 2 => return (n - 2, n - 1),
        2 if n >= 3 => return (n - 3, n - 1),
        _ => {}
    }
    let u = match rng.below(4) {
        0 => n - 1,
        1 => 0,
        _ => rng.below(n),
    };
    let mut v = rng.below(n);
    if v == u {
        v = (u + 1) % n;
    }
    (u, v)
}

fn tournament(rng: &mut Rng, n: usize) -> BTreeSet<(usize, usize)> {
    let mut set = BTreeSet::new();
    for u in 0..n {
        for v in (u + 1)..n {
            let _ = if rng.chance(1, 2) { set.insert((u, v)) } else { set.insert((v, u)) };
        }
    }
    set
}

fn complete(n: usize) -> BTreeSet<(usize, usize)> {
    (0..n).flat_map(|u| (0..n).filter(move |&v| v != u).map(move |v| (u, v))).collect()
}

/// Arc sets aimed at the predicates (true and false answers of each, shortcut defeaters).
pub fn gen_pred_arcs(rng: &mut Rng, n: usize) -> (&'static str, Vec<(usize, usize)>) {
    let (name, set): (&'static str, BTreeSet<(usize, usize)>) = match rng.below(18) {
        0..=3 => {
            let (name, arcs) = graphs::gen_arcs(rng, n);
            (name, arcs.into_iter().collect())
        }
        4 => ("complete", complete(n)),
        5 => {
            // still semicomplete, neither complete nor a tournament
            let mut s = complete(n);
            if n >= 2 {
                let p = pick_pair(rng, n);
                let _ = s.remove(&p);
            }
            ("complete-minus-arc", s)
        }
        6 => {
            let mut s = complete(n);
            if n >= 2 {
                let (u, v) = pick_pair(rng, n);
                let _ = s.remove(&(u, v));
                let _ = s.remove(&(v, u));
            }
            ("complete-minus-pair", s)
        }
        7 | 8 => ("tournament", tournament(rng, n)),
        9 | 16 | 17 => {
            // n(n-1)/2 arcs, one pair doubled, one pair missing: defeats the size shortcut
            let mut s = tournament(rng, n);
            if n >= 3 {
                let (a, b) = pick_pair(rng, n);
                let (c, d) = pick_pair(rng, n);
                if (a.min(b), a.max(b)) != (c.min(d), c.max(d)) {
                    let _ = s.insert((a, b));
                    let _ = s.insert((b, a));
                    let _ = s.remove(&(c, d));
                    let _ = s.remove(&(d, c));
                }
            }
            ("pseudo-tournament", s)
        }
        10 => {
            let mut s = tournament(rng, n);
            if n >= 2 {
                let (u, v) = pick_pair(rng, n);
                let _ = s.insert((u, v));
                let _ = s.insert((v, u));
            }
            ("tournament-plus-arc", s)
        }
        11 => {
            let mut s = tournament(rng, n);
            if n >= 2 {
                let (u, v) = pick_pair(rng, n);
                let _ = s.remove(&(u, v));
                let _ = s.remove(&(v, u));
            }
            ("tournament-minus-arc", s)
        }
        12 => {
            // circulant: u -> u+1 .. u+k (mod n): regular and balanced
            let k = if n > 1 { 1 + rng.below((n - 1).min(4)) } else { 0 };
            let mut s = BTreeSet::new();
            for u in 0..n {
                for j in 1..=k {
                    let _ = s.insert((u, (u + j) % n));
                }
            }
            if rng.chance(1, 4) && n >= 3 {
                // break regularity, keep balance: remove a whole cycle step? remove one arc
                let p = *s.iter().nth(rng.below(s.len())).unwrap();
                let _ = s.remove(&p);
            }
            ("circulant", s)
        }
        13 => {
            // disjoint directed cycles + isolated vertices: balanced, regular only when spanning
            let mut s = BTreeSet::new();
            let mut start = 0;
            while start < n {
                let len = (1 + rng.below(5)).min(n - start);
                if len >= 2 && rng.chance(3, 4) {
                    for i in 0..len {
                        let _ = s.insert((start + i, start + (i + 1) % len));
                    }
                }
                start += len;
            }
            ("cycles", s)
        }
        14 => {
            let mut s = BTreeSet::new();
            for u in 0..n {
                for v in (u + 1)..n {
                    if rng.chance(1, 3) {
                        let _ = s.insert((u, v));
                        let _ = s.insert((v, u));
                    }
                }
            }
            if rng.chance(1, 4) && !s.is_empty() {
                let p = *s.iter().nth(rng.below(s.len())).unwrap();
                let _ = s.remove(&p);
            }
            ("symmetric~", s)
        }
        _ => ("empty", BTreeSet::new()),
    };
    let mut arcs: Vec<(usize, usize)> = set.into_iter().collect();
    rng.shuffle(&mut arcs);
    (name, arcs)
}

fn max_order(repr: &str) -> usize {
    match repr {
        "el" => 40,
        "wu" | "wi" => 60,
        _ => 100,
    }
}

fn mk(repr: &str, verts: Vec<usize>, arcs: Vec<(usize, usize)>, rng: &mut Rng) -> Desc {
    let weights = arcs
        .iter()
        .map(|_| match repr {
            "wu" => i128::from(rng.range(0, 9)),
            "wi" => i128::from(rng.range(-9, 9)),
            _ => 1,
        })
        .collect();
    Desc { repr: repr.to_string(), verts, arcs, weights }
}

const POOL: [usize; 12] = [0, 2, 3, 7, 11, 63, 64, 65, 100, 127, 128, 1000];

/// Relabel a contiguous arc set onto sparse ids (AdjacencyMap only).
fn sparse_ids(rng: &mut Rng, n: usize) -> Vec<usize> {
    let mut ids = POOL.to_vec();
    rng.shuffle(&mut ids);
    ids.truncate(n);
    ids.sort_unstable();
    ids
}

/// `H` derived from `D` so that every relation is true reasonably often.
fn gen_rel(rng: &mut Rng, repr: &str, emit: &mut dyn FnMut(String)) {
    let sparse = repr == "am" && rng.chance(1, 2);
    let n = if sparse { 1 + rng.below(12) } else { order_mix(rng, max_order(repr).min(60)) };
    let ids: Vec<usize> = if sparse { sparse_ids(rng, n) } else { (0..n).collect() };
    let (_, arcs0) = graphs::gen_arcs(rng, n);
    let d_arcs: Vec<(usize, usize)> = arcs0.iter().map(|&(u, v)| (ids[u], ids[v])).collect();
    let all_pairs: Vec<(usize, usize)> =
        ids.iter().flat_map(|&u| ids.iter().filter(move |&&v| v != u).map(move |&v| (u, v))).collect();
    let mut h_verts = ids.clone();
    let mut h_arcs = d_arcs.clone();
    let drop_some = |rng: &mut Rng, a: &mut Vec<(usize, usize)>| {
        let k = 1 + rng.below(3);
        for _ in 0..k {
            if !a.is_empty() {
                let i = rng.below(a.len());
                let _ = a.swap_remove(i);
            }
        }
    };
    let add_some = |rng: &mut Rng, a: &mut Vec<(usize, usize)>| {
        if all_pairs.is_empty() {
            return;
        }
        let k = 1 + rng.below(3);
        for _ in 0..k {
            let p = *rng.pick(&all_pairs);
            if !a.contains(&p) {
                a.push(p);
            }
        }
    };
    match rng.below(10) {
        0 => {} // equal
        1 | 2 => drop_some(rng, &mut h_arcs),
        3 | 4 => add_some(rng, &mut h_arcs),
        5 => {
            drop_some(rng, &mut h_arcs);
            add_some(rng, &mut h_arcs);
        }
        6 => {
            // H on fewer vertices (contiguous: a prefix; map: a subset of the keys)
            if n >= 2 {
                let m = 1 + rng.below(n - 1);
                if sparse {
                    let mut keep = ids.clone();
                    rng.shuffle(&mut keep);
                    keep.truncate(m);
                    keep.sort_unstable();
                    h_verts = keep;
                } else {
                    h_verts = (0..m).collect();
                }
                h_arcs.retain(|(u, v)| h_verts.contains(u) && h_verts.contains(v));
                if rng.chance(1, 3) {
                    drop_some(rng, &mut h_arcs);
                }
            }
        }
        7 => {
            // H on more vertices
            let extra = 1 + rng.below(3);
            if sparse {
                for x in POOL {
                    if !h_verts.contains(&x) && h_verts.len() < n + extra {
                        h_verts.push(x);
                    }
                }
                h_verts.sort_unstable();
            } else {
                h_verts = (0..n + extra).collect();
            }
            if rng.chance(1, 2) {
                let a = h_verts[rng.below(h_verts.len())];
                let b = h_verts[h_verts.len() - 1];
                if a != b {
                    h_arcs.push((a, b));
                }
            }
        }
        8 if sparse => {
            // same order, one key replaced: V(H) != V(D), nothing can hold (unless both arcless on it)
            let k = rng.below(h_verts.len());
            let old = h_verts[k];
            if let Some(&new) = POOL.iter().find(|x| !h_verts.contains(x)) {
                h_verts[k] = new;
                h_verts.sort_unstable();
                for a in h_arcs.iter_mut() {
                    if a.0 == old {
                        a.0 = new;
                    }
                    if a.1 == old {
                        a.1 = new;
                    }
                }
            }
        }
        _ => {
            // unrelated digraph of a similar shape
            let (_, other) = graphs::gen_arcs(rng, n);
            h_arcs = other.iter().map(|&(u, v)| (ids[u], ids[v])).collect();
        }
    }
    let d = mk(repr, ids, d_arcs, rng);
    let h = mk(repr, h_verts, h_arcs, rng);
    if rng.chance(1, 2) {
        emit(format!("pred_rel {} {}", h.to_v(), d.to_v()));
    } else {
        emit(format!("pred_rel {} {}", d.to_v(), h.to_v()));
    }
}

// ---------------------------------------------------------------------------------------
// out-of-distribution cases (round 2): orders far above the thread count for the threaded
// AdjacencyList::is_semicomplete, AdjacencyMap ids next to usize::MAX
// ---------------------------------------------------------------------------------------

/// A tournament on `0..n` in which the pair `{a, b}` is NOT joined and another pair is doubled
/// (so `size == n(n-1)/2` still passes every size pre-check): semicomplete / tournament must be false.
fn tournament_minus_pair(rng: &mut Rng, n: usize, a: usize, b: usize) -> Vec<(usize, usize)> {
    let mut s = tournament(rng, n);
    let _ = s.remove(&(a, b));
    let _ = s.remove(&(b, a));
    // double a pair far away from {a, b}
    let (c, d) = if a.min(b) >= 2 { (0, 1) } else { (n - 2, n - 1) };
    let _ = s.insert((c, d));
    let _ = s.insert((d, c));
    let mut arcs: Vec<_> = s.into_iter().collect();
    rng.shuffle(&mut arcs);
    arcs
}

fn large_al_lines(rng: &mut Rng, orders: &[usize], all_pairs: bool, emit: &mut dyn FnMut(String)) {
    for &n in orders {
        // the only non-adjacent pair lies in the trailing rows (then: in the leading rows, at a chunk boundary)
        let mut pairs = vec![(n - 2, n - 1)];
        if all_pairs {
            pairs.push((n - 3, n - 1));
            pairs.push((n - 3, n - 2));
            pairs.push((0, 1));
            let c = n.div_ceil(16);
            pairs.push((c - 1, c));
            pairs.push((rng.below(n / 2), n / 2 + rng.below(n / 2)));
        }
        for (a, b) in pairs {
            emit(format!("pred_tour al {n} [{a} {b}]"));
        }
    }
}

/// Map digraphs on ids incl. `usize::MAX`, `MAX-1`, `MAX/2` whose size passes the pre-checks.
fn extreme_id_maps(rng: &mut Rng, rounds: usize, emit: &mut dyn FnMut(String)) {
    let pools: [Vec<usize>; 3] = [
        vec![0, 7, usize::MAX / 2, usize::MAX - 1, usize::MAX],
        vec![usize::MAX - 2, usize::MAX - 1, usize::MAX],
        vec![5, usize::MAX],
    ];
    for r in 0..rounds {
        let ids = &pools[r % pools.len()];
        let n = ids.len();
        let relabel = |arcs: Vec<(usize, usize)>| -> Vec<(usize, usize)> {
            arcs.into_iter().map(|(u, v)| (ids[u], ids[v])).collect()
        };
        let mut shapes: Vec<Vec<(usize, usize)>> = vec![
            tournament(rng, n).into_iter().collect(),
            complete(n).into_iter().collect(),
            gen_pred_arcs(rng, n).1,
        ];
        if n >= 3 {
            // the only non-adjacent pair involves the largest id
            shapes.push(tournament_minus_pair(rng, n, n - 2, n - 1));
            shapes.push(tournament_minus_pair(rng, n, 0, n - 1));
        }
        for arcs in shapes {
            let d = mk("am", ids.clone(), relabel(arcs), rng);
            emit(format!("pred_unary {}", d.to_v()));
        }
        // relational: H = D minus its largest vertex / D itself
        let d = mk("am", ids.clone(), relabel(tournament(rng, n).into_iter().collect()), rng);
        let mut hv = ids.clone();
        let top = hv.pop().unwrap();
        let ha: Vec<(usize, usize)> = d.arcs.iter().copied().filter(|&(u, v)| u != top && v != top).collect();
        if !hv.is_empty() {
            let h = mk("am", hv, ha, rng);
            emit(format!("pred_rel {} {}", h.to_v(), d.to_v()));
            emit(format!("pred_rel {} {}", d.to_v(), h.to_v()));
        }
        emit(format!("pred_rel {} {}", d.to_v(), d.to_v()));
    }
}

/// The stress stream (generated only when a tie is broken and a failing input is searched for).
fn gen_stress(rng: &mut Rng, emit: &mut dyn FnMut(String)) {
    extreme_id_maps(rng, 6, emit);
    gen_minus_pair_stress(emit);
    // orders 192..: `order mod t` takes many values for t = min(cores, order / 64), order / t, ceil(order / t)
    large_al_lines(rng, &[200, 193, 257, 263], true, emit);
    large_al_lines(rng, &[300, 339, 513, 518], false, emit);
    // positive cases of the same size (a true answer must stay true), other representations
    for &n in &[200usize, 263] {
        emit(format!("pred_tour al {n} []"));
    }
    for repr in ["am", "mx"] {
        emit(format!("pred_tour {repr} 200 [198 199]"));
    }
    // one explicit random dense case (not rule-generated)
    let arcs = tournament_minus_pair(rng, 200, 198, 199);
    emit(format!("pred_unary {}", mk("al", (0..200).collect(), arcs, rng).to_v()));
    large_al_lines(rng, &[770, 1030, 1100], false, emit);
    gen_minus_pair_stress_full(emit);
}

/// Systematic sweep: complete minus ONE pair / minus one arc / rule tournament with one pair missing, the
/// smaller endpoint on EVERY row, the larger one next to it / in the middle / last; orders of both parities
/// on both sides of plausible thresholds. Compact lines (`pred_minus_pair`), no arc lists in the output.
fn sweep_order(repr: &str, n: usize, rows: &[usize], partners: &[&str], modes: &[&str], emit: &mut dyn FnMut(String)) {
    for &u in rows {
        if u + 1 >= n {
            continue;
        }
        let mut vs: Vec<usize> = vec![];
        for &p in partners {
            let v = match p {
                "next" => u + 1,
                "mid" => (u + 1 + n - 1) / 2,
                _ => n - 1,
            };
            if v > u && v < n && !vs.contains(&v) {
                vs.push(v);
            }
        }
        for &v in &vs {
            for &mode in modes {
                if mode == "tour" && n < 4 {
                    continue;
                }
                emit(format!("pred_minus_pair {repr} {n} {u} {v} {mode}"));
                if mode == "arc" {
                    emit(format!("pred_minus_pair {repr} {n} {v} {u} {mode}"));
                }
            }
        }
    }
}

fn all_rows(n: usize) -> Vec<usize> {
    (0..n.saturating_sub(1)).collect()
}

/// first three, the five around the middle, last three rows
fn sample_rows(n: usize) -> Vec<usize> {
    let m = (n - 2) / 2;
    let mut r: Vec<usize> = vec![0, 1, 2, m.saturating_sub(2), m.saturating_sub(1), m, m + 1, m + 2, n.saturating_sub(4), n.saturating_sub(3), n - 2];
    r.retain(|&u| u + 1 < n);
    r.sort_unstable();
    r.dedup();
    r
}

fn gen_minus_pair(thorough: bool, emit: &mut dyn FnMut(String)) {
    // orders 2..40, all of them, every row as the smaller endpoint
    for n in 2usize..=40 {
        sweep_order("al", n, &all_rows(n), &["next"], &["pair"], emit);
        if thorough {
            sweep_order("al", n, &all_rows(n), &["mid", "last"], &["pair"], emit);
            sweep_order("al", n, &all_rows(n), &["last"], &["arc", "tour"], emit);
        } else {
            let mut few = vec![0, (n - 2) / 2, n - 2];
            few.dedup();
            sweep_order("al", n, &few, &["last"], &["pair", "arc", "tour"], emit);
        }
        if n <= 6 || [17, 40].contains(&n) || thorough {
            for repr in ["am", "mx", "el", "wu"] {
                let rows = if n <= 6 || thorough { all_rows(n) } else { sample_rows(n) };
                sweep_order(repr, n, &rows, &["last"], &["pair"], emit);
            }
        }
    }
    // both sides of 64 / 128: every row at 128 and 130 (both even), sampled rows elsewhere (thorough: every row)
    for &n in &[128usize, 130] {
        sweep_order("al", n, &all_rows(n), &["next"], &["pair"], emit);
        sweep_order("al", n, &sample_rows(n), &["last"], &["pair", "tour", "arc"], emit);
    }
    for &n in &[63usize, 64, 65, 127, 129] {
        let rows = if thorough { all_rows(n) } else { sample_rows(n) };
        sweep_order("al", n, &rows, &["next", "last"], &["pair"], emit);
        sweep_order("al", n, &sample_rows(n), &["next"], &["tour"], emit);
    }
    for repr in ["am", "mx", "el", "wu"] {
        let n = if repr == "mx" || repr == "am" { 66 } else { 40 };
        sweep_order(repr, n, &sample_rows(n), &["next", "last"], &["pair"], emit);
    }
}

fn middle_rows(n: usize) -> Vec<usize> {
    let m = (n - 2) / 2;
    vec![m, m + 1, n - 2]
}

/// Stress part of the sweep, cheap part first: sampled rows (first / around the middle / last) at
/// 191 … 258 and near 512, the middle rows near 1024.
fn gen_minus_pair_stress(emit: &mut dyn FnMut(String)) {
    for &n in &[192usize, 256, 258, 191, 255, 257] {
        let mut rows = middle_rows(n);
        rows.extend([0, (n - 2) / 2 - 1]);
        sweep_order("al", n, &rows, &["next"], &["pair"], emit);
        sweep_order("al", n, &middle_rows(n), &["last"], &["tour"], emit);
    }
    for &n in &[512usize, 514, 513] {
        sweep_order("al", n, &middle_rows(n), &["next"], &["pair"], emit);
    }
    for &n in &[1024usize, 1026] {
        sweep_order("al", n, &[(n - 2) / 2], &["next"], &["pair"], emit);
    }
}

/// … and the expensive part (end of the stress stream): every row at 192, every 4th row at 256 and 258.
fn gen_minus_pair_stress_full(emit: &mut dyn FnMut(String)) {
    sweep_order("al", 192, &all_rows(192), &["next"], &["pair"], emit);
    for &n in &[256usize, 258] {
        let rows: Vec<usize> = all_rows(n).into_iter().filter(|u| u % 4 == 1).collect();
        sweep_order("al", n, &rows, &["next"], &["pair"], emit);
    }
}

/// Cheap out-of-distribution cases that run in EVERY tier (after the regular stream).
fn gen_ood(rng: &mut Rng, emit: &mut dyn FnMut(String)) {
    extreme_id_maps(rng, 2, emit);
    large_al_lines(rng, &[200, 263], false, emit);
}


pub fn gen(rng: &mut Rng, thorough: bool, emit: &mut dyn FnMut(String)) {
    if crate::stress() {
        gen_stress(rng, emit);
        return;
    }
    if thorough {
        // exhaustive small scope: all digraphs on <= 3 vertices (unary), all pairs on <= 2 x <= 3 (relational, al + am)
        let mut small: Vec<(usize, Vec<(usize, usize)>)> = vec![];
        for n in 1usize..=3 {
            let pairs: Vec<(usize, usize)> =
                (0..n).flat_map(|u| (0..n).filter(move |&v| v != u).map(move |v| (u, v))).collect();
            for code in 0u32..(1 << pairs.len()) {
                let arcs: Vec<(usize, usize)> =
                    pairs.iter().enumerate().filter(|(i, _)| code >> i & 1 == 1).map(|(_, &p)| p).collect();
                small.push((n, arcs));
            }
        }
        for (n, arcs) in &small {
            for repr in graphs::ALL_REPRS {
                emit(format!("pred_unary {}", mk(repr, (0..*n).collect(), arcs.clone(), rng).to_v()));
            }
        }
        for (n1, a1) in small.iter().filter(|(n, _)| *n <= 3) {
            for (n2, a2) in small.iter().filter(|(n, _)| *n <= 2) {
                for repr in ["al", "am", "mx", "el"] {
                    let h = mk(repr, (0..*n1).collect(), a1.clone(), rng);
                    let d = mk(repr, (0..*n2).collect(), a2.clone(), rng);
                    emit(format!("pred_rel {} {}", h.to_v(), d.to_v()));
                    emit(format!("pred_rel {} {}", d.to_v(), h.to_v()));
                }
            }
        }
    }
    // smallest first: the first failing case is the one that gets shrunk and reported
    let mut lines: Vec<(usize, String)> = vec![];
    let n_unary = if thorough { 1000 } else { 150 };
    for _ in 0..n_unary {
        // the same arc set in every representation (orders capped per representation)
        let n = order_mix(rng, 100);
        let (_, arcs) = gen_pred_arcs(rng, n);
        for repr in graphs::ALL_REPRS {
            if n <= max_order(repr) {
                lines.push((n, format!("pred_unary {}", mk(repr, (0..n).collect(), arcs.clone(), rng).to_v())));
            }
        }
        // and on sparse map ids
        if n <= 12 {
            let ids = sparse_ids(rng, n);
            let arcs: Vec<(usize, usize)> = arcs.iter().map(|&(u, v)| (ids[u], ids[v])).collect();
            lines.push((n, format!("pred_unary {}", mk("am", ids, arcs, rng).to_v())));
        }
    }
    let n_rel = if thorough { 900 } else { 110 };
    for _ in 0..n_rel {
        for repr in graphs::ALL_REPRS {
            gen_rel(rng, repr, &mut |s: String| {
                let len = s.len();
                lines.push((len / 8, s));
            });
        }
    }
    lines.sort_by_key(|(k, s)| (*k, s.len()));
    for (_, s) in lines {
        emit(s);
    }
    gen_minus_pair(thorough, emit);
    gen_ood(rng, emit);
}
