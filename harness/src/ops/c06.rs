//! C06 — `Dfs`, `DfsDist`, `DfsPred`, `DfsPred::predecessors` on the real code.
//!
//!   dfs_iter <desc> <sources> [family]  =>  <Dfs items>
//!   dfs_dist <desc> <sources> [family]  =>  <DfsDist items>                    `[v depth]`
//!   dfs_pred <desc> <sources> [family]  =>  <DfsPred items> <predecessors()>   `[pred v]`, `none | id`
//!
//!   dfs_repoll <desc> <sources> [family] =>  <Dfs polls> <DfsDist polls> <DfsPred polls>
//!
//! `dfs_repoll` keeps calling `next()` after a `None` (|sources| + arcs + 2 polls): each poll is an
//! item or the atom `none`; trailing `none`s are trimmed. An optional FOURTH argument of the first
//! three ops chooses how the sources are passed: `vec` (slice iterator, exact `size_hint`),
//! `filter` (lower bound 0), `flatten` (no upper bound), `takewhile` (upper bound larger than the
//! real length), `mapwhile`.
//!
//! `<desc>` is a digraph description of `graphs.rs`, or one of two COMPACT descriptions (large
//! digraphs given by a formula, so that a case line stays short and the shrinker can work on it):
//!
//!   [k <repr> n a b m t [[u v] …]]   arc u→v (u ≠ v) iff (u·a + v·b) mod m < t, minus the listed arcs
//!                                    (m = t = 1: the complete digraph of order n)
//!   [b <repr> n h]                   "broom": 0→h and h→v for every v ∉ {0, h}
//!
//! Each output is a list, or the atom `panic` when that call panicked. Items are printed exactly
//! as yielded. The optional third argument only labels the generator family (it ends up in the
//! evidence histogram); the real code never sees it.
#![allow(clippy::all)]

use crate::graphs::{self, Desc};
use crate::rng::Rng;
use crate::value::V;
use crate::with_digraph;
use graaf::{Dfs, DfsDist, DfsPred};
use std::panic::{catch_unwind, AssertUnwindSafe};

fn guarded(f: impl FnOnce() -> V) -> V {
    catch_unwind(AssertUnwindSafe(f)).unwrap_or_else(|_| V::atom("panic"))
}

/// The sources as the caller-side iterator shape `shape` (round 2: lazy iterators whose
/// `size_hint` is not exact).
fn src_iter<'a>(sources: &'a [usize], shape: &str) -> Option<Box<dyn Iterator<Item = usize> + 'a>> {
    Some(match shape {
        "vec" => Box::new(sources.iter().copied()),
        "filter" => Box::new(sources.iter().copied().filter(|_| true)),
        "flatten" => Box::new(sources.iter().map(|&s| vec![s]).flatten()),
        "takewhile" => Box::new(
            sources.iter().copied().chain(std::iter::once(usize::MAX)).take_while(|&s| s != usize::MAX),
        ),
        "mapwhile" => Box::new(sources.iter().copied().map_while(Some)),
        _ => return None,
    })
}

fn polled<T>(mut it: impl Iterator<Item = T>, polls: usize, show: impl Fn(T) -> V) -> V {
    let mut out: Vec<V> = (0..polls).map(|_| it.next().map_or_else(V::none, &show)).collect();
    while out.last() == Some(&V::none()) {
        let _ = out.pop();
    }
    V::L(out)
}

pub fn eval(op: &str, args: &[V]) -> Option<Vec<V>> {
    if !matches!(op, "dfs_iter" | "dfs_dist" | "dfs_pred" | "dfs_repoll") {
        return None;
    }
    if args.len() < 2 || args.len() > 4 {
        return None;
    }
    let desc = match compact(&args[0]) {
        Some(d) => d,
        None => Desc::parse(&args[0])?,
    };
    let sources = args[1].as_usizes()?;
    let shape = if args.len() == 4 { args[3].as_atom()?.to_string() } else { "vec".to_string() };
    let _ = src_iter(&sources, &shape)?;
    let src = || src_iter(&sources, &shape).expect("shape");
    Some(with_digraph!(&desc, d => {
        match op {
            "dfs_iter" => vec![guarded(|| V::us(Dfs::new(&d, src()).collect::<Vec<_>>()))],
            "dfs_dist" => vec![guarded(|| V::pairs(DfsDist::new(&d, src()).collect::<Vec<_>>()))],
            "dfs_pred" => {
                let items = guarded(|| {
                    let mut items = vec![];
                    for (p, v) in DfsPred::new(&d, src()) {
                        items.push(V::L(vec![V::opt_u(p), V::u(v)]));
                    }
                    V::L(items)
                });
                let tree = guarded(|| {
                    let tree = DfsPred::new(&d, src()).predecessors();
                    V::L(tree.into_iter().map(V::opt_u).collect())
                });
                vec![items, tree]
            }
            _ => {
                let polls = sources.len() + desc.arcs.len() + 2;
                vec![
                    guarded(|| polled(Dfs::new(&d, src()), polls, V::u)),
                    guarded(|| polled(DfsDist::new(&d, src()), polls, |(v, w)| V::L(vec![V::u(v), V::u(w)]))),
                    guarded(|| polled(DfsPred::new(&d, src()), polls, |(p, v)| V::L(vec![V::opt_u(p), V::u(v)]))),
                ]
            }
        }
    }))
}

/// The two compact descriptions (see the module comment). Arcs are listed row by row.
fn compact(v: &V) -> Option<Desc> {
    let xs = v.as_list()?;
    let kind = xs.first()?.as_atom()?;
    let arcs: Vec<(usize, usize)> = match kind {
        "k" if xs.len() == 8 => {
            let n = xs[2].as_usize()?;
            let (a, b, m, t) = (xs[3].as_usize()?, xs[4].as_usize()?, xs[5].as_usize()?, xs[6].as_usize()?);
            if m == 0 || n > 4096 || a > 1 << 20 || b > 1 << 20 {
                return None;
            }
            let rm: std::collections::BTreeSet<(usize, usize)> = xs[7].as_pairs()?.into_iter().collect();
            (0..n)
                .flat_map(|u| (0..n).map(move |v| (u, v)))
                .filter(|&(u, v)| u != v && (u * a + v * b) % m < t && !rm.contains(&(u, v)))
                .collect()
        }
        "b" if xs.len() == 4 => {
            let n = xs[2].as_usize()?;
            let h = xs[3].as_usize()?;
            if h >= n || n > 200_000 {
                return None;
            }
            let mut arcs = vec![];
            if h != 0 {
                arcs.push((0, h));
            }
            arcs.extend((0..n).filter(|&v| v != 0 && v != h).map(|v| (h, v)));
            arcs
        }
        _ => return None,
    };
    let repr = xs[1].as_atom()?.to_string();
    if !graphs::ALL_REPRS.contains(&repr.as_str()) {
        return None;
    }
    let n = xs[2].as_usize()?;
    let k = arcs.len();
    Some(Desc { repr, verts: (0..n).collect(), arcs, weights: vec![1; k] })
}

const OPS: [&str; 3] = ["dfs_iter", "dfs_dist", "dfs_pred"];

const SHAPES: [&str; 5] = ["vec", "filter", "flatten", "takewhile", "mapwhile"];

/// One input, all three iterators (sources passed as shape number `shape`), optionally re-polled.
fn show_all(desc: &Desc, sources: &[usize], fam: &str, shape: usize, repoll: bool, emit: &mut dyn FnMut(String)) {
    for op in OPS {
        let line = show(op, desc, sources, fam);
        emit(if shape == 0 { line } else { format!("{line} {}", SHAPES[shape % SHAPES.len()]) });
    }
    if repoll {
        emit(show("dfs_repoll", desc, sources, fam));
    }
}

fn show(op: &str, desc: &Desc, sources: &[usize], fam: &str) -> String {
    // `group:name`; the driver tags the group only (the name is for people reading a replay)
    let group = match fam {
        "exhaustive" => "exhaustive",
        "path-chords" | "out-tree" | "tree-cross" | "fan-chain" => "own",
        _ => "shared",
    };
    format!("{op} {} {} {group}:{fam}", desc.to_v(), V::us(sources.iter().copied()))
}

fn mk(repr: &str, n: usize, arcs: Vec<(usize, usize)>, rng: &mut Rng) -> Desc {
    let k = arcs.len();
    let weights = if repr == "wi" {
        (0..k).map(|_| i128::from(rng.range(-5, 9))).collect()
    } else if repr == "wu" {
        (0..k).map(|_| i128::from(rng.range(0, 9))).collect()
    } else {
        vec![1; k]
    };
    Desc { repr: repr.to_string(), verts: (0..n).collect(), arcs, weights }
}

const REPRS: [&str; 6] = ["al", "am", "mx", "el", "wu", "wi"];

/// Own families: shapes on which a vertex is pushed by several vertices of the search path,
/// so that stale entries lie at different depths of the stack.
fn own_family(rng: &mut Rng, n: usize) -> (&'static str, Vec<(usize, usize)>) {
    let mut set = std::collections::BTreeSet::new();
    match rng.below(4) {
        0 => {
            // a path 0 -> 1 -> ... with random chords: forward chords create stale entries,
            // backward chords are harmless
            for u in 0..n.saturating_sub(1) {
                let _ = set.insert((u, u + 1));
            }
            for _ in 0..n {
                let (u, v) = (rng.below(n), rng.below(n));
                if u != v {
                    let _ = set.insert((u, v));
                }
            }
            ("path-chords", set.into_iter().collect())
        }
        1 => {
            // out-tree (every vertex has one parent with a smaller id): never a stale entry
            for v in 1..n {
                let _ = set.insert((rng.below(v), v));
            }
            ("out-tree", set.into_iter().collect())
        }
        2 => {
            // out-tree plus a few cross arcs
            for v in 1..n {
                let _ = set.insert((rng.below(v), v));
            }
            for _ in 0..(1 + n / 4) {
                let (u, v) = (rng.below(n), rng.below(n));
                if u != v {
                    let _ = set.insert((u, v));
                }
            }
            ("tree-cross", set.into_iter().collect())
        }
        _ => {
            // fan: hub 0 -> everybody, plus a chain among the leaves in DEscending order; the
            // search goes 0, n-1, n-2, … and leaves one stale entry per leaf below
            for v in 1..n {
                let _ = set.insert((0, v));
            }
            for v in 2..n {
                if rng.chance(2, 3) {
                    let _ = set.insert((v, v - 1));
                }
            }
            ("fan-chain", set.into_iter().collect())
        }
    }
}

/// Out-of-distribution stream (round 2): stacks above 65 536 entries need a dense digraph of order
/// >= 363 (complete: n(n-1)/2 pushes) or a vertex with more than 65 536 out-neighbours. Compact
/// descriptions; cheapest representations (`al`, `wu`; one `mx`/`el`/`am` each on the smallest).
fn gen_stress(rng: &mut Rng, emit: &mut dyn FnMut(String)) {
    let mut line = |desc: String, src: &[usize], fam: &str, emit: &mut dyn FnMut(String)| {
        for op in OPS {
            emit(format!("{op} {desc} {} stress:{fam}", V::us(src.iter().copied())));
        }
    };
    // complete digraphs around the thresholds 363 (n(n-1)/2 > 65 536) and 512
    for (repr, n) in [("al", 512usize), ("wu", 364), ("al", 363), ("mx", 400), ("el", 370), ("am", 380)] {
        line(format!("[k {repr} {n} 0 0 1 1 []]"), &[0], "complete", emit);
    }
    line("[k al 520 0 0 1 1 []]".to_string(), &[519, 3, 100], "complete", emit);
    emit("dfs_pred [k wu 390 0 0 1 1 []] [7 0] stress:complete takewhile".to_string());
    emit("dfs_dist [k al 390 0 0 1 1 []] [7 0] stress:complete flatten".to_string());
    emit("dfs_repoll [k al 370 0 0 1 1 [[5 6]]] [0] stress:complete-minus".to_string());
    // complete minus a few arcs
    for _ in 0..2 {
        let n = 380 + rng.below(140);
        let rm: Vec<(usize, usize)> = (0..1 + rng.below(4))
            .map(|_| (rng.below(n), rng.below(n)))
            .filter(|&(u, v)| u != v)
            .collect();
        let s = rng.below(n);
        line(format!("[k al {n} 0 0 1 1 {}]", V::pairs(rm)), &[s], "complete-minus", emit);
    }
    // dense pseudo-random: (u·a + v·b) mod m < t with t/m >= 0.9
    for i in 0..4 {
        let n = 430 + rng.below(91);
        let m = 9 + rng.below(30);
        let t = m - 1 - rng.below(1 + m / 12);
        let (a, b) = (1 + rng.below(50), 1 + rng.below(50));
        let repr = if i % 2 == 0 { "al" } else { "wu" };
        let mut src = graphs::gen_sources(rng, n);
        if src.is_empty() {
            src.push(rng.below(n));
        }
        line(format!("[k {repr} {n} {a} {b} {m} {t} []]"), &src, "dense-mod", emit);
    }
    // broom: one vertex with 70 000 out-neighbours (a tree: no stale entry can occur)
    line("[b al 70001 2]".to_string(), &[0], "broom", emit);
}

pub fn gen(rng: &mut Rng, thorough: bool, emit: &mut dyn FnMut(String)) {
    if crate::stress() {
        // the search wants the most promising cases first and has a small budget: only these
        gen_stress(rng, emit);
        return;
    }
    // (1) exhaustive small scope: every digraph on <= 4 vertices x every subset of sources
    //     (incl. the empty one) in ascending, descending and one rotated order, representation
    //     rotating. Quick tier: only a sample of the 4-vertex cases.
    let mut rot = 0usize;
    let max_small = 4;
    for n in 1usize..=max_small {
        let pairs: Vec<(usize, usize)> =
            (0..n).flat_map(|u| (0..n).filter(move |&v| v != u).map(move |v| (u, v))).collect();
        for code in 0u32..(1u32 << pairs.len()) {
            let arcs: Vec<(usize, usize)> =
                pairs.iter().enumerate().filter(|(i, _)| code >> i & 1 == 1).map(|(_, &a)| a).collect();
            for sm in 0u32..(1u32 << n) {
                let mut src: Vec<usize> = (0..n).filter(|s| sm >> s & 1 == 1).collect();
                // sources ascending, descending, and (for >= 3) one rotation
                let mut variants = vec![src.clone()];
                if src.len() >= 2 {
                    src.reverse();
                    variants.push(src.clone());
                }
                if src.len() >= 3 {
                    src.rotate_left(1);
                    variants.push(src.clone());
                }
                for s in variants {
                    // on 4 vertices all 4096 x 32 source lists are ~131k cases: thorough runs
                    // them all, quick a 1/20 sample
                    if n == 4 && !thorough && !rng.chance(1, 20) {
                        continue;
                    }
                    let repr = REPRS[rot % REPRS.len()];
                    rot += 1;
                    let d = mk(repr, n, arcs.clone(), rng);
                    show_all(&d, &s, "exhaustive", if rot % 4 == 0 { rot / 4 } else { 0 }, rot % 3 == 0, emit);
                }
            }
        }
    }
    // (2) random: shared families + own families, all representations
    let n_random = if thorough { 30_000 } else { 4_500 };
    for i in 0..n_random {
        let repr = REPRS[i % REPRS.len()];
        let n = graphs::gen_order(rng, 130);
        let (fam, arcs) = if rng.chance(1, 3) { own_family(rng, n) } else { graphs::gen_arcs(rng, n) };
        let mut arcs = arcs;
        rng.shuffle(&mut arcs);
        let d = mk(repr, n, arcs, rng);
        let s = graphs::gen_sources(rng, n);
        show_all(&d, &s, fam, if i % 3 == 0 { i / 3 } else { 0 }, i % 2 == 0, emit);
        // same digraph, another representation and all-vertices-as-sources now and then
        if rng.chance(1, 8) {
            let d2 = d.with_repr(REPRS[(i + 1 + rng.below(5)) % REPRS.len()]);
            let d2 = mk(&d2.repr, n, d2.arcs.clone(), rng);
            let mut all: Vec<usize> = (0..n).collect();
            rng.shuffle(&mut all);
            all.truncate(1 + rng.below(n.min(6)));
            show_all(&d2, &all, fam, 1 + i, false, emit);
        }
    }
}
