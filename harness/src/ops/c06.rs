//! C06 — `Dfs`, `DfsDist`, `DfsPred`, `DfsPred::predecessors` on the real code.
//!
//!   dfs_iter <desc> <sources> [family]  =>  <Dfs items>
//!   dfs_dist <desc> <sources> [family]  =>  <DfsDist items>                    `[v depth]`
//!   dfs_pred <desc> <sources> [family]  =>  <DfsPred items> <predecessors()>   `[pred v]`, `none | id`
//!
//! Each output is a list, or the atom `panic` when that call panicked. Items are printed exactly
//! as yielded. The optional third argument only labels the generator family (it ends up in the
//! evidence histogram); the real code never sees it.
#![allow(clippy::all)]

use crate::graphs::{self, Desc};
use crate::rng::Rng;
use crate::value::V;
use crate::with_digraph;
use graaf::{Dfs, DfsDist, DfsPred};
use std::panic::{catch_unwind, AssertUnwindSafe};

fn guarded(f: impl FnOnce() -> V) -> V {
    catch_unwind(AssertUnwindSafe(f)).unwrap_or_else(|_| V::atom("panic"))
}

pub fn eval(op: &str, args: &[V]) -> Option<Vec<V>> {
    if !matches!(op, "dfs_iter" | "dfs_dist" | "dfs_pred") {
        return None;
    }
    if args.len() != 2 && args.len() != 3 {
        return None;
    }
    let desc = Desc::parse(&args[0])?;
    let sources = args[1].as_usizes()?;
    Some(with_digraph!(&desc, d => {
        match op {
            "dfs_iter" => vec![guarded(|| {
                V::us(Dfs::new(&d, sources.iter().copied()).collect::<Vec<_>>())
            })],
            "dfs_dist" => vec![guarded(|| {
                V::pairs(DfsDist::new(&d, sources.iter().copied()).collect::<Vec<_>>())
            })],
            _ => {
                let items = guarded(|| {
                    let mut items = vec![];
                    for (p, v) in DfsPred::new(&d, sources.iter().copied()) {
                        items.push(V::L(vec![V::opt_u(p), V::u(v)]));
                    }
                    V::L(items)
                });
                let tree = guarded(|| {
                    let tree = DfsPred::new(&d, sources.iter().copied()).predecessors();
                    V::L(tree.into_iter().map(V::opt_u).collect())
                });
                vec![items, tree]
            }
        }
    }))
}

const OPS: [&str; 3] = ["dfs_iter", "dfs_dist", "dfs_pred"];

/// One input, all three iterators.
fn show_all(desc: &Desc, sources: &[usize], fam: &str, emit: &mut dyn FnMut(String)) {
    for op in OPS {
        emit(show(op, desc, sources, fam));
    }
}

fn show(op: &str, desc: &Desc, sources: &[usize], fam: &str) -> String {
    // `group:name`; the driver tags the group only (the name is for people reading a replay)
    let group = match fam {
        "exhaustive" => "exhaustive",
        "path-chords" | "out-tree" | "tree-cross" | "fan-chain" => "own",
        _ => "shared",
    };
    format!("{op} {} {} {group}:{fam}", desc.to_v(), V::us(sources.iter().copied()))
}

fn mk(repr: &str, n: usize, arcs: Vec<(usize, usize)>, rng: &mut Rng) -> Desc {
    let k = arcs.len();
    let weights = if repr == "wi" {
        (0..k).map(|_| i128::from(rng.range(-5, 9))).collect()
    } else if repr == "wu" {
        (0..k).map(|_| i128::from(rng.range(0, 9))).collect()
    } else {
        vec![1; k]
    };
    Desc { repr: repr.to_string(), verts: (0..n).collect(), arcs, weights }
}

const REPRS: [&str; 6] = ["al", "am", "mx", "el", "wu", "wi"];

/// Own families: shapes on which a vertex is pushed by several vertices of the search path,
/// so that stale entries lie at different depths of the stack.
fn own_family(rng: &mut Rng, n: usize) -> (&'static str, Vec<(usize, usize)>) {
    let mut set = std::collections::BTreeSet::new();
    match rng.below(4) {
        0 => {
            // a path 0 -> 1 -> ... with random chords: forward chords create stale entries,
            // backward chords are harmless
            for u in 0..n.saturating_sub(1) {
                let _ = set.insert((u, u + 1));
            }
            for _ in 0..n {
                let (u, v) = (rng.below(n), rng.below(n));
                if u != v {
                    let _ = set.insert((u, v));
                }
            }
            ("path-chords", set.into_iter().collect())
        }
        1 => {
            // out-tree (every vertex has one parent with a smaller id): never a stale entry
            for v in 1..n {
                let _ = set.insert((rng.below(v), v));
            }
            ("out-tree", set.into_iter().collect())
        }
        2 => {
            // out-tree plus a few cross arcs
            for v in 1..n {
                let _ = set.insert((rng.below(v), v));
            }
            for _ in 0..(1 + n / 4) {
                let (u, v) = (rng.below(n), rng.below(n));
                if u != v {
                    let _ = set.insert((u, v));
                }
            }
            ("tree-cross", set.into_iter().collect())
        }
        _ => {
            // fan: hub 0 -> everybody, plus a chain among the leaves in DEscending order; the
            // search goes 0, n-1, n-2, … and leaves one stale entry per leaf below
            for v in 1..n {
                let _ = set.insert((0, v));
            }
            for v in 2..n {
                if rng.chance(2, 3) {
                    let _ = set.insert((v, v - 1));
                }
            }
            ("fan-chain", set.into_iter().collect())
        }
    }
}

pub fn gen(rng: &mut Rng, thorough: bool, emit: &mut dyn FnMut(String)) {
    // (1) exhaustive small scope: every digraph on <= 4 vertices x every subset of sources
    //     (incl. the empty one) in ascending, descending and one rotated order, representation
    //     rotating. Quick tier: only a sample of the 4-vertex cases.
    let mut rot = 0usize;
    let max_small = 4;
    for n in 1usize..=max_small {
        let pairs: Vec<(usize, usize)> =
            (0..n).flat_map(|u| (0..n).filter(move |&v| v != u).map(move |v| (u, v))).collect();
        for code in 0u32..(1u32 << pairs.len()) {
            let arcs: Vec<(usize, usize)> =
                pairs.iter().enumerate().filter(|(i, _)| code >> i & 1 == 1).map(|(_, &a)| a).collect();
            for sm in 0u32..(1u32 << n) {
                let mut src: Vec<usize> = (0..n).filter(|s| sm >> s & 1 == 1).collect();
                // sources ascending, descending, and (for >= 3) one rotation
                let mut variants = vec![src.clone()];
                if src.len() >= 2 {
                    src.reverse();
                    variants.push(src.clone());
                }
                if src.len() >= 3 {
                    src.rotate_left(1);
                    variants.push(src.clone());
                }
                for s in variants {
                    // on 4 vertices all 4096 x 32 source lists are ~131k cases: thorough runs
                    // them all, quick a 1/20 sample
                    if n == 4 && !thorough && !rng.chance(1, 20) {
                        continue;
                    }
                    let repr = REPRS[rot % REPRS.len()];
                    rot += 1;
                    let d = mk(repr, n, arcs.clone(), rng);
                    show_all(&d, &s, "exhaustive", emit);
                }
            }
        }
    }
    // (2) random: shared families + own families, all representations
    let n_random = if thorough { 30_000 } else { 4_500 };
    for i in 0..n_random {
        let repr = REPRS[i % REPRS.len()];
        let n = graphs::gen_order(rng, 130);
        let (fam, arcs) = if rng.chance(1, 3) { own_family(rng, n) } else { graphs::gen_arcs(rng, n) };
        let mut arcs = arcs;
        rng.shuffle(&mut arcs);
        let d = mk(repr, n, arcs, rng);
        let s = graphs::gen_sources(rng, n);
        show_all(&d, &s, fam, emit);
        // same digraph, another representation and all-vertices-as-sources now and then
        if rng.chance(1, 8) {
            let d2 = d.with_repr(REPRS[(i + 1 + rng.below(5)) % REPRS.len()]);
            let d2 = mk(&d2.repr, n, d2.arcs.clone(), rng);
            let mut all: Vec<usize> = (0..n).collect();
            rng.shuffle(&mut all);
            all.truncate(1 + rng.below(n.min(6)));
            show_all(&d2, &all, fam, emit);
        }
    }
}
