//! C07 — `BellmanFordMoore::new(..).distances()` on the real code.
//!
//!   bfm_dist [wi n warcs] s   =>  (panic | none | [d…])  (- | [dijkstra d…])
//!
//!   bfm_dist_repeat [wi n warcs] s k   =>  panic | [r1 … rk]     (k calls of `distances()` on the SAME object)
//!
//! `d` entries: integers, `inf` for `isize::MAX` (BFM) / `usize::MAX` (Dijkstra).  The second
//! output is the real `DijkstraDist::distances` on the same arcs (as an
//! `AdjacencyListWeighted<usize>`), only when every weight is non-negative and `s` is in range.
#![allow(clippy::all)]

use crate::graphs::{self, Desc};
use crate::rng::Rng;
use crate::value::V;
use graaf::{AddArcWeighted, AdjacencyListWeighted, ArcsWeighted, BellmanFordMoore, DijkstraDist, Empty};
use std::collections::{BTreeMap, BTreeSet};
use std::panic::{catch_unwind, AssertUnwindSafe};

fn inf() -> V {
    V::atom("inf")
}

pub fn eval(op: &str, args: &[V]) -> Option<Vec<V>> {
    match op {
        "bfm_dist" => {
            let [gd, s] = args else { return None };
            let desc = Desc::parse(gd)?;
            if desc.repr != "wi" {
                return None;
            }
            let s = s.as_usize()?;
            let n = desc.order();
            // a description the real structure rejects is not a case of this property
            if n == 0 || desc.arcs.iter().any(|&(u, v)| u >= n || v >= n || u == v) {
                return None;
            }
            let digraph = desc.build_wi();
            let res = catch_unwind(AssertUnwindSafe(|| {
                let mut bfm = BellmanFordMoore::new(&digraph, s);
                bfm.distances().map(<[isize]>::to_vec)
            }));
            let out = match res {
                Err(_) => V::atom("panic"),
                Ok(None) => V::none(),
                Ok(Some(d)) => V::L(d.iter().map(|&x| if x == isize::MAX { inf() } else { V::i(x) }).collect()),
            };
            // the FINAL weights count (a repeated arc in the description replaces the weight)
            let finals: Vec<(usize, usize, isize)> = digraph.arcs_weighted().map(|(u, v, &w)| (u, v, w)).collect();
            let nonneg = finals.iter().all(|a| a.2 >= 0);
            let dij = if nonneg && s < desc.order() {
                let mut du = AdjacencyListWeighted::<usize>::empty(desc.order());
                for &(u, v, w) in &finals {
                    du.add_arc_weighted(u, v, w as usize);
                }
                let r = catch_unwind(AssertUnwindSafe(|| DijkstraDist::new(&du, std::iter::once(s)).distances()));
                match r {
                    Err(_) => V::atom("panic"),
                    Ok(d) => V::L(d.iter().map(|&x| if x == usize::MAX { inf() } else { V::u(x) }).collect()),
                }
            } else {
                V::atom("-")
            };
            Some(vec![out, dij])
        }
        "bfm_dist_repeat" => {
            let [gd, s, k] = args else { return None };
            let desc = Desc::parse(gd)?;
            if desc.repr != "wi" {
                return None;
            }
            let s = s.as_usize()?;
            let k = k.as_usize()?;
            let n = desc.order();
            if n == 0 || k > 8 || desc.arcs.iter().any(|&(u, v)| u >= n || v >= n || u == v) {
                return None;
            }
            let digraph = desc.build_wi();
            let res = catch_unwind(AssertUnwindSafe(|| {
                let mut bfm = BellmanFordMoore::new(&digraph, s);
                let mut outs: Vec<V> = Vec::with_capacity(k);
                for _ in 0..k {
                    outs.push(match bfm.distances() {
                        None => V::none(),
                        Some(d) => V::L(d.iter().map(|&x| if x == isize::MAX { inf() } else { V::i(x) }).collect()),
                    });
                }
                outs
            }));
            Some(vec![match res {
                Err(_) => V::atom("panic"),
                Ok(outs) => V::L(outs),
            }])
        }
        _ => None,
    }
}

// ---------------------------------------------------------------------------------------
// generator
// ---------------------------------------------------------------------------------------

type WArcs = BTreeMap<(usize, usize), i64>;

fn line(n: usize, arcs: &[((usize, usize), i64)], s: usize) -> String {
    let d = Desc {
        repr: "wi".to_string(),
        verts: (0..n).collect(),
        arcs: arcs.iter().map(|a| a.0).collect(),
        weights: arcs.iter().map(|a| i128::from(a.1)).collect(),
    };
    format!("bfm_dist {} {s}", d.to_v())
}

/// Insertion order is part of the description (rows are maps: the real structure sorts).
fn shuffled(rng: &mut Rng, m: &WArcs) -> Vec<((usize, usize), i64)> {
    let mut v: Vec<((usize, usize), i64)> = m.iter().map(|(k, w)| (*k, *w)).collect();
    rng.shuffle(&mut v);
    v
}

fn emit_sources(rng: &mut Rng, n: usize, arcs: &WArcs, pref: Option<usize>, emit: &mut dyn FnMut(String)) {
    let a = shuffled(rng, arcs);
    if n <= 5 {
        for s in 0..n {
            emit(line(n, &a, s));
        }
    } else {
        let mut ss: BTreeSet<usize> = BTreeSet::new();
        if let Some(p) = pref {
            let _ = ss.insert(p);
        }
        while ss.len() < 3.min(n) {
            let _ = ss.insert(rng.below(n));
        }
        for s in ss {
            emit(line(n, &a, s));
        }
    }
}

fn order(rng: &mut Rng) -> usize {
    match rng.below(10) {
        0 => 1,
        1..=5 => 2 + rng.below(7),
        _ => 9 + rng.below(32),
    }
}

/// Arc set without negative circuits but with negative weights: `w = p(v) - p(u) + c`, `c >= 0`
/// (reduced costs non-negative), weights within -4..9.
fn potential_graph(rng: &mut Rng, n: usize, dens: (u64, u64)) -> WArcs {
    let p: Vec<i64> = (0..n).map(|_| rng.range(0, 4)).collect();
    let mut m = WArcs::new();
    for u in 0..n {
        for v in 0..n {
            if u != v && rng.chance(dens.0, dens.1) {
                let _ = m.insert((u, v), p[v] - p[u] + rng.range(0, 5));
            }
        }
    }
    m
}

/// Quick tier: the driver's list-based model and oracle cost ~ n^2 * m per case, so orders above 24
/// come only with sparse arc sets there (thorough / stress: everything up to order 40).
static QUICK: std::sync::atomic::AtomicBool = std::sync::atomic::AtomicBool::new(false);
fn quick() -> bool {
    QUICK.load(std::sync::atomic::Ordering::Relaxed)
}

fn density(rng: &mut Rng, n: usize) -> (u64, u64) {
    if quick() && n > 24 {
        return *rng.pick(&[(1, n as u64), (2, n as u64), (1, 10)]);
    }
    *rng.pick(&[(1, n.max(1) as u64), (2, n.max(1) as u64), (1, 10), (3, 10), (6, 10), (1, 1)])
}

/// Put a circuit of negative total weight on `cyc` (distinct vertices, len >= 2).
fn plant_cycle(rng: &mut Rng, m: &mut WArcs, cyc: &[usize]) {
    let k = cyc.len();
    let mut ws: Vec<i64> = (0..k).map(|_| rng.range(-4, 3)).collect();
    // force the sum below zero, staying inside -4..9
    let mut i = 0;
    while ws.iter().sum::<i64>() >= 0 {
        if ws[i % k] > -4 {
            ws[i % k] -= 1;
        }
        i += 1;
    }
    for j in 0..k {
        let _ = m.insert((cyc[j], cyc[(j + 1) % k]), ws[j]);
    }
}

fn distinct(rng: &mut Rng, pool: &[usize], k: usize) -> Vec<usize> {
    let mut p = pool.to_vec();
    rng.shuffle(&mut p);
    p.truncate(k);
    p
}

fn random_case(rng: &mut Rng, emit: &mut dyn FnMut(String)) {
    let n = order(rng);
    match rng.below(10) {
        // no negative circuit, negative weights present (early exit and full rounds both occur)
        0 | 1 => {
            let dens = density(rng, n);
            let m = potential_graph(rng, n, dens);
            emit_sources(rng, n, &m, None, emit);
        }
        // a path against the arc order (tails descending): every one of the order-1 rounds updates
        8 if n >= 3 => {
            let n = n.min(16);
            let mut m = potential_graph(rng, n, (1, 2 * n as u64));
            let p: Vec<i64> = (0..n).map(|_| rng.range(0, 4)).collect();
            // keep only arcs that go "down" so that the chain stays the only way to the low ids
            m.retain(|&(u, v), _| u > v);
            for i in 0..n - 1 {
                let _ = m.insert((i + 1, i), p[i] - p[i + 1] + rng.range(0, 1) - 2);
            }
            for w in m.values_mut() {
                *w = (*w).clamp(-4, 9);
            }
            emit_sources(rng, n, &m, Some(n - 1), emit);
        }
        // non-negative weights: Dijkstra comparison
        2 | 3 => {
            let (_, d) = graphs::gen_wdesc(rng, "wi", if quick() { 24 } else { 40 }, 0, 9);
            let n = d.order();
            let m: WArcs = d.arcs.iter().zip(&d.weights).map(|(&a, &w)| (a, w as i64)).collect();
            emit_sources(rng, n, &m, None, emit);
        }
        // negative circuit reachable from the preferred source
        4 | 5 if n >= 2 => {
            let dens = density(rng, n);
            let mut m = potential_graph(rng, n, dens);
            let all: Vec<usize> = (0..n).collect();
            let k = 2 + rng.below((n - 1).min(4));
            let cyc = distinct(rng, &all, k.min(n));
            plant_cycle(rng, &mut m, &cyc);
            let s = rng.below(n);
            // a path from s into the circuit
            if !cyc.contains(&s) {
                let mid = rng.below(n);
                if mid != s && !cyc.contains(&mid) && rng.chance(1, 2) {
                    let _ = m.insert((s, mid), rng.range(-4, 9));
                    let _ = m.insert((mid, cyc[0]), rng.range(-4, 9));
                } else {
                    let _ = m.insert((s, cyc[0]), rng.range(-4, 9));
                }
            }
            emit_sources(rng, n, &m, Some(s), emit);
        }
        // negative circuit that the preferred source cannot reach: no arc from A to B
        6 | 7 if n >= 3 => {
            let kb = 2 + rng.below((n - 2).min(4));
            let all: Vec<usize> = (0..n).collect();
            let b: Vec<usize> = distinct(rng, &all, kb);
            let a: Vec<usize> = all.iter().copied().filter(|x| !b.contains(x)).collect();
            let dens = density(rng, n);
            let mut m = potential_graph(rng, n, dens);
            m.retain(|&(u, v), _| !(a.contains(&u) && b.contains(&v)));
            let k = 2 + rng.below(b.len() - 1);
            let cyc = distinct(rng, &b, k);
            plant_cycle(rng, &mut m, &cyc);
            let s = *rng.pick(&a);
            emit_sources(rng, n, &m, Some(s), emit);
        }
        // plain random weights -4..9 on the shared families (sparse ones often circuit-free)
        _ => {
            let (_, d) = graphs::gen_wdesc(rng, "wi", if quick() { 24 } else { 40 }, -4, 9);
            let n = d.order();
            let m: WArcs = d.arcs.iter().zip(&d.weights).map(|(&a, &w)| (a, w as i64)).collect();
            emit_sources(rng, n, &m, None, emit);
        }
    }
}

/// Exactly `m` arcs on `n` vertices (n*(n-1) >= m), weights from `-4..9` or a potential.
fn exact_count_case(rng: &mut Rng, n: usize, m_arcs: usize, emit: &mut dyn FnMut(String)) {
    let mut pairs: Vec<(usize, usize)> = (0..n).flat_map(|u| (0..n).filter(move |&v| v != u).map(move |v| (u, v))).collect();
    rng.shuffle(&mut pairs);
    pairs.truncate(m_arcs);
    let p: Vec<i64> = (0..n).map(|_| rng.range(0, 4)).collect();
    let mode = rng.below(3);
    let m: WArcs = pairs
        .into_iter()
        .map(|(u, v)| {
            let w = match mode {
                0 => p[v] - p[u] + rng.range(0, 5),
                1 => rng.range(0, 9),
                _ => rng.range(-4, 9),
            };
            ((u, v), w)
        })
        .collect();
    let a = shuffled(rng, &m);
    for s in 0..n {
        emit(line(n, &a, s));
    }
}

const MAXI: i128 = isize::MAX as i128;
const MINI: i128 = isize::MIN as i128;

/// For an ACYCLIC arc set: every sum `dist_u + w` the real code can form (a path weight from any
/// start, extended by one arc) stays strictly inside `isize` and below the sentinel.
fn dag_fits(n: usize, arcs: &WArcs) -> bool {
    let mut hi = vec![0i128; n];
    let mut lo = vec![0i128; n];
    for _ in 0..=n {
        for (&(u, v), &w) in arcs {
            let w = i128::from(w);
            hi[v] = hi[v].max(hi[u] + w);
            lo[v] = lo[v].min(lo[u] + w);
        }
    }
    arcs.iter().all(|(&(u, _), &w)| hi[u] + i128::from(w) < MAXI - 1 && lo[u] + i128::from(w) > MINI + 1)
}

/// Large weights whose path sums fit in `isize` (DAGs, so every tentative distance is a path weight):
/// a vertex at distance >= isize::MAX/2 that still has out-arcs, sums next to isize::MAX, huge negative
/// weights, huge weights that cancel.
fn large_case(rng: &mut Rng, emit: &mut dyn FnMut(String)) {
    let half: i64 = i64::MAX >> 1; // isize::MAX / 2
    let n = 2 + rng.below(7);
    let down = rng.chance(1, 3); // path n-1 -> … -> 0: one more round per hop
    let vert = |i: usize| if down { n - 1 - i } else { i };
    let mut m = WArcs::new();
    let small = |rng: &mut Rng| rng.range(-4, 9);
    match rng.below(6) {
        // haul: one arc of about MAX/2 (or more), the rest small
        0 | 1 | 2 => {
            let j = if rng.chance(2, 3) { 0 } else { rng.below(n - 1) };
            let h = match rng.below(6) {
                0 => half,
                1 => half + 1,
                2 => half + 1000,
                3 => half + (1i64 << 61),
                4 => i64::MAX - (1i64 << 20),
                _ => half - 1 - rng.range(0, 5),
            };
            for i in 0..n - 1 {
                let _ = m.insert((vert(i), vert(i + 1)), if i == j { h } else { small(rng) });
            }
        }
        // quarters: four arcs of nearly 2^61 each
        3 => {
            for i in 0..(n - 1).min(4) {
                let _ = m.insert((vert(i), vert(i + 1)), (1i64 << 61) - 1 - rng.range(0, 1_000_000));
            }
            for i in 4..n - 1 {
                let _ = m.insert((vert(i), vert(i + 1)), rng.range(-4, 0));
            }
        }
        // huge negative weights
        4 => {
            for i in 0..n - 1 {
                let w = if i < 3 { -(1i64 << 61) + rng.range(0, 1_000_000) } else { small(rng) };
                let _ = m.insert((vert(i), vert(i + 1)), w);
            }
        }
        // huge weights that cancel
        _ => {
            for i in 0..n - 1 {
                let w = match i % 3 {
                    0 => (1i64 << 62) + rng.range(0, 1000),
                    1 => -(1i64 << 62) + rng.range(0, 1000),
                    _ => small(rng),
                };
                let _ = m.insert((vert(i), vert(i + 1)), w);
            }
        }
    }
    // a few extra arcs in path direction (keeps the digraph acyclic): shortcuts and detours
    for _ in 0..rng.below(4) {
        let a = rng.below(n);
        let b = rng.below(n);
        if a < b && !m.contains_key(&(vert(a), vert(b))) {
            let w = if rng.chance(1, 4) { (1i64 << 50) + rng.range(0, 1 << 20) } else { rng.range(0, 9) };
            let _ = m.insert((vert(a), vert(b)), w);
        }
    }
    if !dag_fits(n, &m) {
        return;
    }
    emit_sources(rng, n, &m, Some(vert(0)), emit);
}

/// "Funnel": an ACYCLIC digraph in which ONE vertex is improved as often as possible by the in-place sweep
/// (arcs are swept by tail, then head): the sink gets an in-arc from every other vertex with strictly
/// decreasing candidate distances in sweep order (order - 1 improvements in round 1), and descending arcs
/// (tail id > head id) lower an early funnel vertex after its arc to the sink was swept, so the sink improves
/// again in round 2, 3, …  Exact answer: plain DAG distances; no circuit at all, so `None` is always wrong.
/// (Round 7: an "improved `order` times ⇒ negative circuit" early exit counted per relaxation, not per round.)
fn funnel_case(rng: &mut Rng, emit: &mut dyn FnMut(String)) {
    let n = 4 + rng.below(if quick() { 9 } else { 20 });
    let t = if rng.chance(3, 4) { n - 1 } else { 1 + rng.below(n - 1) }; // the sink
    let top: i64 = 1_000 + rng.range(0, 1_000);
    let step: i64 = 5 + rng.range(0, 10);
    let mids: Vec<usize> = (1..n).filter(|&i| i != t).collect();
    let mut m = WArcs::new();
    let mut a_of = vec![0i64; n];
    let _ = m.insert((0, t), top + rng.range(1, 50));
    for (k, &i) in mids.iter().enumerate() {
        let a = rng.range(1, 30);
        a_of[i] = a;
        let _ = m.insert((0, i), a);
        // a_i + b_i = top - step * k: strictly decreasing in sweep order
        let _ = m.insert((i, t), top - step * (k as i64) - a);
    }
    // descending arcs j -> i (j > i, both funnel vertices): dist(i) drops by delta AFTER (i, t) was swept
    let floor = top - step * (mids.len() as i64 - 1);
    let rounds = 1 + rng.below(3);
    let mut last_best = floor;
    for _ in 0..rounds {
        if mids.len() < 2 {
            break;
        }
        let ii = rng.below(mids.len() - 1);
        let jj = ii + 1 + rng.below(mids.len() - 1 - ii);
        let (i, j) = (mids[ii], mids[jj]);
        if m.contains_key(&(j, i)) {
            continue;
        }
        // new dist(i) = a_j + c; new candidate for t = a_j + c + b_i, must undercut the best so far
        let b_i = m[&(i, t)];
        let want = last_best - 1 - rng.range(0, 7); // candidate for the sink
        let c = want - b_i - a_of[j];
        let _ = m.insert((j, i), c);
        if rng.chance(3, 4) {
            last_best = want;
        }
    }
    // the descending arcs only go from larger to smaller funnel ids, everything else is 0 -> x or x -> t: acyclic
    if !dag_fits(n, &m) {
        return;
    }
    let a = shuffled(rng, &m);
    emit(line(n, &a, 0));
    if rng.chance(1, 3) {
        emit(line(n, &a, mids[rng.below(mids.len())]));
    }
}

/// The structured families of `random_case` with every weight multiplied by a large factor
/// (circuits, negative circuits, early exits … at 2^31 … 2^49 magnitude).  Every value the code
/// can form is the weight of a walk with at most 3·(n-1)·m arcs (three calls), far inside isize.
fn scaled_case(rng: &mut Rng, emit: &mut dyn FnMut(String)) {
    let mut lines: Vec<String> = vec![];
    random_case(rng, &mut |l| lines.push(l));
    for l in lines {
        let Some(vs) = crate::value::parse_line(&l) else { continue };
        let Some(mut d) = vs.get(1).and_then(Desc::parse) else { continue };
        let n = d.order() as i128;
        let m = d.arcs.len() as i128;
        let factors: [i128; 3] = [(1 << 31) + 1, 1 << 40, (1 << 45) + 12_345];
        let k = *rng.pick(&factors);
        // |value| <= steps * 9 * k with steps <= 3 (n-1) m
        if 3 * n * m.max(1) * 9 * k >= (1i128 << 62) {
            continue;
        }
        for w in &mut d.weights {
            *w *= k;
        }
        emit(format!("bfm_dist {} {}", d.to_v(), vs[2]));
    }
}

pub fn gen(rng: &mut Rng, thorough: bool, emit0: &mut dyn FnMut(String)) {
    let stress = crate::stress();
    QUICK.store(!thorough || stress, std::sync::atomic::Ordering::Relaxed);
    // every 4th `bfm_dist` line is followed by the same input with 2 or 3 calls on the same object
    let mut rep_rng = rng.fork();
    let mut emit_fn = |l: String| {
        let rep = if rep_rng.chance(if stress { 1 } else { 1 }, if stress { 2 } else { 4 }) {
            l.strip_prefix("bfm_dist ").map(|rest| format!("bfm_dist_repeat {rest} {}", 2 + rep_rng.below(2)))
        } else {
            None
        };
        emit0(l);
        if let Some(r) = rep {
            emit0(r);
        }
    };
    let emit: &mut dyn FnMut(String) = &mut emit_fn;
    // (0) large weights whose sums fit (most promising for a search: first)
    let n_large = if stress { 1_500 } else if thorough { 600 } else { 160 };
    for _ in 0..n_large {
        large_case(rng, emit);
    }
    let n_scaled = if stress { 1_000 } else if thorough { 400 } else { 60 };
    for _ in 0..n_scaled {
        scaled_case(rng, emit);
    }
    // funnel: one vertex improved `order` times or more without any circuit
    let n_funnel = if stress { 1_500 } else if thorough { 600 } else { 120 };
    for _ in 0..n_funnel {
        funnel_case(rng, emit);
    }
    if stress {
        // the regular structured families once more (every second one with repeated calls), then stop:
        // the search budget is short and the exhaustive streams were already run by the thorough tier
        for _ in 0..1_000 {
            random_case(rng, emit);
        }
        return;
    }
    // (1) every arc count 0..=13 (all residues mod 4 several times) on small orders, all sources
    let reps = if thorough { 40 } else { 5 };
    for m_arcs in 0..=13usize {
        for _ in 0..reps {
            let nmin = (2..).find(|n| n * (n - 1) >= m_arcs).unwrap_or(2);
            let n = nmin + rng.below(3);
            exact_count_case(rng, n, m_arcs, emit);
        }
    }
    // (2) structured random cases
    let n_random = if thorough { 10_000 } else { 500 };
    for _ in 0..n_random {
        random_case(rng, emit);
    }
    // (3) source out of range: the documented panic of `new` (small separate stream)
    for _ in 0..(if thorough { 40 } else { 8 }) {
        let n = 1 + rng.below(5);
        let m = potential_graph(rng, n, (1, 2));
        let a = shuffled(rng, &m);
        emit(line(n, &a, n + rng.below(3)));
    }
    // (4) thorough: all digraphs on 3 vertices with weights in {-2..2} (6^6 = 46 656), every source
    if thorough {
        let pairs = [(0usize, 1usize), (0, 2), (1, 0), (1, 2), (2, 0), (2, 1)];
        for code in 0..46_656usize {
            let mut c = code;
            let mut a: Vec<((usize, usize), i64)> = vec![];
            for p in pairs {
                let d = c % 6;
                c /= 6;
                if d > 0 {
                    a.push((p, d as i64 - 3));
                }
            }
            for s in 0..3 {
                emit(line(3, &a, s));
            }
        }
    }
}
