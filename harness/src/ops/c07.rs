//! C07 — `BellmanFordMoore::new(..).distances()` on the real code.
//!
//!   bfm_dist [wi n warcs] s   =>  (panic | none | [d…])  (- | [dijkstra d…])
//!
//! `d` entries: integers, `inf` for `isize::MAX` (BFM) / `usize::MAX` (Dijkstra).  The second
//! output is the real `DijkstraDist::distances` on the same arcs (as an
//! `AdjacencyListWeighted<usize>`), only when every weight is non-negative and `s` is in range.
#![allow(clippy::all)]

use crate::graphs::{self, Desc};
use crate::rng::Rng;
use crate::value::V;
use graaf::{AddArcWeighted, AdjacencyListWeighted, ArcsWeighted, BellmanFordMoore, DijkstraDist, Empty};
use std::collections::{BTreeMap, BTreeSet};
use std::panic::{catch_unwind, AssertUnwindSafe};

fn inf() -> V {
    V::atom("inf")
}

pub fn eval(op: &str, args: &[V]) -> Option<Vec<V>> {
    match op {
        "bfm_dist" => {
            let [gd, s] = args else { return None };
            let desc = Desc::parse(gd)?;
            if desc.repr != "wi" {
                return None;
            }
            let s = s.as_usize()?;
            let n = desc.order();
            // a description the real structure rejects is not a case of this property
            if n == 0 || desc.arcs.iter().any(|&(u, v)| u >= n || v >= n || u == v) {
                return None;
            }
            let digraph = desc.build_wi();
            let res = catch_unwind(AssertUnwindSafe(|| {
                let mut bfm = BellmanFordMoore::new(&digraph, s);
                bfm.distances().map(<[isize]>::to_vec)
            }));
            let out = match res {
                Err(_) => V::atom("panic"),
                Ok(None) => V::none(),
                Ok(Some(d)) => V::L(d.iter().map(|&x| if x == isize::MAX { inf() } else { V::i(x) }).collect()),
            };
            // the FINAL weights count (a repeated arc in the description replaces the weight)
            let finals: Vec<(usize, usize, isize)> = digraph.arcs_weighted().map(|(u, v, &w)| (u, v, w)).collect();
            let nonneg = finals.iter().all(|a| a.2 >= 0);
            let dij = if nonneg && s < desc.order() {
                let mut du = AdjacencyListWeighted::<usize>::empty(desc.order());
                for &(u, v, w) in &finals {
                    du.add_arc_weighted(u, v, w as usize);
                }
                let r = catch_unwind(AssertUnwindSafe(|| DijkstraDist::new(&du, std::iter::once(s)).distances()));
                match r {
                    Err(_) => V::atom("panic"),
                    Ok(d) => V::L(d.iter().map(|&x| if x == usize::MAX { inf() } else { V::u(x) }).collect()),
                }
            } else {
                V::atom("-")
            };
            Some(vec![out, dij])
        }
        _ => None,
    }
}

// ---------------------------------------------------------------------------------------
// generator
// ---------------------------------------------------------------------------------------

type WArcs = BTreeMap<(usize, usize), i64>;

fn line(n: usize, arcs: &[((usize, usize), i64)], s: usize) -> String {
    let d = Desc {
        repr: "wi".to_string(),
        verts: (0..n).collect(),
        arcs: arcs.iter().map(|a| a.0).collect(),
        weights: arcs.iter().map(|a| i128::from(a.1)).collect(),
    };
    format!("bfm_dist {} {s}", d.to_v())
}

/// Insertion order is part of the description (rows are maps: the real structure sorts).
fn shuffled(rng: &mut Rng, m: &WArcs) -> Vec<((usize, usize), i64)> {
    let mut v: Vec<((usize, usize), i64)> = m.iter().map(|(k, w)| (*k, *w)).collect();
    rng.shuffle(&mut v);
    v
}

fn emit_sources(rng: &mut Rng, n: usize, arcs: &WArcs, pref: Option<usize>, emit: &mut dyn FnMut(String)) {
    let a = shuffled(rng, arcs);
    if n <= 5 {
        for s in 0..n {
            emit(line(n, &a, s));
        }
    } else {
        let mut ss: BTreeSet<usize> = BTreeSet::new();
        if let Some(p) = pref {
            let _ = ss.insert(p);
        }
        while ss.len() < 3.min(n) {
            let _ = ss.insert(rng.below(n));
        }
        for s in ss {
            emit(line(n, &a, s));
        }
    }
}

fn order(rng: &mut Rng) -> usize {
    match rng.below(10) {
        0 => 1,
        1..=5 => 2 + rng.below(7),
        _ => 9 + rng.below(32),
    }
}

/// Arc set without negative circuits but with negative weights: `w = p(v) - p(u) + c`, `c >= 0`
/// (reduced costs non-negative), weights within -4..9.
fn potential_graph(rng: &mut Rng, n: usize, dens: (u64, u64)) -> WArcs {
    let p: Vec<i64> = (0..n).map(|_| rng.range(0, 4)).collect();
    let mut m = WArcs::new();
    for u in 0..n {
        for v in 0..n {
            if u != v && rng.chance(dens.0, dens.1) {
                let _ = m.insert((u, v), p[v] - p[u] + rng.range(0, 5));
            }
        }
    }
    m
}

fn density(rng: &mut Rng, n: usize) -> (u64, u64) {
    *rng.pick(&[(1, n.max(1) as u64), (2, n.max(1) as u64), (1, 10), (3, 10), (6, 10), (1, 1)])
}

/// Put a circuit of negative total weight on `cyc` (distinct vertices, len >= 2).
fn plant_cycle(rng: &mut Rng, m: &mut WArcs, cyc: &[usize]) {
    let k = cyc.len();
    let mut ws: Vec<i64> = (0..k).map(|_| rng.range(-4, 3)).collect();
    // force the sum below zero, staying inside -4..9
    let mut i = 0;
    while ws.iter().sum::<i64>() >= 0 {
        if ws[i % k] > -4 {
            ws[i % k] -= 1;
        }
        i += 1;
    }
    for j in 0..k {
        let _ = m.insert((cyc[j], cyc[(j + 1) % k]), ws[j]);
    }
}

fn distinct(rng: &mut Rng, pool: &[usize], k: usize) -> Vec<usize> {
    let mut p = pool.to_vec();
    rng.shuffle(&mut p);
    p.truncate(k);
    p
}

fn random_case(rng: &mut Rng, emit: &mut dyn FnMut(String)) {
    let n = order(rng);
    match rng.below(10) {
        // no negative circuit, negative weights present (early exit and full rounds both occur)
        0 | 1 => {
            let dens = density(rng, n);
            let m = potential_graph(rng, n, dens);
            emit_sources(rng, n, &m, None, emit);
        }
        // a path against the arc order (tails descending): every one of the order-1 rounds updates
        8 if n >= 3 => {
            let n = n.min(16);
            let mut m = potential_graph(rng, n, (1, 2 * n as u64));
            let p: Vec<i64> = (0..n).map(|_| rng.range(0, 4)).collect();
            // keep only arcs that go "down" so that the chain stays the only way to the low ids
            m.retain(|&(u, v), _| u > v);
            for i in 0..n - 1 {
                let _ = m.insert((i + 1, i), p[i] - p[i + 1] + rng.range(0, 1) - 2);
            }
            for w in m.values_mut() {
                *w = (*w).clamp(-4, 9);
            }
            emit_sources(rng, n, &m, Some(n - 1), emit);
        }
        // non-negative weights: Dijkstra comparison
        2 | 3 => {
            let (_, d) = graphs::gen_wdesc(rng, "wi", 40, 0, 9);
            let n = d.order();
            let m: WArcs = d.arcs.iter().zip(&d.weights).map(|(&a, &w)| (a, w as i64)).collect();
            emit_sources(rng, n, &m, None, emit);
        }
        // negative circuit reachable from the preferred source
        4 | 5 if n >= 2 => {
            let dens = density(rng, n);
            let mut m = potential_graph(rng, n, dens);
            let all: Vec<usize> = (0..n).collect();
            let k = 2 + rng.below((n - 1).min(4));
            let cyc = distinct(rng, &all, k.min(n));
            plant_cycle(rng, &mut m, &cyc);
            let s = rng.below(n);
            // a path from s into the circuit
            if !cyc.contains(&s) {
                let mid = rng.below(n);
                if mid != s && !cyc.contains(&mid) && rng.chance(1, 2) {
                    let _ = m.insert((s, mid), rng.range(-4, 9));
                    let _ = m.insert((mid, cyc[0]), rng.range(-4, 9));
                } else {
                    let _ = m.insert((s, cyc[0]), rng.range(-4, 9));
                }
            }
            emit_sources(rng, n, &m, Some(s), emit);
        }
        // negative circuit that the preferred source cannot reach: no arc from A to B
        6 | 7 if n >= 3 => {
            let kb = 2 + rng.below((n - 2).min(4));
            let all: Vec<usize> = (0..n).collect();
            let b: Vec<usize> = distinct(rng, &all, kb);
            let a: Vec<usize> = all.iter().copied().filter(|x| !b.contains(x)).collect();
            let dens = density(rng, n);
            let mut m = potential_graph(rng, n, dens);
            m.retain(|&(u, v), _| !(a.contains(&u) && b.contains(&v)));
            let k = 2 + rng.below(b.len() - 1);
            let cyc = distinct(rng, &b, k);
            plant_cycle(rng, &mut m, &cyc);
            let s = *rng.pick(&a);
            emit_sources(rng, n, &m, Some(s), emit);
        }
        // plain random weights -4..9 on the shared families (sparse ones often circuit-free)
        _ => {
            let (_, d) = graphs::gen_wdesc(rng, "wi", 40, -4, 9);
            let n = d.order();
            let m: WArcs = d.arcs.iter().zip(&d.weights).map(|(&a, &w)| (a, w as i64)).collect();
            emit_sources(rng, n, &m, None, emit);
        }
    }
}

/// Exactly `m` arcs on `n` vertices (n*(n-1) >= m), weights from `-4..9` or a potential.
fn exact_count_case(rng: &mut Rng, n: usize, m_arcs: usize, emit: &mut dyn FnMut(String)) {
    let mut pairs: Vec<(usize, usize)> = (0..n).flat_map(|u| (0..n).filter(move |&v| v != u).map(move |v| (u, v))).collect();
    rng.shuffle(&mut pairs);
    pairs.truncate(m_arcs);
    let p: Vec<i64> = (0..n).map(|_| rng.range(0, 4)).collect();
    let mode = rng.below(3);
    let m: WArcs = pairs
        .into_iter()
        .map(|(u, v)| {
            let w = match mode {
                0 => p[v] - p[u] + rng.range(0, 5),
                1 => rng.range(0, 9),
                _ => rng.range(-4, 9),
            };
            ((u, v), w)
        })
        .collect();
    let a = shuffled(rng, &m);
    for s in 0..n {
        emit(line(n, &a, s));
    }
}

pub fn gen(rng: &mut Rng, thorough: bool, emit: &mut dyn FnMut(String)) {
    // (1) every arc count 0..=13 (all residues mod 4 several times) on small orders, all sources
    let reps = if thorough { 40 } else { 5 };
    for m_arcs in 0..=13usize {
        for _ in 0..reps {
            let nmin = (2..).find(|n| n * (n - 1) >= m_arcs).unwrap_or(2);
            let n = nmin + rng.below(3);
            exact_count_case(rng, n, m_arcs, emit);
        }
    }
    // (2) structured random cases
    let n_random = if thorough { 10_000 } else { 320 };
    for _ in 0..n_random {
        random_case(rng, emit);
    }
    // (3) source out of range: the documented panic of `new` (small separate stream)
    for _ in 0..(if thorough { 40 } else { 8 }) {
        let n = 1 + rng.below(5);
        let m = potential_graph(rng, n, (1, 2));
        let a = shuffled(rng, &m);
        emit(line(n, &a, n + rng.below(3)));
    }
    // (4) thorough: all digraphs on 3 vertices with weights in {-2..2} (6^6 = 46 656), every source
    if thorough {
        let pairs = [(0usize, 1usize), (0, 2), (1, 0), (1, 2), (2, 0), (2, 1)];
        for code in 0..46_656usize {
            let mut c = code;
            let mut a: Vec<((usize, usize), i64)> = vec![];
            for p in pairs {
                let d = c % 6;
                c /= 6;
                if d > 0 {
                    a.push((p, d as i64 - 3));
                }
            }
            for s in 0..3 {
                emit(line(3, &a, s));
            }
        }
    }
}
