//! C18 — `DistanceMatrix` on the real code.
//!
//!   dm_i order inf [[u v w]..] [[u v]..]   (W = isize)       dm_u ..  (W = usize)
//!       `DistanceMatrix::new(order, inf)`, the `IndexMut<(u, v)>` writes in order, then
//!       => [ecc..] diam [center..] [periphery..] true|false [read..] [raw..]
//!          | panic-new | [panic-set k]
//!   dm_si order inf default [[u w]..] [[u v w]..]   (W = isize)   dm_su .. (W = usize)
//!       sparse description for large orders: `new`, then `default` into every cell (skipped when
//!       equal to `inf`), whole-row fills, cell exceptions — all through `IndexMut<(u, v)>`
//!       => [ecc..] diam [center..] [periphery..] true|false
//!   dm_fw2 / dm_fw3: as dm_fw with `distances()` called 2 / 3 times on the same object
//!   dm_fw [wi n warcs]
//!       `FloydWarshall::new(&digraph).distances()`
//!       => inf [entry (u,v) row-major..] [ecc..] diam [center..] [periphery..] true|false
#![allow(clippy::all)]

use crate::graphs::{self, Desc};
use crate::rng::Rng;
use crate::value::V;
use graaf::{DistanceMatrix, FloydWarshall};
use std::panic::{catch_unwind, AssertUnwindSafe};

trait W: Copy + Ord + 'static {
    fn of(v: &V) -> Option<Self>;
    fn show(self) -> V;
}
impl W for isize {
    fn of(v: &V) -> Option<Self> {
        v.as_isize()
    }
    fn show(self) -> V {
        V::I(self as i128)
    }
}
impl W for usize {
    fn of(v: &V) -> Option<Self> {
        v.as_usize()
    }
    fn show(self) -> V {
        V::I(self as i128)
    }
}

fn metrics<T: W>(m: &DistanceMatrix<T>) -> Vec<V> {
    vec![
        V::L(m.eccentricities().map(|e| e.show()).collect()),
        m.diameter().show(),
        V::us(m.center()),
        V::us(m.periphery()),
        V::bool(m.is_connected()),
    ]
}

fn build<T: W>(args: &[V]) -> Option<Vec<V>> {
    let [order, inf, ws, reads] = args else { return None };
    let order = order.as_usize()?;
    let inf = T::of(inf)?;
    let mut writes = Vec::new();
    for w in ws.as_list()? {
        let w = w.as_list()?;
        if w.len() != 3 {
            return None;
        }
        writes.push((w[0].as_usize()?, w[1].as_usize()?, T::of(&w[2])?));
    }
    let reads = reads.as_pairs()?;
    let Ok(mut m) = catch_unwind(AssertUnwindSafe(|| DistanceMatrix::<T>::new(order, inf))) else {
        return Some(vec![V::atom("panic-new")]);
    };
    for (k, &(u, v, w)) in writes.iter().enumerate() {
        if catch_unwind(AssertUnwindSafe(|| m[(u, v)] = w)).is_err() {
            return Some(vec![V::L(vec![V::atom("panic-set"), V::u(k)])]);
        }
    }
    let mut out = metrics(&m);
    out.push(V::L(
        reads
            .iter()
            .map(|&(u, v)| catch_unwind(AssertUnwindSafe(|| m[(u, v)])).map_or_else(|_| V::atom("panic"), W::show))
            .collect(),
    ));
    out.push(V::L(m[..].iter().map(|x| x.show()).collect()));
    Some(out)
}

fn sparse<T: W>(args: &[V]) -> Option<Vec<V>> {
    let [order, inf, dflt, fills, cells] = args else { return None };
    let n = order.as_usize()?;
    let inf = T::of(inf)?;
    let dflt = T::of(dflt)?;
    let mut m = DistanceMatrix::<T>::new(n, inf);
    if dflt != inf {
        for u in 0..n {
            for v in 0..n {
                m[(u, v)] = dflt;
            }
        }
    }
    for f in fills.as_list()? {
        let f = f.as_list()?;
        if f.len() != 2 {
            return None;
        }
        let (u, w) = (f[0].as_usize()?, T::of(&f[1])?);
        for v in 0..n {
            m[(u, v)] = w;
        }
    }
    for c in cells.as_list()? {
        let c = c.as_list()?;
        if c.len() != 3 {
            return None;
        }
        m[(c[0].as_usize()?, c[1].as_usize()?)] = T::of(&c[2])?;
    }
    Some(metrics(&m))
}

pub fn eval(op: &str, args: &[V]) -> Option<Vec<V>> {
    match op {
        "dm_i" => build::<isize>(args),
        "dm_u" => build::<usize>(args),
        "dm_si" => sparse::<isize>(args),
        "dm_su" => sparse::<usize>(args),
        "dm_fw" | "dm_fw2" | "dm_fw3" => {
            let [g] = args else { return None };
            let d = Desc::parse(g)?;
            if d.repr != "wi" {
                return None;
            }
            let n = d.order();
            let digraph = d.build_wi();
            let mut fw = FloydWarshall::new(&digraph);
            // state carried between calls: the matrix of the LAST call is observed
            for _ in 1..(if op == "dm_fw3" { 3 } else if op == "dm_fw2" { 2 } else { 1 }) {
                let _ = fw.distances();
            }
            let m = fw.distances();
            let mut out = vec![m.infinity.show()];
            out.push(V::L((0..n).flat_map(|u| (0..n).map(move |v| (u, v))).map(|uv| m[uv].show()).collect()));
            out.extend(metrics(m));
            Some(out)
        }
        _ => None,
    }
}

// ------------------------------------------------------------------------------ generator

fn gen_order(rng: &mut Rng) -> usize {
    match rng.below(100) {
        0..=7 => 1,
        8..=84 => 2 + rng.below(11),  // 2..12
        _ => 13 + rng.below(28),      // 13..40
    }
}

/// One matrix family: returns the write list (row-major position -> value), possibly partial.
fn gen_matrix(rng: &mut Rng, n: usize, inf: i128, lo: i128, signed: bool) -> (Vec<(usize, usize, i128)>, bool) {
    let mut ws: Vec<(usize, usize, i128)> = Vec::new();
    let small = |rng: &mut Rng, k: usize| -> i128 {
        let x = rng.below(k) as i128;
        if signed && rng.chance(1, 4) { -x } else { x }
    };
    let fam = rng.below(12);
    let mut shuffle = true;
    match fam {
        0 => {}                                                    // fresh: every entry infinite
        1 => {                                                     // sparse writes, most entries infinite
            for _ in 0..rng.below(n * 2 + 1) {
                ws.push((rng.below(n), rng.below(n), small(rng, 6)));
            }
        }
        2 | 3 => {                                                 // full, tiny value range: many ties
            let k = 1 + rng.below(3);
            for u in 0..n { for v in 0..n { ws.push((u, v, small(rng, k + 1))); } }
        }
        4 => {                                                     // full, wide range: unique extrema
            for u in 0..n { for v in 0..n { ws.push((u, v, small(rng, 1000))); } }
        }
        5 => {                                                     // each row constant (ecc known), ties by row
            let k = 1 + rng.below(3);
            for u in 0..n { let c = small(rng, k + 1); for v in 0..n { ws.push((u, v, c)); } }
        }
        6 => {                                                     // strongly asymmetric: row u = u, column max elsewhere
            for u in 0..n { for v in 0..n { ws.push((u, v, (u as i128) * 3 + if v == 0 { 1 } else { 0 })); } }
        }
        7 => {                                                     // some rows contain infinity, others do not
            for u in 0..n {
                let holes = rng.chance(1, 2);
                for v in 0..n {
                    let x = if holes && rng.chance(1, 3) { inf } else { small(rng, 5) };
                    ws.push((u, v, x));
                }
            }
        }
        8 => {                                                     // every row has an infinite entry, rest written
            for u in 0..n {
                let h = rng.below(n);
                for v in 0..n { ws.push((u, v, if v == h { inf } else { small(rng, 5) })); }
            }
        }
        9 => {                                                     // overwrite the same cells repeatedly (last write wins)
            for _ in 0..(n * n + 3) {
                ws.push((rng.below(n.min(3)), rng.below(n.min(3)), small(rng, 4)));
            }
            shuffle = false;
        }
        10 => {                                                    // extreme values of the type
            for u in 0..n { for v in 0..n {
                let x = match rng.below(4) { 0 => inf, 1 => lo, 2 => inf - 1, _ => small(rng, 3) };
                ws.push((u, v, x));
            } }
        }
        _ => {                                                     // a metric-like matrix: zero diagonal, positive elsewhere
            for u in 0..n { for v in 0..n {
                ws.push((u, v, if u == v { 0 } else { 1 + rng.below(4) as i128 }));
            } }
        }
    }
    if shuffle && rng.chance(1, 2) {
        rng.shuffle(&mut ws);
    }
    (ws, fam == 0)
}

fn show_ws(ws: &[(usize, usize, i128)]) -> V {
    V::L(ws.iter().map(|&(u, v, w)| V::L(vec![V::u(u), V::u(v), V::I(w)])).collect())
}

fn gen_reads(rng: &mut Rng, n: usize) -> V {
    let k = 1 + rng.below(4);
    V::pairs((0..k).map(|_| {
        if rng.chance(1, 12) {
            // out of the square: aliases another cell or panics — correspondence only
            (rng.below(n + 2), n + rng.below(2))
        } else {
            (rng.below(n), rng.below(n))
        }
    }))
}

/// Orders around the thresholds the round-2 seeds used (256-entry blocks, halves of a row).
fn gen_large_order(rng: &mut Rng, huge: bool) -> usize {
    match rng.below(if huge { 12 } else { 10 }) {
        0..=5 => 255 + rng.below(46),      // 255..300, odd and even
        6 => *rng.pick(&[255, 256, 257, 258, 259, 299, 300, 301]),
        7..=9 => 511 + rng.below(10),      // 511..520
        10 => *rng.pick(&[192, 193, 384, 385, 640, 641]),
        _ => *rng.pick(&[767, 768, 769, 770, 1025]),
    }
}

/// A column that a block-wise / split / strided scan may forget.
fn special_col(rng: &mut Rng, n: usize) -> usize {
    let c = match rng.below(12) {
        0..=3 => n - 1,
        4 => n - 2,
        5 => 0,
        6 => n / 2,
        7 => n / 2 - 1,
        8 => *rng.pick(&[255, 256, 257, 127, 128, 63, 64]),
        9 => (n / 256) * 256,              // first column of the last block
        10 => n / 2 + 1,
        _ => rng.below(n),
    };
    c.min(n - 1)
}

/// One large matrix in the sparse encoding. Values stay small; `inf` is the type maximum or small.
fn gen_large(rng: &mut Rng, n: usize, emit: &mut dyn FnMut(String)) {
    let signed = rng.chance(1, 2);
    let tmax = if signed { isize::MAX as i128 } else { usize::MAX as i128 };
    let inf = if rng.chance(2, 3) { tmax } else { 1000 };
    let op = if signed { "dm_si" } else { "dm_su" };
    let mut fills: Vec<(usize, i128)> = Vec::new();
    let mut cells: Vec<(usize, usize, i128)> = Vec::new();
    let rows = |rng: &mut Rng, k: usize| -> Vec<usize> {
        // a few rows: first, last, around the block boundary, random
        let mut r: Vec<usize> = (0..k)
            .map(|_| match rng.below(6) { 0 => 0, 1 => n - 1, 2 => (255 + rng.below(3)).min(n - 1), 3 => n / 2, _ => rng.below(n) })
            .collect();
        r.sort_unstable();
        r.dedup();
        r
    };
    let dflt: i128;
    match rng.below(8) {
        0 => {
            // every row ties the minimum (constant matrix), a few rows raised at a special column
            dflt = 5;
            for u in { let k = rng.below(4); rows(rng, k) } { cells.push((u, special_col(rng, n), 9)); }
        }
        1 => {
            // few minimal rows (ties among minimal eccentricities), far apart
            dflt = 7;
            for u in { let k = 2 + rng.below(5); rows(rng, k) } { fills.push((u, 3)); }
            // … some of which attain the minimum only at a special column
            if rng.chance(1, 2) {
                let u = rng.below(n);
                fills.push((u, 1));
                cells.push((u, special_col(rng, n), 3));
            }
        }
        2 => {
            // row maximum ONLY in a special (mostly the last) column, for many rows
            dflt = 4;
            let all = rng.chance(1, 2);
            for u in 0..n {
                if all || rng.chance(1, 8) { cells.push((u, special_col(rng, n), 6 + rng.below(3) as i128)); }
            }
        }
        3 => {
            // infinity ONLY in the last / a special column
            dflt = 2;
            let col_last = rng.chance(2, 3);
            for u in { let k = 1 + rng.below(6); rows(rng, k) } {
                cells.push((u, if col_last { n - 1 } else { special_col(rng, n) }, inf));
            }
        }
        4 => {
            // everything infinite except a few finite cells / rows: center = all or the finite rows
            dflt = inf;
            for u in { let k = rng.below(4); rows(rng, k) } { fills.push((u, 8)); }
            for _ in 0..rng.below(5) { cells.push((rng.below(n), special_col(rng, n), 1)); }
        }
        5 => {
            // ascending rows: row u is constant u % k (periodic ties), maximum rows tie too
            dflt = 0;
            let k = 2 + rng.below(5);
            for u in 0..n { fills.push((u, (u % k) as i128 + 1)); }
            for u in { let k = rng.below(3); rows(rng, k) } { cells.push((u, special_col(rng, n), k as i128 + 1)); }
        }
        6 => {
            // dominant diagonal: the row maximum is d(u, u) only
            dflt = 1;
            for u in 0..n { if rng.chance(1, 2) { cells.push((u, u, 5)); } }
        }
        _ => {
            // unique minimum row late in the matrix, ties among the others
            dflt = 6;
            let u = n - 1 - rng.below(3);
            fills.push((u, 2));
            cells.push((u, special_col(rng, n), 4));
            for u in { let k = rng.below(3); rows(rng, k) } { cells.push((u, special_col(rng, n), 6)); }
        }
    }
    let fills_v = V::L(fills.iter().map(|&(u, w)| V::L(vec![V::u(u), V::I(w)])).collect());
    emit(format!("{op} {n} {inf} {dflt} {fills_v} {}", show_ws(&cells)));
}

/// FloydWarshall on unit / weighted circuits and paths of order around 257..301.
fn gen_large_fw(rng: &mut Rng, emit: &mut dyn FnMut(String)) {
    let n = *rng.pick(&[255usize, 256, 257, 258, 259, 281, 299, 300, 301]);
    let w = if rng.chance(2, 3) { 1 } else { 1 + rng.below(3) as i128 };
    let mut arcs: Vec<(usize, usize)> = (0..n - 1).map(|u| (u, u + 1)).collect();
    match rng.below(4) {
        0 => {}                                   // path
        1 | 2 => arcs.push((n - 1, 0)),           // circuit
        _ => { arcs.push((n - 1, 0)); arcs.push((rng.below(n), rng.below(n - 1) + 1)); } // circuit + chord
    }
    arcs.retain(|&(u, v)| u != v);
    arcs.sort_unstable();
    arcs.dedup();
    let k = arcs.len();
    let d = Desc { repr: "wi".to_string(), verts: (0..n).collect(), arcs, weights: vec![w; k] };
    let op = match rng.below(6) { 0 => "dm_fw2", 1 => "dm_fw3", _ => "dm_fw" };
    emit(format!("{op} {}", d.to_v()));
}

pub fn gen(rng: &mut Rng, thorough: bool, emit: &mut dyn FnMut(String)) {
    // (L) large orders (round 2): most promising first; in the stress tier ONLY these
    if crate::stress() {
        for n in [300usize, 257, 260, 301, 513, 512] {
            // constant matrices: every vertex is central and peripheral
            emit(format!("dm_su {n} {} 4 [] []", usize::MAX));
            // infinity only in the last column of one row
            emit(format!("dm_su {n} {} 6 [] [[5 {} {}]]", usize::MAX, n - 1, usize::MAX));
        }
        for _ in 0..2 { gen_large_fw(rng, emit); }
        for i in 0..520 {
            let n = gen_large_order(rng, i % 40 == 39);
            gen_large(rng, n, emit);
            if i % 30 == 7 { gen_large_fw(rng, emit); }
        }
        return;
    }
    for i in 0..(if thorough { 120 } else { 16 }) {
        let n = gen_large_order(rng, false);
        gen_large(rng, n, emit);
        if i % 40 == 3 { gen_large_fw(rng, emit); }
    }
    let imax = isize::MAX as i128;
    let imin = isize::MIN as i128;
    let umax = usize::MAX as i128;
    // (0) fixed edge cases
    emit(format!("dm_i 0 {imax} [] []"));
    emit(format!("dm_u 0 {umax} [] []"));
    emit(format!("dm_i 4294967296 {imax} [] []"));
    emit(format!("dm_u 18446744073709551615 0 [] []"));
    emit(format!("dm_i 1 {imax} [] [[0 0]]"));
    emit(format!("dm_u 1 {umax} [] [[0 0] [0 1] [1 0]]"));
    emit(format!("dm_i 1 {imax} [[0 0 0]] [[0 0]]"));
    emit(format!("dm_i 2 {imax} [[0 1 5]] [[0 1] [1 0]]"));
    emit(format!("dm_u 3 {umax} [[2 0 7] [0 2 9]] [[2 0] [0 2]]"));
    emit(format!("dm_i 2 5 [[0 0 5] [0 1 5] [1 0 5] [1 1 5]] [[1 1]]"));
    emit(format!("dm_i 3 {imax} [[1 3 1]] []")); // (1,3) aliases (2,0)
    emit(format!("dm_i 3 {imax} [[2 3 1]] []")); // out of bounds: panics
    // (1) exhaustive tiny scope: all 2x2 matrices over {0, 1, inf} with inf = 2, both types
    for code in 0..81usize {
        let mut c = code;
        let mut ws = Vec::new();
        for u in 0..2 { for v in 0..2 { ws.push((u, v, (c % 3) as i128)); c /= 3; } }
        emit(format!("dm_i 2 2 {} [[0 1] [1 0]]", show_ws(&ws)));
        if thorough || code % 3 == 0 {
            emit(format!("dm_u 2 2 {} [[0 1] [1 0]]", show_ws(&ws)));
        }
    }
    // (1b) thorough: all 3x3 matrices over {0, 1, inf} with inf = 2 (3^9 = 19 683)
    if thorough {
        for code in 0..19_683usize {
            let mut c = code;
            let mut ws = Vec::new();
            for u in 0..3 { for v in 0..3 { ws.push((u, v, (c % 3) as i128)); c /= 3; } }
            let op = if code % 2 == 0 { "dm_i" } else { "dm_u" };
            emit(format!("{op} 3 2 {} [[0 2] [2 0] [1 2]]", show_ws(&ws)));
        }
    }
    // (2) random matrices through the public API
    let n_random = if thorough { 40_000 } else { 3_000 };
    for _ in 0..n_random {
        let n = gen_order(rng);
        let signed = rng.chance(1, 2);
        let (op, inf, lo) = if signed {
            ("dm_i", if rng.chance(3, 4) { imax } else { 50 + rng.below(50) as i128 }, imin)
        } else {
            ("dm_u", if rng.chance(3, 4) { umax } else { 50 + rng.below(50) as i128 }, 0)
        };
        let (mut ws, _) = gen_matrix(rng, n, inf, lo, signed);
        // entries must not exceed infinity (the property's hypothesis) …
        for w in ws.iter_mut() {
            if w.2 > inf { w.2 = inf; }
        }
        // … except in a small correspondence-only stream
        if inf < 1000 && rng.chance(1, 6) && !ws.is_empty() {
            let i = rng.below(ws.len());
            ws[i].2 = inf + 1 + rng.below(3) as i128;
            if rng.chance(1, 3) {
                for w in ws.iter_mut() { w.2 = inf + 1; }
            }
        }
        emit(format!("{op} {n} {inf} {} {}", show_ws(&ws), gen_reads(rng, n)));
    }
    // (3) matrices produced by the real FloydWarshall
    let n_fw = if thorough { 10_000 } else { 800 };
    for _ in 0..n_fw {
        let max = if rng.chance(1, 8) { 40 } else { 12 };
        // negative weights (negative circuits make entries shrink geometrically) only on small orders
        let (lo, hi) = match rng.below(4) { 0 => (1, 1), 1 => (0, 3), 2 => (1, 100), _ => if max <= 12 { (-3, 20) } else { (0, 9) } };
        let (_, d) = graphs::gen_wdesc(rng, "wi", max, lo, hi);
        // repeated `distances()` on the same object (state carried between calls): non-negative weights only
        let op = if lo >= 0 && rng.chance(1, 6) { if rng.chance(1, 2) { "dm_fw2" } else { "dm_fw3" } } else { "dm_fw" };
        emit(format!("{op} {}", d.to_v()));
    }
}
