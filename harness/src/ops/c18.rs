//! C18 — `DistanceMatrix` on the real code.
//!
//!   dm_i order inf [[u v w]..] [[u v]..]   (W = isize)       dm_u ..  (W = usize)
//!       `DistanceMatrix::new(order, inf)`, the `IndexMut<(u, v)>` writes in order, then
//!       => [ecc..] diam [center..] [periphery..] true|false [read..] [raw..]
//!          | panic-new | [panic-set k]
//!   dm_fw [wi n warcs]
//!       `FloydWarshall::new(&digraph).distances()`
//!       => inf [entry (u,v) row-major..] [ecc..] diam [center..] [periphery..] true|false
#![allow(clippy::all)]

use crate::graphs::{self, Desc};
use crate::rng::Rng;
use crate::value::V;
use graaf::{DistanceMatrix, FloydWarshall};
use std::panic::{catch_unwind, AssertUnwindSafe};

trait W: Copy + Ord + 'static {
    fn of(v: &V) -> Option<Self>;
    fn show(self) -> V;
}
impl W for isize {
    fn of(v: &V) -> Option<Self> {
        v.as_isize()
    }
    fn show(self) -> V {
        V::I(self as i128)
    }
}
impl W for usize {
    fn of(v: &V) -> Option<Self> {
        v.as_usize()
    }
    fn show(self) -> V {
        V::I(self as i128)
    }
}

fn metrics<T: W>(m: &DistanceMatrix<T>) -> Vec<V> {
    vec![
        V::L(m.eccentricities().map(|e| e.show()).collect()),
        m.diameter().show(),
        V::us(m.center()),
        V::us(m.periphery()),
        V::bool(m.is_connected()),
    ]
}

fn build<T: W>(args: &[V]) -> Option<Vec<V>> {
    let [order, inf, ws, reads] = args else { return None };
    let order = order.as_usize()?;
    let inf = T::of(inf)?;
    let mut writes = Vec::new();
    for w in ws.as_list()? {
        let w = w.as_list()?;
        if w.len() != 3 {
            return None;
        }
        writes.push((w[0].as_usize()?, w[1].as_usize()?, T::of(&w[2])?));
    }
    let reads = reads.as_pairs()?;
    let Ok(mut m) = catch_unwind(AssertUnwindSafe(|| DistanceMatrix::<T>::new(order, inf))) else {
        return Some(vec![V::atom("panic-new")]);
    };
    for (k, &(u, v, w)) in writes.iter().enumerate() {
        if catch_unwind(AssertUnwindSafe(|| m[(u, v)] = w)).is_err() {
            return Some(vec![V::L(vec![V::atom("panic-set"), V::u(k)])]);
        }
    }
    let mut out = metrics(&m);
    out.push(V::L(
        reads
            .iter()
            .map(|&(u, v)| catch_unwind(AssertUnwindSafe(|| m[(u, v)])).map_or_else(|_| V::atom("panic"), W::show))
            .collect(),
    ));
    out.push(V::L(m[..].iter().map(|x| x.show()).collect()));
    Some(out)
}

pub fn eval(op: &str, args: &[V]) -> Option<Vec<V>> {
    match op {
        "dm_i" => build::<isize>(args),
        "dm_u" => build::<usize>(args),
        "dm_fw" => {
            let [g] = args else { return None };
            let d = Desc::parse(g)?;
            if d.repr != "wi" {
                return None;
            }
            let n = d.order();
            let digraph = d.build_wi();
            let mut fw = FloydWarshall::new(&digraph);
            let m = fw.distances();
            let mut out = vec![m.infinity.show()];
            out.push(V::L((0..n).flat_map(|u| (0..n).map(move |v| (u, v))).map(|uv| m[uv].show()).collect()));
            out.extend(metrics(m));
            Some(out)
        }
        _ => None,
    }
}

// ------------------------------------------------------------------------------ generator

fn gen_order(rng: &mut Rng) -> usize {
    match rng.below(100) {
        0..=7 => 1,
        8..=84 => 2 + rng.below(11),  // 2..12
        _ => 13 + rng.below(28),      // 13..40
    }
}

/// One matrix family: returns the write list (row-major position -> value), possibly partial.
fn gen_matrix(rng: &mut Rng, n: usize, inf: i128, lo: i128, signed: bool) -> (Vec<(usize, usize, i128)>, bool) {
    let mut ws: Vec<(usize, usize, i128)> = Vec::new();
    let small = |rng: &mut Rng, k: usize| -> i128 {
        let x = rng.below(k) as i128;
        if signed && rng.chance(1, 4) { -x } else { x }
    };
    let fam = rng.below(12);
    let mut shuffle = true;
    match fam {
        0 => {}                                                    // fresh: every entry infinite
        1 => {                                                     // sparse writes, most entries infinite
            for _ in 0..rng.below(n * 2 + 1) {
                ws.push((rng.below(n), rng.below(n), small(rng, 6)));
            }
        }
        2 | 3 => {                                                 // full, tiny value range: many ties
            let k = 1 + rng.below(3);
            for u in 0..n { for v in 0..n { ws.push((u, v, small(rng, k + 1))); } }
        }
        4 => {                                                     // full, wide range: unique extrema
            for u in 0..n { for v in 0..n { ws.push((u, v, small(rng, 1000))); } }
        }
        5 => {                                                     // each row constant (ecc known), ties by row
            let k = 1 + rng.below(3);
            for u in 0..n { let c = small(rng, k + 1); for v in 0..n { ws.push((u, v, c)); } }
        }
        6 => {                                                     // strongly asymmetric: row u = u, column max elsewhere
            for u in 0..n { for v in 0..n { ws.push((u, v, (u as i128) * 3 + if v == 0 { 1 } else { 0 })); } }
        }
        7 => {                                                     // some rows contain infinity, others do not
            for u in 0..n {
                let holes = rng.chance(1, 2);
                for v in 0..n {
                    let x = if holes && rng.chance(1, 3) { inf } else { small(rng, 5) };
                    ws.push((u, v, x));
                }
            }
        }
        8 => {                                                     // every row has an infinite entry, rest written
            for u in 0..n {
                let h = rng.below(n);
                for v in 0..n { ws.push((u, v, if v == h { inf } else { small(rng, 5) })); }
            }
        }
        9 => {                                                     // overwrite the same cells repeatedly (last write wins)
            for _ in 0..(n * n + 3) {
                ws.push((rng.below(n.min(3)), rng.below(n.min(3)), small(rng, 4)));
            }
            shuffle = false;
        }
        10 => {                                                    // extreme values of the type
            for u in 0..n { for v in 0..n {
                let x = match rng.below(4) { 0 => inf, 1 => lo, 2 => inf - 1, _ => small(rng, 3) };
                ws.push((u, v, x));
            } }
        }
        _ => {                                                     // a metric-like matrix: zero diagonal, positive elsewhere
            for u in 0..n { for v in 0..n {
                ws.push((u, v, if u == v { 0 } else { 1 + rng.below(4) as i128 }));
            } }
        }
    }
    if shuffle && rng.chance(1, 2) {
        rng.shuffle(&mut ws);
    }
    (ws, fam == 0)
}

fn show_ws(ws: &[(usize, usize, i128)]) -> V {
    V::L(ws.iter().map(|&(u, v, w)| V::L(vec![V::u(u), V::u(v), V::I(w)])).collect())
}

fn gen_reads(rng: &mut Rng, n: usize) -> V {
    let k = 1 + rng.below(4);
    V::pairs((0..k).map(|_| {
        if rng.chance(1, 12) {
            // out of the square: aliases another cell or panics — correspondence only
            (rng.below(n + 2), n + rng.below(2))
        } else {
            (rng.below(n), rng.below(n))
        }
    }))
}

pub fn gen(rng: &mut Rng, thorough: bool, emit: &mut dyn FnMut(String)) {
    let imax = isize::MAX as i128;
    let imin = isize::MIN as i128;
    let umax = usize::MAX as i128;
    // (0) fixed edge cases
    emit(format!("dm_i 0 {imax} [] []"));
    emit(format!("dm_u 0 {umax} [] []"));
    emit(format!("dm_i 4294967296 {imax} [] []"));
    emit(format!("dm_u 18446744073709551615 0 [] []"));
    emit(format!("dm_i 1 {imax} [] [[0 0]]"));
    emit(format!("dm_u 1 {umax} [] [[0 0] [0 1] [1 0]]"));
    emit(format!("dm_i 1 {imax} [[0 0 0]] [[0 0]]"));
    emit(format!("dm_i 2 {imax} [[0 1 5]] [[0 1] [1 0]]"));
    emit(format!("dm_u 3 {umax} [[2 0 7] [0 2 9]] [[2 0] [0 2]]"));
    emit(format!("dm_i 2 5 [[0 0 5] [0 1 5] [1 0 5] [1 1 5]] [[1 1]]"));
    emit(format!("dm_i 3 {imax} [[1 3 1]] []")); // (1,3) aliases (2,0)
    emit(format!("dm_i 3 {imax} [[2 3 1]] []")); // out of bounds: panics
    // (1) exhaustive tiny scope: all 2x2 matrices over {0, 1, inf} with inf = 2, both types
    for code in 0..81usize {
        let mut c = code;
        let mut ws = Vec::new();
        for u in 0..2 { for v in 0..2 { ws.push((u, v, (c % 3) as i128)); c /= 3; } }
        emit(format!("dm_i 2 2 {} [[0 1] [1 0]]", show_ws(&ws)));
        if thorough || code % 3 == 0 {
            emit(format!("dm_u 2 2 {} [[0 1] [1 0]]", show_ws(&ws)));
        }
    }
    // (1b) thorough: all 3x3 matrices over {0, 1, inf} with inf = 2 (3^9 = 19 683)
    if thorough {
        for code in 0..19_683usize {
            let mut c = code;
            let mut ws = Vec::new();
            for u in 0..3 { for v in 0..3 { ws.push((u, v, (c % 3) as i128)); c /= 3; } }
            let op = if code % 2 == 0 { "dm_i" } else { "dm_u" };
            emit(format!("{op} 3 2 {} [[0 2] [2 0] [1 2]]", show_ws(&ws)));
        }
    }
    // (2) random matrices through the public API
    let n_random = if thorough { 40_000 } else { 3_000 };
    for _ in 0..n_random {
        let n = gen_order(rng);
        let signed = rng.chance(1, 2);
        let (op, inf, lo) = if signed {
            ("dm_i", if rng.chance(3, 4) { imax } else { 50 + rng.below(50) as i128 }, imin)
        } else {
            ("dm_u", if rng.chance(3, 4) { umax } else { 50 + rng.below(50) as i128 }, 0)
        };
        let (mut ws, _) = gen_matrix(rng, n, inf, lo, signed);
        // entries must not exceed infinity (the property's hypothesis) …
        for w in ws.iter_mut() {
            if w.2 > inf { w.2 = inf; }
        }
        // … except in a small correspondence-only stream
        if inf < 1000 && rng.chance(1, 6) && !ws.is_empty() {
            let i = rng.below(ws.len());
            ws[i].2 = inf + 1 + rng.below(3) as i128;
            if rng.chance(1, 3) {
                for w in ws.iter_mut() { w.2 = inf + 1; }
            }
        }
        emit(format!("{op} {n} {inf} {} {}", show_ws(&ws), gen_reads(rng, n)));
    }
    // (3) matrices produced by the real FloydWarshall
    let n_fw = if thorough { 10_000 } else { 800 };
    for _ in 0..n_fw {
        let max = if rng.chance(1, 8) { 40 } else { 12 };
        // negative weights (negative circuits make entries shrink geometrically) only on small orders
        let (lo, hi) = match rng.below(4) { 0 => (1, 1), 1 => (0, 3), 2 => (1, 100), _ => if max <= 12 { (-3, 20) } else { (0, 9) } };
        let (_, d) = graphs::gen_wdesc(rng, "wi", max, lo, hi);
        emit(format!("dm_fw {}", d.to_v()));
    }
}
