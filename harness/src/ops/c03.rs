//! C03 (+ the DijkstraPred half of C05) — ops evaluated on the real code and their generator.
//!
//!   dijkstra_all       <wu-desc> <sources>        => [v…] [[v d]…] [dist…]
//!        item sequence of `Dijkstra`, item sequence of `DijkstraDist`, `DijkstraDist::distances()`
//!   dijkstra_pred_tree <wu-desc> <sources>        => [[p v]…] [pred…]
//!        item sequence of `DijkstraPred`, `DijkstraPred::predecessors()`
//!   dijkstra_pred_sp   <wu-desc> <sources> <tgt>  => none | [path]
//!        `DijkstraPred::shortest_path(tgt)`;  `tgt` ∈ `[in [ids]] always never`
//!
//!   dijkstra_repoll    <wu-desc> <sources> <k>    => [v…] [after…] [[v d]…] [dist…] [dist…] nx [pred…] pn [pred…]
//!        state carried between calls (round 2): `Dijkstra` polled until `None` and then 3 more times
//!        (`after`); ONE `DijkstraDist`: `k` items by `next()`, then `distances()` twice, then `next()`;
//!        ONE `DijkstraPred`: `predecessors()`, `next()`, `predecessors()` again. The sources are
//!        passed as lazy iterators (`filter`, `map_while`, `take_while`: size hints 0 / inexact).
//!
//! Every other observation uses a fresh iterator on the same digraph. `usize::MAX` is printed as is.
//! Weights travel as i128 protocol integers and are converted with `usize::try_from` (`build_wu`),
//! so the whole `usize` range is available; generated digraphs keep the sum of ALL arc weights
//! ≤ 2^64 - 2, hence every `dist[u] + w` the code can form fits and never equals the sentinel.
#![allow(unused_imports, dead_code, clippy::all)]

use crate::graphs::{self, Desc};
use crate::rng::Rng;
use crate::value::V;
use graaf::{Dijkstra, DijkstraDist, DijkstraPred};
use std::collections::BTreeSet;

fn parse(args: &[V]) -> Option<(Desc, Vec<usize>)> {
    let d = Desc::parse(args.first()?)?;
    if d.repr != "wu" {
        return None;
    }
    let s = args.get(1)?.as_usizes()?;
    Some((d, s))
}

/// A correct iterator yields at most `order` items. Item sequences are cut after this many items
/// so that an implementation that never stops yielding is reported (`overrun`) instead of hanging
/// the harness; the calls that drain the iterator internally are skipped in that case.
fn item_bound(d: &Desc) -> usize {
    2 * d.order() + 2
}

pub fn eval(op: &str, args: &[V]) -> Option<Vec<V>> {
    match op {
        "dijkstra_all" => {
            if args.len() != 2 {
                return None;
            }
            let (d, s) = parse(args)?;
            let g = d.build_wu();
            let bound = item_bound(&d);
            let it: Vec<usize> = Dijkstra::new(&g, s.iter().copied()).take(bound).collect();
            let di: Vec<(usize, usize)> = DijkstraDist::new(&g, s.iter().copied()).take(bound).collect();
            // `distances()` drains the iterator itself: only call it when the iterator is known to end
            let ds = if di.len() > d.order() {
                V::atom("overrun")
            } else {
                V::us(DijkstraDist::new(&g, s.iter().copied()).distances())
            };
            Some(vec![V::us(it), V::pairs(di), ds])
        }
        "dijkstra_pred_tree" => {
            if args.len() != 2 {
                return None;
            }
            let (d, s) = parse(args)?;
            let g = d.build_wu();
            let items: Vec<(Option<usize>, usize)> =
                DijkstraPred::new(&g, s.iter().copied()).take(item_bound(&d)).collect();
            let items_v = V::L(items.iter().map(|&(p, v)| V::L(vec![V::opt_u(p), V::u(v)])).collect());
            if items.len() > d.order() {
                return Some(vec![items_v, V::atom("overrun")]);
            }
            let tree = DijkstraPred::new(&g, s.iter().copied()).predecessors();
            let pred: Vec<Option<usize>> = tree.into_iter().collect();
            Some(vec![items_v, V::L(pred.iter().map(|p| V::opt_u(*p)).collect())])
        }
        "dijkstra_repoll" => {
            if args.len() != 3 {
                return None;
            }
            let (d, s) = parse(args)?;
            let k = args[2].as_usize()?;
            let g = d.build_wu();
            let bound = item_bound(&d);
            // 1. Dijkstra: poll until None, then three more polls
            let mut it = Dijkstra::new(&g, s.iter().copied().filter(|_| true));
            let mut items = vec![];
            let mut ended = false;
            for _ in 0..bound {
                match it.next() {
                    Some(v) => items.push(v),
                    None => {
                        ended = true;
                        break;
                    }
                }
            }
            if !ended || items.len() > d.order() {
                return Some(vec![V::us(items), V::atom("overrun")]);
            }
            let after: Vec<V> = (0..3).map(|_| it.next().map_or_else(V::none, V::u)).collect();
            // 2. one DijkstraDist object: k items, distances() twice, next()
            let mut dd = DijkstraDist::new(&g, s.iter().copied().map_while(Some));
            let first: Vec<(usize, usize)> = dd.by_ref().take(k).collect();
            let d1 = dd.distances();
            let d2 = dd.distances();
            let nx = dd.next().map_or_else(V::none, |(v, w)| V::us([v, w]));
            // 3. one DijkstraPred object: predecessors(), next(), predecessors()
            let mut dp = DijkstraPred::new(&g, s.iter().copied().take_while(|_| true));
            let p1: Vec<Option<usize>> = dp.predecessors().into_iter().collect();
            let pn = dp.next().map_or_else(V::none, |(p, v)| V::L(vec![V::opt_u(p), V::u(v)]));
            let p2: Vec<Option<usize>> = dp.predecessors().into_iter().collect();
            let ov = |p: &[Option<usize>]| V::L(p.iter().map(|x| V::opt_u(*x)).collect());
            Some(vec![V::us(items), V::L(after), V::pairs(first), V::us(d1), V::us(d2), nx, ov(&p1), pn, ov(&p2)])
        }
        "dijkstra_pred_sp" => {
            if args.len() != 3 {
                return None;
            }
            let (d, s) = parse(args)?;
            let g = d.build_wu();
            if DijkstraPred::new(&g, s.iter().copied()).take(item_bound(&d)).count() > d.order() {
                return Some(vec![V::atom("overrun")]);
            }
            let mut it = DijkstraPred::new(&g, s.iter().copied());
            let r = match &args[2] {
                V::A(a) if a == "always" => it.shortest_path(|_| true),
                V::A(a) if a == "never" => it.shortest_path(|_| false),
                V::L(xs) if xs.len() == 2 && xs[0].as_atom() == Some("in") => {
                    let ts = xs[1].as_usizes()?;
                    it.shortest_path(|v| ts.contains(&v))
                }
                _ => return None,
            };
            Some(vec![r.map_or_else(V::none, V::us)])
        }
        _ => None,
    }
}

// ------------------------------------------------------------------------------ generator

fn wu(n: usize, arcs: &[(usize, usize, u64)]) -> Desc {
    Desc {
        repr: "wu".to_string(),
        verts: (0..n).collect(),
        arcs: arcs.iter().map(|&(u, v, _)| (u, v)).collect(),
        weights: arcs.iter().map(|&(_, _, w)| i128::from(w)).collect(),
    }
}

/// Weight styles: many zeros / small with ties / wide range (sums stay far below 2^40).
fn gen_weight(rng: &mut Rng, style: usize) -> u64 {
    match style {
        0 => {
            // 0..9 with many zeros
            if rng.chance(2, 5) { 0 } else { rng.range(0, 9) as u64 }
        }
        1 => rng.range(1, 3) as u64,          // small positive: many ties
        2 => rng.range(0, 9) as u64,
        3 => {
            // wide range, mixed magnitudes
            match rng.below(4) {
                0 => rng.range(0, 9) as u64,
                1 => rng.range(10, 1_000) as u64,
                2 => rng.range(1_000, 1_000_000) as u64,
                _ => rng.range(0, 100_000_000) as u64,
            }
        }
        _ => {
            if rng.chance(1, 2) { 0 } else { 1 }
        }
    }
}

/// Structured families on top of the shared arc generator. Returns (family, description).
fn gen_case(rng: &mut Rng, max_order: usize) -> (&'static str, Desc) {
    // the shared order mixture clips its "large" class to the cap: vary the cap so that the large
    // cases are spread over 41..=max_order instead of all sitting at max_order
    let max_order = if max_order > 41 && rng.chance(2, 3) { 41 + rng.below(max_order - 40) } else { max_order };
    let style = rng.below(5);
    match rng.below(10) {
        // the "superseded heap entry ahead of a pending vertex" pattern, embedded at random ids:
        // a->b heavy, a->c light, c->b light (supersedes), a->e heavier than everything (pending)
        0 | 1 => {
            let n = (4 + rng.below(max_order.saturating_sub(3).max(1))).min(max_order.max(4));
            let mut ids: Vec<usize> = (0..n).collect();
            rng.shuffle(&mut ids);
            let (a, b, c, e) = (ids[0], ids[1], ids[2], ids[3]);
            let light = 1 + rng.below(3) as u64;
            let heavy = 2 * light + 1 + rng.below(8) as u64;
            let pending = heavy + 1 + rng.below(10) as u64;
            let mut arcs = vec![(a, b, heavy), (a, c, light), (c, b, rng.below(light as usize + 1) as u64), (a, e, pending)];
            // some extra random arcs out of the other vertices
            let mut seen: BTreeSet<(usize, usize)> = arcs.iter().map(|&(u, v, _)| (u, v)).collect();
            for _ in 0..rng.below(2 * n) {
                let (u, v) = (rng.below(n), rng.below(n));
                if u != v && seen.insert((u, v)) {
                    arcs.push((u, v, gen_weight(rng, style)));
                }
            }
            rng.shuffle(&mut arcs);
            ("stale-pattern", wu(n, &arcs))
        }
        // chain of diamonds with a late shortcut: u -> a (heavy), u -> b (light), b -> a (light), a -> next
        2 => {
            let k = 1 + rng.below((max_order / 3).max(1).min(8));
            let n = 3 * k + 1;
            let mut arcs = vec![];
            for i in 0..k {
                let (u, a, b, nx) = (3 * i, 3 * i + 1, 3 * i + 2, 3 * i + 3);
                let l1 = gen_weight(rng, 2);
                let l2 = gen_weight(rng, 2);
                arcs.push((u, a, l1 + l2 + 1 + rng.below(5) as u64));
                arcs.push((u, b, l1));
                arcs.push((b, a, l2));
                arcs.push((a, nx, gen_weight(rng, style)));
                if rng.chance(1, 2) {
                    arcs.push((u, nx, 30 + rng.below(30) as u64));
                }
            }
            rng.shuffle(&mut arcs);
            ("diamond-chain", wu(n, &arcs))
        }
        // zero-weight cycle(s) with exits
        3 => {
            let n = (3 + rng.below(max_order.saturating_sub(2).max(1))).min(max_order.max(3));
            let len = 2 + rng.below(n - 1);
            let mut arcs = vec![];
            for i in 0..len {
                arcs.push((i, (i + 1) % len, 0));
            }
            let mut seen: BTreeSet<(usize, usize)> = arcs.iter().map(|&(u, v, _)| (u, v)).collect();
            for _ in 0..rng.below(2 * n + 1) {
                let (u, v) = (rng.below(n), rng.below(n));
                if u != v && seen.insert((u, v)) {
                    arcs.push((u, v, gen_weight(rng, style)));
                }
            }
            rng.shuffle(&mut arcs);
            ("zero-cycle", wu(n, &arcs))
        }
        // all weights equal: pure tie-breaking
        4 => {
            let (_, mut d) = graphs::gen_wdesc(rng, "wu", max_order, 0, 0);
            let w = i128::from(rng.range(0, 2));
            for x in &mut d.weights {
                *x = w;
            }
            ("uniform-weight", d)
        }
        _ => {
            let (name, mut d) = graphs::gen_wdesc(rng, "wu", max_order, 0, 0);
            d.weights = d.arcs.iter().map(|_| i128::from(gen_weight(rng, style))).collect();
            (name, d)
        }
    }
}

// ---- round 2: out-of-distribution families -------------------------------------------------
// Invariant of every family: the sum of ALL arc weights is ≤ 2^64 - 2 (`WSUM`), so every sum
// `dist[u] + w` the code can form (dist[u] is the weight of a simple path) fits in `usize` and
// is never the sentinel `usize::MAX`.

const WSUM: u64 = u64::MAX - 1;

/// Transitive tournament `i -> j` (`i < j`, `j - i <= window`) with convex weights
/// `scale * (j-i)^2 / div`: every relaxation improves its head, so the lazy-deletion heap grows to
/// Θ(n²) entries (≫ 16·order for n ≥ 60) and almost every pop is a superseded entry.
fn convex_tournament(n: usize, window: usize, scale: u64, div: u64) -> Desc {
    let mut arcs = vec![];
    for i in 0..n {
        for j in (i + 1)..n.min(i + 1 + window) {
            let k = (j - i) as u64;
            arcs.push((i, j, scale * k * k / div));
        }
    }
    wu(n, &arcs)
}

/// Small digraph whose weights use the whole `usize` range.  A backbone path of 1..=4 arcs gets a
/// random partition of a budget `B` ∈ {WSUM, WSUM/2, …} (so its end lies at distance ≈ B: above
/// 2^63 half of the time, above 2^62 three quarters of the time); the other arcs share what is
/// left of `WSUM`, so the sum of all weights is ≤ WSUM and every path sum fits.
fn huge_small(rng: &mut Rng) -> (Desc, usize) {
    let n = 2 + rng.below(7);
    let mut ids: Vec<usize> = (0..n).collect();
    rng.shuffle(&mut ids);
    let len = 1 + rng.below(n - 1).min(3);
    let mut others: BTreeSet<(usize, usize)> = BTreeSet::new();
    for _ in 0..rng.below(n + 1) {
        let (u, v) = (rng.below(n), rng.below(n));
        if u != v && !(0..len).any(|i| (ids[i], ids[i + 1]) == (u, v)) {
            let _ = others.insert((u, v));
        }
    }
    // budget of the backbone; keep at least 2^20 per other arc in reserve
    let reserve = (others.len() as u64) << 20;
    let budget = match rng.below(8) {
        0..=3 => WSUM - reserve,
        4 | 5 => (WSUM >> 1) + rng.below(3) as u64, // around 2^63 - 1 (the isize::MAX boundary)
        6 => (1u64 << 62) + rng.below(2) as u64,
        _ => 1u64 << (40 + rng.below(22)),
    };
    let mut arcs: Vec<(usize, usize, u64)> = vec![];
    let mut left = budget;
    for i in 0..len {
        let w = if i + 1 == len {
            left
        } else {
            match rng.below(4) {
                0 => left / 2,
                1 => left - left / 4,
                2 => rng.below(10) as u64,
                _ => rng.next() % (left + 1),
            }
        };
        left -= w;
        arcs.push((ids[i], ids[i + 1], w));
    }
    let rest = WSUM - budget;
    let cap = if others.is_empty() { 0 } else { rest / others.len() as u64 };
    for (u, v) in others {
        let w = match rng.below(6) {
            0 => cap,
            1 => cap / 2,
            2 | 3 => (rng.below(10) as u64).min(cap),
            4 => (1u64 << (20 + rng.below(40))).min(cap),
            _ => (rng.next() >> rng.below(40)).min(cap),
        };
        arcs.push((u, v, w));
    }
    rng.shuffle(&mut arcs);
    (wu(n, &arcs), ids[0])
}

/// Long path (33..=max_n vertices) with a few forward chords; equal huge weights `WSUM/m >> k`:
/// distances climb to 2^57 … 2^64 on orders where a packed/shifted key has few spare bits.
fn huge_path(rng: &mut Rng, max_n: usize) -> Desc {
    let n = 33 + rng.below(max_n - 32);
    let chords = rng.below(n / 4 + 1);
    let m = (n - 1 + chords) as u64;
    let w = (WSUM / m) >> rng.below(12);
    let mut arcs: Vec<(usize, usize, u64)> = (0..n - 1).map(|i| (i, i + 1, w - rng.below(2) as u64)).collect();
    let mut seen: BTreeSet<(usize, usize)> = arcs.iter().map(|&(u, v, _)| (u, v)).collect();
    for _ in 0..chords {
        let u = rng.below(n - 2);
        let v = u + 2 + rng.below((n - u - 2).min(6));
        if v < n && seen.insert((u, v)) {
            // a chord is never cheaper than half the path it skips: the long path stays relevant
            arcs.push((u, v, w));
        }
    }
    rng.shuffle(&mut arcs);
    wu(n, &arcs)
}

/// Order 60..=max_n, about three arcs per vertex (plus a spanning path half of the time).
fn big_sparse(rng: &mut Rng, max_n: usize) -> Desc {
    let n = 60 + rng.below(max_n - 59);
    let style = rng.below(5);
    let mut seen: BTreeSet<(usize, usize)> = BTreeSet::new();
    let mut arcs = vec![];
    if rng.chance(1, 2) {
        for i in 0..n - 1 {
            let _ = seen.insert((i, i + 1));
            arcs.push((i, i + 1, gen_weight(rng, style)));
        }
    }
    for _ in 0..3 * n {
        let (u, v) = (rng.below(n), rng.below(n));
        if u != v && seen.insert((u, v)) {
            arcs.push((u, v, gen_weight(rng, style)));
        }
    }
    rng.shuffle(&mut arcs);
    wu(n, &arcs)
}

/// Dense digraph (order 10..=40) with tiny weights incl. zeros: heap > 2·order together with
/// distance ties and zero-weight arcs out of the vertex being settled.
fn dense_ties(rng: &mut Rng) -> Desc {
    let n = 10 + rng.below(31);
    let hi = 1 + rng.below(6) as u64;
    let mut arcs = vec![];
    for u in 0..n {
        for v in 0..n {
            if u != v && rng.chance(4, 5) {
                // descending ids are cheap: late improvements, many superseded entries
                let w = if v < u { rng.below(2) as u64 } else { rng.below(hi as usize + 1) as u64 + (v - u) as u64 };
                arcs.push((u, v, w));
            }
        }
    }
    rng.shuffle(&mut arcs);
    wu(n, &arcs)
}

fn ood_sources(rng: &mut Rng, d: &Desc) -> Vec<usize> {
    match rng.below(4) {
        0 | 1 => vec![0],
        2 => vec![rng.below(d.order())],
        _ => graphs::gen_sources(rng, d.order()),
    }
}

/// One out-of-distribution case; `size` scales orders (1 = quick, 2 = thorough, 3 = stress).
fn gen_ood(rng: &mut Rng, size: usize) -> (Desc, Vec<usize>) {
    let max_n = [100, 160, 300][size - 1];
    match rng.below(32) {
        0..=11 => {
            let (d, start) = huge_small(rng);
            let s = if rng.chance(3, 4) { vec![start] } else { ood_sources(rng, &d) };
            (d, s)
        }
        12..=15 => {
            let d = huge_path(rng, max_n);
            let s = if rng.chance(3, 4) { vec![0] } else { ood_sources(rng, &d) };
            (d, s)
        }
        16..=23 => {
            let d = dense_ties(rng);
            let s = ood_sources(rng, &d);
            (d, s)
        }
        24..=29 => {
            let d = big_sparse(rng, max_n);
            let s = ood_sources(rng, &d);
            (d, s)
        }
        _ => {
            let n = [30, 48, 70][size - 1] + rng.below([20, 30, 60][size - 1]);
            let window = if rng.chance(2, 3) { n } else { 8 + rng.below(n / 2) };
            let (scale, div) = *rng.pick(&[(1u64, 1u64), (1, 1), (3, 1), (1, 2), (1u64 << 30, 1), (1, 4)]);
            let d = convex_tournament(n, window, scale, div);
            let s = if rng.chance(3, 4) { vec![0] } else { vec![0, rng.below(n)] };
            let mut s = s;
            s.dedup();
            (d, s)
        }
    }
}

fn emit_ood(rng: &mut Rng, size: usize, count: usize, emit: &mut dyn FnMut(String)) {
    for i in 0..count {
        let (d, s) = gen_ood(rng, size);
        let (dv, sv) = (d.to_v(), show_sources(&s));
        match i % 8 {
            0..=3 => emit(format!("dijkstra_all {dv} {sv}")),
            4 => emit(format!("dijkstra_pred_tree {dv} {sv}")),
            5 | 6 => emit(format!("dijkstra_pred_sp {dv} {sv} {}", gen_tgt(rng, &d, &s))),
            _ => emit(format!("dijkstra_repoll {dv} {sv} {}", repoll_k(rng, d.order()))),
        }
    }
}

/// The stress stream (failing-input search after a broken tie): most promising cases first.
fn gen_stress(rng: &mut Rng, emit: &mut dyn FnMut(String)) {
    // (1) heaps ≫ order: convex tournaments 60..200 (a handful: the model pops Θ(n²) entries)
    for &n in &[60usize, 100, 80, 130, 160, 200] {
        let d = convex_tournament(n, n, 1, 1);
        emit(format!("dijkstra_all {} [0]", d.to_v()));
        if n <= 100 {
            emit(format!("dijkstra_pred_tree {} [0]", d.to_v()));
            emit(format!("dijkstra_repoll {} [0] {}", d.to_v(), n / 2));
        }
    }
    // (2) the whole usize range on small digraphs and long paths; dense ties; big sparse
    emit_ood(rng, 3, 3_000, emit);
    // (3) state carried between calls on ordinary cases
    for _ in 0..1_000 {
        let (_, d) = gen_case(rng, MAX_ORDER);
        let s = graphs::gen_sources(rng, d.order());
        emit(format!("dijkstra_repoll {} {} {}", d.to_v(), show_sources(&s), repoll_k(rng, d.order())));
    }
}

/// `k` of `dijkstra_repoll`: nothing / a part / everything consumed before `distances()`.
fn repoll_k(rng: &mut Rng, n: usize) -> usize {
    if rng.chance(1, 4) { 0 } else { rng.below(n + 2) }
}

fn show_sources(s: &[usize]) -> V {
    V::us(s.iter().copied())
}

/// Vertices reachable from the sources (generator-side helper to aim targets; plain DFS).
fn reachable(d: &Desc, sources: &[usize]) -> Vec<usize> {
    let n = d.order();
    let mut seen = vec![false; n];
    let mut stack: Vec<usize> = sources.to_vec();
    for &s in sources {
        seen[s] = true;
    }
    while let Some(u) = stack.pop() {
        for &(a, b) in &d.arcs {
            if a == u && !seen[b] {
                seen[b] = true;
                stack.push(b);
            }
        }
    }
    (0..n).filter(|&v| seen[v]).collect()
}

fn gen_tgt(rng: &mut Rng, d: &Desc, sources: &[usize]) -> V {
    let n = d.order();
    let reach = reachable(d, sources);
    let far: Vec<usize> = reach.iter().copied().filter(|v| !sources.contains(v)).collect();
    let tin = |ts: Vec<usize>| V::L(vec![V::atom("in"), V::us(ts)]);
    match rng.below(20) {
        0 | 1 => V::atom("never"),
        2 => V::atom("always"),
        3 | 4 if !sources.is_empty() => {
            // a source is itself a target (among others)
            let mut ts = vec![*rng.pick(sources)];
            if rng.chance(1, 2) {
                ts.push(rng.below(n));
            }
            tin(ts)
        }
        5..=7 => tin(vec![rng.below(n)]),
        8..=11 if !far.is_empty() => tin(vec![*rng.pick(&far)]),
        12..=15 if far.len() >= 2 => {
            // several reachable targets compete (plus possibly unreachable / absent ids)
            let k = 2 + rng.below(3);
            let mut ts: Vec<usize> = (0..k).map(|_| *rng.pick(&far)).collect();
            if rng.chance(1, 3) {
                ts.push(rng.below(n + 1));
            }
            tin(ts)
        }
        _ => {
            let k = 2 + rng.below(4);
            tin((0..k).map(|_| rng.below(n + 1)).collect())
        }
    }
}

const MAX_ORDER: usize = 60;

pub fn gen(rng: &mut Rng, thorough: bool, emit: &mut dyn FnMut(String)) {
    if crate::stress() {
        // the search wants a failing input fast: only the out-of-distribution stream
        gen_stress(rng, emit);
        return;
    }
    // round 2: a share of out-of-distribution cases (usize-range weights, heaps ≫ order, orders up
    // to 100 / 160, dense ties) and of state-carried-between-calls cases in the ordinary tiers
    {
        let mut sub = rng.fork();
        emit_ood(&mut sub, if thorough { 2 } else { 1 }, if thorough { 3_000 } else { 320 }, emit);
        for _ in 0..(if thorough { 4_000 } else { 120 }) {
            let (_, d) = gen_case(&mut sub, MAX_ORDER);
            let s = graphs::gen_sources(&mut sub, d.order());
            emit(format!("dijkstra_repoll {} {} {}", d.to_v(), show_sources(&s), repoll_k(&mut sub, d.order())));
        }
    }
    let n_random = if thorough { 40_000 } else { 700 };
    for _ in 0..n_random {
        let (_, d) = gen_case(rng, MAX_ORDER);
        let s = graphs::gen_sources(rng, d.order());
        emit(format!("dijkstra_all {} {}", d.to_v(), show_sources(&s)));
    }
    if thorough {
        exhaustive4(rng, 120_000, &mut |d, s| emit(format!("dijkstra_all {} {}", d.to_v(), show_sources(s))));
    }
    // the DijkstraPred ops are part of C05's run; a share of them runs here too
    let mut sub = rng.fork();
    gen_pred_n(&mut sub, if thorough { 40_000 } else { 500 }, false, emit);
}

/// All digraphs on 4 vertices with arc weights from {0,1,3}: each ordered pair is absent or
/// carries one of the three weights (4^12 ≈ 1.7e7 digraphs) — sampled uniformly within `budget`,
/// every sample with a random non-empty source subset; plus the complete enumeration of the
/// 3-vertex scope (4^6 = 4096 digraphs × 7 non-empty source subsets when the budget allows).
fn exhaustive4(rng: &mut Rng, budget: usize, out: &mut dyn FnMut(&Desc, &[usize])) {
    const W: [u64; 3] = [0, 1, 3];
    let pairs3: Vec<(usize, usize)> = (0..3).flat_map(|u| (0..3).filter(move |&v| v != u).map(move |v| (u, v))).collect();
    for code in 0..4usize.pow(6) {
        let mut c = code;
        let mut arcs = vec![];
        for &(u, v) in &pairs3 {
            let k = c % 4;
            c /= 4;
            if k > 0 {
                arcs.push((u, v, W[k - 1]));
            }
        }
        let d = wu(3, &arcs);
        for mask in 1..8usize {
            let s: Vec<usize> = (0..3).filter(|i| mask >> i & 1 == 1).collect();
            out(&d, &s);
        }
    }
    let pairs4: Vec<(usize, usize)> = (0..4).flat_map(|u| (0..4).filter(move |&v| v != u).map(move |v| (u, v))).collect();
    for _ in 0..budget.saturating_sub(4096 * 7) {
        let mut arcs = vec![];
        for &(u, v) in &pairs4 {
            let k = rng.below(4);
            if k > 0 {
                arcs.push((u, v, W[k - 1]));
            }
        }
        let d = wu(4, &arcs);
        let mask = 1 + rng.below(15);
        let mut s: Vec<usize> = (0..4).filter(|i| mask >> i & 1 == 1).collect();
        rng.shuffle(&mut s);
        out(&d, &s);
    }
}

fn gen_pred_n(rng: &mut Rng, n_random: usize, exhaustive: bool, emit: &mut dyn FnMut(String)) {
    for _ in 0..n_random {
        let (_, d) = gen_case(rng, MAX_ORDER);
        let s = graphs::gen_sources(rng, d.order());
        if rng.chance(1, 3) {
            emit(format!("dijkstra_pred_tree {} {}", d.to_v(), show_sources(&s)));
        } else {
            let tgt = gen_tgt(rng, &d, &s);
            emit(format!("dijkstra_pred_sp {} {} {}", d.to_v(), show_sources(&s), tgt));
        }
    }
    if exhaustive {
        let mut sub = rng.fork();
        let mut r2 = rng.fork();
        exhaustive4(&mut sub, 40_000, &mut |d, s| {
            if r2.chance(1, 2) {
                emit(format!("dijkstra_pred_tree {} {}", d.to_v(), show_sources(s)));
            } else {
                let tgt = gen_tgt(&mut r2, d, s);
                emit(format!("dijkstra_pred_sp {} {} {}", d.to_v(), show_sources(s), tgt));
            }
        });
    }
}

/// `DijkstraPred` cases (predecessors / shortest_path); also part of C05's run.
pub fn gen_pred(rng: &mut Rng, thorough: bool, emit: &mut dyn FnMut(String)) {
    if crate::stress() {
        // C05's search: the pred ops on the out-of-distribution families
        for &n in &[60usize, 100] {
            let d = convex_tournament(n, n, 1, 1);
            emit(format!("dijkstra_pred_tree {} [0]", d.to_v()));
            emit(format!("dijkstra_pred_sp {} [0] [in [{}]]", d.to_v(), n - 1));
        }
        for i in 0..3_000 {
            let (d, s) = gen_ood(rng, 3);
            let (dv, sv) = (d.to_v(), show_sources(&s));
            match i % 4 {
                0 => emit(format!("dijkstra_pred_tree {dv} {sv}")),
                1 | 2 => emit(format!("dijkstra_pred_sp {dv} {sv} {}", gen_tgt(rng, &d, &s))),
                _ => emit(format!("dijkstra_repoll {dv} {sv} {}", repoll_k(rng, d.order()))),
            }
        }
        return;
    }
    {
        let mut sub = rng.fork();
        for i in 0..(if thorough { 2_000 } else { 90 }) {
            let (d, s) = gen_ood(&mut sub, if thorough { 2 } else { 1 });
            let (dv, sv) = (d.to_v(), show_sources(&s));
            if i % 3 == 0 {
                emit(format!("dijkstra_pred_tree {dv} {sv}"));
            } else {
                emit(format!("dijkstra_pred_sp {dv} {sv} {}", gen_tgt(&mut sub, &d, &s)));
            }
        }
    }
    gen_pred_n(rng, if thorough { 10_000 } else { 400 }, thorough, emit);
}
