//! C03 — ops evaluated on the real code and the generator of their inputs.
#![allow(unused_imports, dead_code, clippy::all)]

use crate::graphs::{self, Desc};
use crate::rng::Rng;
use crate::value::V;

pub fn eval(_op: &str, _args: &[V]) -> Option<Vec<V>> {
    None
}

pub fn gen(_rng: &mut Rng, _thorough: bool, _emit: &mut dyn FnMut(String)) {}

/// `DijkstraPred` cases (predecessors / shortest_path); also part of C05's run.
pub fn gen_pred(_rng: &mut Rng, _thorough: bool, _emit: &mut dyn FnMut(String)) {}
