//! C03 (+ the DijkstraPred half of C05) — ops evaluated on the real code and their generator.
//!
//!   dijkstra_all       <wu-desc> <sources>        => [v…] [[v d]…] [dist…]
//!        item sequence of `Dijkstra`, item sequence of `DijkstraDist`, `DijkstraDist::distances()`
//!   dijkstra_pred_tree <wu-desc> <sources>        => [[p v]…] [pred…]
//!        item sequence of `DijkstraPred`, `DijkstraPred::predecessors()`
//!   dijkstra_pred_sp   <wu-desc> <sources> <tgt>  => none | [path]
//!        `DijkstraPred::shortest_path(tgt)`;  `tgt` ∈ `[in [ids]] always never`
//!
//! Every observation uses a fresh iterator on the same digraph. `usize::MAX` is printed as is.
#![allow(unused_imports, dead_code, clippy::all)]

use crate::graphs::{self, Desc};
use crate::rng::Rng;
use crate::value::V;
use graaf::{Dijkstra, DijkstraDist, DijkstraPred};
use std::collections::BTreeSet;

fn parse(args: &[V]) -> Option<(Desc, Vec<usize>)> {
    let d = Desc::parse(args.first()?)?;
    if d.repr != "wu" {
        return None;
    }
    let s = args.get(1)?.as_usizes()?;
    Some((d, s))
}

/// A correct iterator yields at most `order` items. Item sequences are cut after this many items
/// so that an implementation that never stops yielding is reported (`overrun`) instead of hanging
/// the harness; the calls that drain the iterator internally are skipped in that case.
fn item_bound(d: &Desc) -> usize {
    2 * d.order() + 2
}

pub fn eval(op: &str, args: &[V]) -> Option<Vec<V>> {
    match op {
        "dijkstra_all" => {
            if args.len() != 2 {
                return None;
            }
            let (d, s) = parse(args)?;
            let g = d.build_wu();
            let bound = item_bound(&d);
            let it: Vec<usize> = Dijkstra::new(&g, s.iter().copied()).take(bound).collect();
            let di: Vec<(usize, usize)> = DijkstraDist::new(&g, s.iter().copied()).take(bound).collect();
            // `distances()` drains the iterator itself: only call it when the iterator is known to end
            let ds = if di.len() > d.order() {
                V::atom("overrun")
            } else {
                V::us(DijkstraDist::new(&g, s.iter().copied()).distances())
            };
            Some(vec![V::us(it), V::pairs(di), ds])
        }
        "dijkstra_pred_tree" => {
            if args.len() != 2 {
                return None;
            }
            let (d, s) = parse(args)?;
            let g = d.build_wu();
            let items: Vec<(Option<usize>, usize)> =
                DijkstraPred::new(&g, s.iter().copied()).take(item_bound(&d)).collect();
            let items_v = V::L(items.iter().map(|&(p, v)| V::L(vec![V::opt_u(p), V::u(v)])).collect());
            if items.len() > d.order() {
                return Some(vec![items_v, V::atom("overrun")]);
            }
            let tree = DijkstraPred::new(&g, s.iter().copied()).predecessors();
            let pred: Vec<Option<usize>> = tree.into_iter().collect();
            Some(vec![items_v, V::L(pred.iter().map(|p| V::opt_u(*p)).collect())])
        }
        "dijkstra_pred_sp" => {
            if args.len() != 3 {
                return None;
            }
            let (d, s) = parse(args)?;
            let g = d.build_wu();
            if DijkstraPred::new(&g, s.iter().copied()).take(item_bound(&d)).count() > d.order() {
                return Some(vec![V::atom("overrun")]);
            }
            let mut it = DijkstraPred::new(&g, s.iter().copied());
            let r = match &args[2] {
                V::A(a) if a == "always" => it.shortest_path(|_| true),
                V::A(a) if a == "never" => it.shortest_path(|_| false),
                V::L(xs) if xs.len() == 2 && xs[0].as_atom() == Some("in") => {
                    let ts = xs[1].as_usizes()?;
                    it.shortest_path(|v| ts.contains(&v))
                }
                _ => return None,
            };
            Some(vec![r.map_or_else(V::none, V::us)])
        }
        _ => None,
    }
}

// ------------------------------------------------------------------------------ generator

fn wu(n: usize, arcs: &[(usize, usize, u64)]) -> Desc {
    Desc {
        repr: "wu".to_string(),
        verts: (0..n).collect(),
        arcs: arcs.iter().map(|&(u, v, _)| (u, v)).collect(),
        weights: arcs.iter().map(|&(_, _, w)| i128::from(w)).collect(),
    }
}

/// Weight styles: many zeros / small with ties / wide range (sums stay far below 2^40).
fn gen_weight(rng: &mut Rng, style: usize) -> u64 {
    match style {
        0 => {
            // 0..9 with many zeros
            if rng.chance(2, 5) { 0 } else { rng.range(0, 9) as u64 }
        }
        1 => rng.range(1, 3) as u64,          // small positive: many ties
        2 => rng.range(0, 9) as u64,
        3 => {
            // wide range, mixed magnitudes
            match rng.below(4) {
                0 => rng.range(0, 9) as u64,
                1 => rng.range(10, 1_000) as u64,
                2 => rng.range(1_000, 1_000_000) as u64,
                _ => rng.range(0, 100_000_000) as u64,
            }
        }
        _ => {
            if rng.chance(1, 2) { 0 } else { 1 }
        }
    }
}

/// Structured families on top of the shared arc generator. Returns (family, description).
fn gen_case(rng: &mut Rng, max_order: usize) -> (&'static str, Desc) {
    // the shared order mixture clips its "large" class to the cap: vary the cap so that the large
    // cases are spread over 41..=max_order instead of all sitting at max_order
    let max_order = if max_order > 41 && rng.chance(2, 3) { 41 + rng.below(max_order - 40) } else { max_order };
    let style = rng.below(5);
    match rng.below(10) {
        // the "superseded heap entry ahead of a pending vertex" pattern, embedded at random ids:
        // a->b heavy, a->c light, c->b light (supersedes), a->e heavier than everything (pending)
        0 | 1 => {
            let n = (4 + rng.below(max_order.saturating_sub(3).max(1))).min(max_order.max(4));
            let mut ids: Vec<usize> = (0..n).collect();
            rng.shuffle(&mut ids);
            let (a, b, c, e) = (ids[0], ids[1], ids[2], ids[3]);
            let light = 1 + rng.below(3) as u64;
            let heavy = 2 * light + 1 + rng.below(8) as u64;
            let pending = heavy + 1 + rng.below(10) as u64;
            let mut arcs = vec![(a, b, heavy), (a, c, light), (c, b, rng.below(light as usize + 1) as u64), (a, e, pending)];
            // some extra random arcs out of the other vertices
            let mut seen: BTreeSet<(usize, usize)> = arcs.iter().map(|&(u, v, _)| (u, v)).collect();
            for _ in 0..rng.below(2 * n) {
                let (u, v) = (rng.below(n), rng.below(n));
                if u != v && seen.insert((u, v)) {
                    arcs.push((u, v, gen_weight(rng, style)));
                }
            }
            rng.shuffle(&mut arcs);
            ("stale-pattern", wu(n, &arcs))
        }
        // chain of diamonds with a late shortcut: u -> a (heavy), u -> b (light), b -> a (light), a -> next
        2 => {
            let k = 1 + rng.below((max_order / 3).max(1).min(8));
            let n = 3 * k + 1;
            let mut arcs = vec![];
            for i in 0..k {
                let (u, a, b, nx) = (3 * i, 3 * i + 1, 3 * i + 2, 3 * i + 3);
                let l1 = gen_weight(rng, 2);
                let l2 = gen_weight(rng, 2);
                arcs.push((u, a, l1 + l2 + 1 + rng.below(5) as u64));
                arcs.push((u, b, l1));
                arcs.push((b, a, l2));
                arcs.push((a, nx, gen_weight(rng, style)));
                if rng.chance(1, 2) {
                    arcs.push((u, nx, 30 + rng.below(30) as u64));
                }
            }
            rng.shuffle(&mut arcs);
            ("diamond-chain", wu(n, &arcs))
        }
        // zero-weight cycle(s) with exits
        3 => {
            let n = (3 + rng.below(max_order.saturating_sub(2).max(1))).min(max_order.max(3));
            let len = 2 + rng.below(n - 1);
            let mut arcs = vec![];
            for i in 0..len {
                arcs.push((i, (i + 1) % len, 0));
            }
            let mut seen: BTreeSet<(usize, usize)> = arcs.iter().map(|&(u, v, _)| (u, v)).collect();
            for _ in 0..rng.below(2 * n + 1) {
                let (u, v) = (rng.below(n), rng.below(n));
                if u != v && seen.insert((u, v)) {
                    arcs.push((u, v, gen_weight(rng, style)));
                }
            }
            rng.shuffle(&mut arcs);
            ("zero-cycle", wu(n, &arcs))
        }
        // all weights equal: pure tie-breaking
        4 => {
            let (_, mut d) = graphs::gen_wdesc(rng, "wu", max_order, 0, 0);
            let w = i128::from(rng.range(0, 2));
            for x in &mut d.weights {
                *x = w;
            }
            ("uniform-weight", d)
        }
        _ => {
            let (name, mut d) = graphs::gen_wdesc(rng, "wu", max_order, 0, 0);
            d.weights = d.arcs.iter().map(|_| i128::from(gen_weight(rng, style))).collect();
            (name, d)
        }
    }
}

fn show_sources(s: &[usize]) -> V {
    V::us(s.iter().copied())
}

/// Vertices reachable from the sources (generator-side helper to aim targets; plain DFS).
fn reachable(d: &Desc, sources: &[usize]) -> Vec<usize> {
    let n = d.order();
    let mut seen = vec![false; n];
    let mut stack: Vec<usize> = sources.to_vec();
    for &s in sources {
        seen[s] = true;
    }
    while let Some(u) = stack.pop() {
        for &(a, b) in &d.arcs {
            if a == u && !seen[b] {
                seen[b] = true;
                stack.push(b);
            }
        }
    }
    (0..n).filter(|&v| seen[v]).collect()
}

fn gen_tgt(rng: &mut Rng, d: &Desc, sources: &[usize]) -> V {
    let n = d.order();
    let reach = reachable(d, sources);
    let far: Vec<usize> = reach.iter().copied().filter(|v| !sources.contains(v)).collect();
    let tin = |ts: Vec<usize>| V::L(vec![V::atom("in"), V::us(ts)]);
    match rng.below(20) {
        0 | 1 => V::atom("never"),
        2 => V::atom("always"),
        3 | 4 if !sources.is_empty() => {
            // a source is itself a target (among others)
            let mut ts = vec![*rng.pick(sources)];
            if rng.chance(1, 2) {
                ts.push(rng.below(n));
            }
            tin(ts)
        }
        5..=7 => tin(vec![rng.below(n)]),
        8..=11 if !far.is_empty() => tin(vec![*rng.pick(&far)]),
        12..=15 if far.len() >= 2 => {
            // several reachable targets compete (plus possibly unreachable / absent ids)
            let k = 2 + rng.below(3);
            let mut ts: Vec<usize> = (0..k).map(|_| *rng.pick(&far)).collect();
            if rng.chance(1, 3) {
                ts.push(rng.below(n + 1));
            }
            tin(ts)
        }
        _ => {
            let k = 2 + rng.below(4);
            tin((0..k).map(|_| rng.below(n + 1)).collect())
        }
    }
}

const MAX_ORDER: usize = 60;

pub fn gen(rng: &mut Rng, thorough: bool, emit: &mut dyn FnMut(String)) {
    let n_random = if thorough { 40_000 } else { 700 };
    for _ in 0..n_random {
        let (_, d) = gen_case(rng, MAX_ORDER);
        let s = graphs::gen_sources(rng, d.order());
        emit(format!("dijkstra_all {} {}", d.to_v(), show_sources(&s)));
    }
    if thorough {
        exhaustive4(rng, 120_000, &mut |d, s| emit(format!("dijkstra_all {} {}", d.to_v(), show_sources(s))));
    }
    // the DijkstraPred ops are part of C05's run; a share of them runs here too
    let mut sub = rng.fork();
    gen_pred_n(&mut sub, if thorough { 40_000 } else { 500 }, false, emit);
}

/// All digraphs on 4 vertices with arc weights from {0,1,3}: each ordered pair is absent or
/// carries one of the three weights (4^12 ≈ 1.7e7 digraphs) — sampled uniformly within `budget`,
/// every sample with a random non-empty source subset; plus the complete enumeration of the
/// 3-vertex scope (4^6 = 4096 digraphs × 7 non-empty source subsets when the budget allows).
fn exhaustive4(rng: &mut Rng, budget: usize, out: &mut dyn FnMut(&Desc, &[usize])) {
    const W: [u64; 3] = [0, 1, 3];
    let pairs3: Vec<(usize, usize)> = (0..3).flat_map(|u| (0..3).filter(move |&v| v != u).map(move |v| (u, v))).collect();
    for code in 0..4usize.pow(6) {
        let mut c = code;
        let mut arcs = vec![];
        for &(u, v) in &pairs3 {
            let k = c % 4;
            c /= 4;
            if k > 0 {
                arcs.push((u, v, W[k - 1]));
            }
        }
        let d = wu(3, &arcs);
        for mask in 1..8usize {
            let s: Vec<usize> = (0..3).filter(|i| mask >> i & 1 == 1).collect();
            out(&d, &s);
        }
    }
    let pairs4: Vec<(usize, usize)> = (0..4).flat_map(|u| (0..4).filter(move |&v| v != u).map(move |v| (u, v))).collect();
    for _ in 0..budget.saturating_sub(4096 * 7) {
        let mut arcs = vec![];
        for &(u, v) in &pairs4 {
            let k = rng.below(4);
            if k > 0 {
                arcs.push((u, v, W[k - 1]));
            }
        }
        let d = wu(4, &arcs);
        let mask = 1 + rng.below(15);
        let mut s: Vec<usize> = (0..4).filter(|i| mask >> i & 1 == 1).collect();
        rng.shuffle(&mut s);
        out(&d, &s);
    }
}

fn gen_pred_n(rng: &mut Rng, n_random: usize, exhaustive: bool, emit: &mut dyn FnMut(String)) {
    for _ in 0..n_random {
        let (_, d) = gen_case(rng, MAX_ORDER);
        let s = graphs::gen_sources(rng, d.order());
        if rng.chance(1, 3) {
            emit(format!("dijkstra_pred_tree {} {}", d.to_v(), show_sources(&s)));
        } else {
            let tgt = gen_tgt(rng, &d, &s);
            emit(format!("dijkstra_pred_sp {} {} {}", d.to_v(), show_sources(&s), tgt));
        }
    }
    if exhaustive {
        let mut sub = rng.fork();
        let mut r2 = rng.fork();
        exhaustive4(&mut sub, 40_000, &mut |d, s| {
            if r2.chance(1, 2) {
                emit(format!("dijkstra_pred_tree {} {}", d.to_v(), show_sources(s)));
            } else {
                let tgt = gen_tgt(&mut r2, d, s);
                emit(format!("dijkstra_pred_sp {} {} {}", d.to_v(), show_sources(s), tgt));
            }
        });
    }
}

/// `DijkstraPred` cases (predecessors / shortest_path); also part of C05's run.
pub fn gen_pred(rng: &mut Rng, thorough: bool, emit: &mut dyn FnMut(String)) {
    gen_pred_n(rng, if thorough { 10_000 } else { 400 }, thorough, emit);
}
