//! C05 (BFS half) — `BfsPred` on the real code, every representation.
//!
//!   bfs_pred_iter          <desc> <sources>        =>  [[pred v] …]       (pred = none | id)
//!   bfs_pred_predecessors  <desc> <sources>        =>  [pred …]
//!   bfs_pred_shortest_path <desc> <sources> <tgt>  =>  none | [v …]
//!   bfs_pred_cycles        <desc> <sources>        =>  [[v …] …]
//!
//! `<tgt>` ∈ `[eq t] [in [..]] never always`.  The `DijkstraPred` half of C05 lives in `c03.rs`.
#![allow(clippy::all)]

use crate::graphs::{self, Desc};
use crate::ops::c04::{for_all_small, gen_case, small_desc};
use crate::rng::Rng;
use crate::value::V;
use crate::with_digraph;
use graaf::BfsPred;

enum Tgt {
    Eq(usize),
    In(Vec<usize>),
    Never,
    Always,
}

fn parse_tgt(v: &V) -> Option<Tgt> {
    match v {
        V::A(a) if a == "never" => Some(Tgt::Never),
        V::A(a) if a == "always" => Some(Tgt::Always),
        V::L(xs) if xs.len() == 2 => match xs[0].as_atom()? {
            "eq" => Some(Tgt::Eq(xs[1].as_usize()?)),
            "in" => Some(Tgt::In(xs[1].as_usizes()?)),
            _ => None,
        },
        _ => None,
    }
}

pub fn eval(op: &str, args: &[V]) -> Option<Vec<V>> {
    match op {
        "bfs_pred_iter" => {
            let [desc, srcs] = args else { return None };
            let desc = Desc::parse(desc)?;
            let srcs = srcs.as_usizes()?;
            let out: Vec<(Option<usize>, usize)> =
                with_digraph!(&desc, d => BfsPred::new(&d, srcs.iter().copied()).collect());
            Some(vec![V::L(out.into_iter().map(|(p, v)| V::L(vec![V::opt_u(p), V::u(v)])).collect())])
        }
        "bfs_pred_predecessors" => {
            let [desc, srcs] = args else { return None };
            let desc = Desc::parse(desc)?;
            let srcs = srcs.as_usizes()?;
            let tree = with_digraph!(&desc, d => BfsPred::new(&d, srcs.iter().copied()).predecessors());
            Some(vec![V::L(tree.pred.iter().map(|e| V::opt_u(*e)).collect())])
        }
        "bfs_pred_shortest_path" => {
            let [desc, srcs, tgt] = args else { return None };
            let desc = Desc::parse(desc)?;
            let srcs = srcs.as_usizes()?;
            let tgt = parse_tgt(tgt)?;
            let r: Option<Vec<usize>> = with_digraph!(&desc, d => {
                let mut it = BfsPred::new(&d, srcs.iter().copied());
                match &tgt {
                    Tgt::Eq(t) => it.shortest_path(|v| v == *t),
                    Tgt::In(ts) => it.shortest_path(|v| ts.contains(&v)),
                    Tgt::Never => it.shortest_path(|_| false),
                    Tgt::Always => it.shortest_path(|_| true),
                }
            });
            Some(vec![r.map_or_else(V::none, V::us)])
        }
        "bfs_pred_cycles" => {
            let [desc, srcs] = args else { return None };
            let desc = Desc::parse(desc)?;
            let srcs = srcs.as_usizes()?;
            let cs: Vec<Vec<usize>> = with_digraph!(&desc, d => BfsPred::new(&d, srcs.iter().copied()).cycles());
            Some(vec![V::L(cs.into_iter().map(V::us).collect())])
        }
        _ => None,
    }
}

/// Target predicates: a single vertex (possibly absent: id = order), small and large sets
/// (several competing targets), unsatisfiable, always (a source is the target).
fn gen_tgt(rng: &mut Rng, n: usize, srcs: &[usize]) -> V {
    // two thirds of the set targets avoid the sources, so that several proper targets compete
    let avoid = rng.chance(2, 3);
    let keep = |v: &usize| !(avoid && srcs.contains(v));
    match rng.below(12) {
        0 => V::atom("never"),
        1 => V::atom("always"),
        2..=4 => V::L(vec![V::atom("eq"), V::u(rng.below(n + 1))]),
        5..=8 => {
            let k = 2 + rng.below(3);
            let ts: Vec<usize> = (0..k).map(|_| rng.below(n + 1)).filter(keep).collect();
            V::L(vec![V::atom("in"), V::us(ts)])
        }
        _ => {
            // a large set: about a third of the vertices
            let ts: Vec<usize> = (0..n).filter(|_| rng.chance(1, 3)).filter(keep).collect();
            V::L(vec![V::atom("in"), V::us(ts)])
        }
    }
}

pub fn gen(rng: &mut Rng, thorough: bool, emit: &mut dyn FnMut(String)) {
    // (1) exhaustive small scope (<= 3 quick, <= 4 thorough): every digraph x every source subset;
    //     ops / representations rotate; shortest_path with every single-vertex target and `always`
    //     on <= 3 vertices.
    let max_n = if thorough { 4 } else { 3 };
    for n in 1..=max_n {
        for_all_small(n, &mut |idx, arcs, srcs| {
            let repr = graphs::ALL_REPRS[idx % 6];
            let d = small_desc(repr, n, arcs).to_v();
            let s = V::us(srcs.iter().copied());
            let all = thorough && n <= 3;
            let k = (idx / 6) % 4;
            if all || k == 0 {
                emit(format!("bfs_pred_iter {d} {s}"));
            }
            if all || k == 1 {
                emit(format!("bfs_pred_predecessors {d} {s}"));
            }
            if all || k == 2 {
                emit(format!("bfs_pred_cycles {d} {s}"));
            }
            if all {
                for t in 0..n {
                    emit(format!("bfs_pred_shortest_path {d} {s} [eq {t}]"));
                }
                emit(format!("bfs_pred_shortest_path {d} {s} always"));
                emit(format!("bfs_pred_shortest_path {d} {s} [in [{} {}]]", n - 1, n / 2));
            } else if k == 3 {
                let t = (idx / 24) % (n + 1);
                if t == n {
                    emit(format!("bfs_pred_shortest_path {d} {s} [in [0 {}]]", n - 1));
                } else {
                    emit(format!("bfs_pred_shortest_path {d} {s} [eq {t}]"));
                }
            }
        });
    }
    // (2) random cases, orders 1..130, all representations
    let n_random = if thorough { 12_000 } else { 600 };
    for _ in 0..n_random {
        let (desc, srcs) = gen_case(rng);
        let n = desc.order();
        let d = desc.to_v();
        let s = V::us(srcs.iter().copied());
        emit(format!("bfs_pred_iter {d} {s}"));
        emit(format!("bfs_pred_predecessors {d} {s}"));
        emit(format!("bfs_pred_cycles {d} {s}"));
        for _ in 0..4 {
            emit(format!("bfs_pred_shortest_path {d} {s} {}", gen_tgt(rng, n, &srcs)));
        }
    }
}
