//! C05 (BFS half) — `BfsPred` on the real code, every representation.
//!
//!   bfs_pred_iter          <desc> <sources> [shape]        =>  [[pred v] …]       (pred = none | id)
//!   bfs_pred_predecessors  <desc> <sources> [shape]        =>  [pred …]
//!   bfs_pred_shortest_path <desc> <sources> <tgt> [shape]  =>  none | [v …]
//!   bfs_pred_cycles        <desc> <sources> [shape]        =>  [[v …] …]
//!   bfs_pred_iter_repoll   <desc> <sources> <k> <extra> [shape]
//!                              =>  [first ≤k items] [rest] [rest of a clone] [extra polls after None]
//!
//! `[shape]` = kind of iterator the sources are handed over as, see `c04.rs` (default `slice`).
//! `<tgt>` ∈ `[eq t] [in [..]] never always`.  The `DijkstraPred` half of C05 lives in `c03.rs`.
#![allow(clippy::all)]

use crate::graphs::{self, Desc};
use crate::ops::c04::{
    for_all_small, gen_case, gen_shape, large_desc, repoll, shape_of, small_desc, SHAPES, STRESS_DENSE, STRESS_ORDERS,
};
use crate::rng::Rng;
use crate::value::V;
use crate::with_digraph;
use graaf::{BfsPred, Order, OutNeighbors};

enum Tgt {
    Eq(usize),
    In(Vec<usize>),
    Never,
    Always,
}

fn parse_tgt(v: &V) -> Option<Tgt> {
    match v {
        V::A(a) if a == "never" => Some(Tgt::Never),
        V::A(a) if a == "always" => Some(Tgt::Always),
        V::L(xs) if xs.len() == 2 => match xs[0].as_atom()? {
            "eq" => Some(Tgt::Eq(xs[1].as_usize()?)),
            "in" => Some(Tgt::In(xs[1].as_usizes()?)),
            _ => None,
        },
        _ => None,
    }
}

enum Job {
    Iter,
    Predecessors,
    ShortestPath(Tgt),
    Cycles,
    Repoll(usize, usize),
}

fn run_job<D, T>(d: &D, it: T, job: &Job) -> Vec<V>
where
    D: Order + OutNeighbors + Clone,
    T: Iterator<Item = usize> + Clone,
{
    let show = |&(p, v): &(Option<usize>, usize)| V::L(vec![V::opt_u(p), V::u(v)]);
    match job {
        Job::Iter => vec![V::L(BfsPred::new(d, it).map(|x| show(&x)).collect())],
        Job::Predecessors => {
            let tree = BfsPred::new(d, it).predecessors();
            vec![V::L(tree.pred.iter().map(|e| V::opt_u(*e)).collect())]
        }
        Job::ShortestPath(tgt) => {
            let mut b = BfsPred::new(d, it);
            let r = match tgt {
                Tgt::Eq(t) => b.shortest_path(|v| v == *t),
                Tgt::In(ts) => b.shortest_path(|v| ts.contains(&v)),
                Tgt::Never => b.shortest_path(|_| false),
                Tgt::Always => b.shortest_path(|_| true),
            };
            vec![r.map_or_else(V::none, V::us)]
        }
        Job::Cycles => vec![V::L(BfsPred::new(d, it).cycles().into_iter().map(V::us).collect())],
        Job::Repoll(k, extra) => repoll(BfsPred::new(d, it), *k, *extra, &show),
    }
}

pub fn eval(op: &str, args: &[V]) -> Option<Vec<V>> {
    let (job, rest) = match op {
        "bfs_pred_iter" => (Job::Iter, args.get(2..)?),
        "bfs_pred_predecessors" => (Job::Predecessors, args.get(2..)?),
        "bfs_pred_cycles" => (Job::Cycles, args.get(2..)?),
        "bfs_pred_shortest_path" => (Job::ShortestPath(parse_tgt(args.get(2)?)?), args.get(3..)?),
        "bfs_pred_iter_repoll" => (Job::Repoll(args.get(2)?.as_usize()?, args.get(3)?.as_usize()?), args.get(4..)?),
        _ => return None,
    };
    if rest.len() > 1 {
        return None;
    }
    let shape = shape_of(rest.first())?;
    let desc = Desc::parse(&args[0])?;
    let srcs = args[1].as_usizes()?;
    let n = desc.order();
    Some(with_digraph!(&desc, d => crate::with_sources!(shape, &srcs, n, it => run_job(&d, it, &job))))
}

/// Target predicates: a single vertex (possibly absent: id = order), small and large sets
/// (several competing targets), unsatisfiable, always (a source is the target).
fn gen_tgt(rng: &mut Rng, n: usize, srcs: &[usize]) -> V {
    // two thirds of the set targets avoid the sources, so that several proper targets compete
    let avoid = rng.chance(2, 3);
    let keep = |v: &usize| !(avoid && srcs.contains(v));
    match rng.below(12) {
        0 => V::atom("never"),
        1 => V::atom("always"),
        2..=4 => V::L(vec![V::atom("eq"), V::u(rng.below(n + 1))]),
        5..=8 => {
            let k = 2 + rng.below(3);
            let ts: Vec<usize> = (0..k).map(|_| rng.below(n + 1)).filter(keep).collect();
            V::L(vec![V::atom("in"), V::us(ts)])
        }
        _ => {
            // a large set: about a third of the vertices
            let ts: Vec<usize> = (0..n).filter(|_| rng.chance(1, 3)).filter(keep).collect();
            V::L(vec![V::atom("in"), V::us(ts)])
        }
    }
}

/// Out-of-distribution stream (only for `gharness gen C05 <seed> stress`), most promising first.
fn gen_stress(rng: &mut Rng, emit: &mut dyn FnMut(String)) {
    for i in 0..400 {
        let (desc, mut srcs) = gen_case(rng);
        let n = desc.order();
        let shape = SHAPES[i % SHAPES.len()];
        if shape == "range_filter" {
            srcs.sort_unstable();
        }
        let d = desc.to_v();
        let s = V::us(srcs.iter().copied());
        emit(format!("bfs_pred_iter {d} {s} {shape}"));
        emit(format!("bfs_pred_predecessors {d} {s} {shape}"));
        emit(format!("bfs_pred_cycles {d} {s} {shape}"));
        emit(format!("bfs_pred_shortest_path {d} {s} {} {shape}", gen_tgt(rng, n, &srcs)));
        emit(format!("bfs_pred_iter_repoll {d} {s} {} {} {shape}", rng.below(n + 2), 1 + rng.below(3)));
    }
    for round in 0..2 {
        for (j, &n) in STRESS_ORDERS.iter().enumerate() {
            let repr = graphs::ALL_REPRS[(j + round * 5) % 6];
            let (desc, mut srcs) = large_desc(rng, repr, n, None);
            let shape = gen_shape(rng, &mut srcs);
            let d = desc.to_v();
            let s = V::us(srcs.iter().copied());
            emit(format!("bfs_pred_iter {d} {s}{shape}"));
            emit(format!("bfs_pred_predecessors {d} {s}{shape}"));
            emit(format!("bfs_pred_cycles {d} {s}{shape}"));
            emit(format!("bfs_pred_shortest_path {d} {s} {}{shape}", gen_tgt(rng, n, &srcs)));
            emit(format!("bfs_pred_shortest_path {d} {s} [eq {}]{shape}", rng.below(n)));
            emit(format!("bfs_pred_iter_repoll {d} {s} {} 2{shape}", rng.below(n)));
        }
    }
    for &(n, dens, repr) in &STRESS_DENSE {
        let (desc, srcs) = large_desc(rng, repr, n, Some(dens));
        let d = desc.to_v();
        let s = V::us(srcs.iter().copied());
        emit(format!("bfs_pred_predecessors {d} {s}"));
        emit(format!("bfs_pred_shortest_path {d} {s} [in [{} {} {}]] filter", rng.below(n), rng.below(n), rng.below(n)));
    }
}

pub fn gen(rng: &mut Rng, thorough: bool, emit: &mut dyn FnMut(String)) {
    if crate::stress() {
        gen_stress(rng, emit);
        return;
    }
    // (1) exhaustive small scope (<= 3 quick, <= 4 thorough): every digraph x every source subset;
    //     ops / representations rotate; shortest_path with every single-vertex target and `always`
    //     on <= 3 vertices.
    let max_n = if thorough { 4 } else { 3 };
    for n in 1..=max_n {
        for_all_small(n, &mut |idx, arcs, srcs| {
            let repr = graphs::ALL_REPRS[idx % 6];
            let d = small_desc(repr, n, arcs).to_v();
            // ascending subsets: every shape (also `range_filter`) keeps this order
            let s = V::us(srcs.iter().copied());
            let sh = SHAPES[(idx / 3) % SHAPES.len()];
            let all = thorough && n <= 3;
            let k = (idx / 6) % 4;
            if all || k == 0 {
                emit(format!("bfs_pred_iter {d} {s} {sh}"));
            }
            if all || k == 1 {
                emit(format!("bfs_pred_predecessors {d} {s} {sh}"));
            }
            if all || k == 2 {
                emit(format!("bfs_pred_cycles {d} {s} {sh}"));
            }
            if all {
                for t in 0..n {
                    emit(format!("bfs_pred_shortest_path {d} {s} [eq {t}] {sh}"));
                }
                emit(format!("bfs_pred_shortest_path {d} {s} always {sh}"));
                emit(format!("bfs_pred_shortest_path {d} {s} [in [{} {}]] {sh}", n - 1, n / 2));
            } else if k == 3 {
                let t = (idx / 24) % (n + 1);
                if t == n {
                    emit(format!("bfs_pred_shortest_path {d} {s} [in [0 {}]] {sh}", n - 1));
                } else {
                    emit(format!("bfs_pred_shortest_path {d} {s} [eq {t}] {sh}"));
                }
            }
            if idx % 5 == 0 {
                emit(format!("bfs_pred_iter_repoll {d} {s} {} 2 {sh}", idx % (n + 2)));
            }
        });
    }
    // (2) random cases, orders 1..130, all representations
    let n_random = if thorough { 12_000 } else { 600 };
    for _ in 0..n_random {
        let (desc, mut srcs) = gen_case(rng);
        let sh = gen_shape(rng, &mut srcs);
        let n = desc.order();
        let d = desc.to_v();
        let s = V::us(srcs.iter().copied());
        emit(format!("bfs_pred_iter {d} {s}{sh}"));
        emit(format!("bfs_pred_predecessors {d} {s}{sh}"));
        emit(format!("bfs_pred_cycles {d} {s}{sh}"));
        for _ in 0..4 {
            emit(format!("bfs_pred_shortest_path {d} {s} {}{sh}", gen_tgt(rng, n, &srcs)));
        }
        if rng.chance(1, 2) {
            emit(format!("bfs_pred_iter_repoll {d} {s} {} {}{sh}", rng.below(n + 2), 1 + rng.below(3)));
        }
    }
    // (3) thorough: a sample of the large orders of the stress stream
    if thorough {
        for (j, &n) in STRESS_ORDERS.iter().enumerate() {
            let repr = graphs::ALL_REPRS[j % 6];
            let (desc, mut srcs) = large_desc(rng, repr, n, None);
            let sh = gen_shape(rng, &mut srcs);
            let d = desc.to_v();
            let s = V::us(srcs.iter().copied());
            emit(format!("bfs_pred_iter {d} {s}{sh}"));
            emit(format!("bfs_pred_predecessors {d} {s}{sh}"));
            emit(format!("bfs_pred_shortest_path {d} {s} {}{sh}", gen_tgt(rng, n, &srcs)));
        }
    }
}
