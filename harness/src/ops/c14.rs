//! C14 — deterministic generators on the real code.
//!
//!   gen_<name> <repr> <n>          name ∈ empty complete circuit cycle path star wheel
//!   gen_biclique <repr> <m> <n>
//!   gen_trivial|gen_claw|gen_utility <repr>
//!       =>  [order [vertices] [arcs]]  |  panic
//!
//!   gen_complete_big <repr> <n> <tmin>   `complete(n)` at a large order, observed in COMPLEMENT form
//!       =>  skip                                      when fewer than `tmin` CPUs are available
//!       |   [order vertices_ok size n_missing [first 20 missing arcs] n_bad [first 20 bad arcs]] | panic
//!       missing = pairs u != v (both < order) that `arcs()` does not yield; bad = yielded arcs with
//!       u = v or an endpoint >= order.  (The full arc list of complete(4097) would be ~200 MB.)
//!
//! `repr` ∈ al am mx el (all generators) and wu wi (`Empty` only: `gen_empty`, `gen_trivial`).
#![allow(clippy::all)]

use crate::graphs;
use crate::rng::Rng;
use crate::value::V;
use graaf::{
    AdjacencyList, AdjacencyListWeighted, AdjacencyMap, AdjacencyMatrix, Biclique, Circuit,
    Complete, Cycle, EdgeList, Empty, Path, Star, Wheel,
};

/// `$f` applied with `D` = the unweighted representation named by `$repr`.
macro_rules! by_repr {
    ($repr:expr, $D:ident => $body:expr) => {
        match $repr {
            "al" => { type $D = AdjacencyList; Some(vec![graphs::observe(&$body)]) }
            "am" => { type $D = AdjacencyMap; Some(vec![graphs::observe(&$body)]) }
            "mx" => { type $D = AdjacencyMatrix; Some(vec![graphs::observe(&$body)]) }
            "el" => { type $D = EdgeList; Some(vec![graphs::observe(&$body)]) }
            _ => None,
        }
    };
}

fn compact<D>(d: &D) -> V
where
    D: graaf::Order + graaf::Vertices + graaf::Arcs + graaf::Size,
{
    let order = d.order();
    let vok = d.vertices().eq(0..order);
    let words = order.div_ceil(64).max(1);
    let mut seen = vec![0u64; order * words];
    let mut bad: Vec<(usize, usize)> = vec![];
    let mut n_bad = 0usize;
    for (u, v) in d.arcs() {
        if u == v || u >= order || v >= order {
            n_bad += 1;
            if bad.len() < 20 {
                bad.push((u, v));
            }
        } else {
            seen[u * words + v / 64] |= 1 << (v % 64);
        }
    }
    let mut missing: Vec<(usize, usize)> = vec![];
    let mut n_missing = 0usize;
    for u in 0..order {
        for v in 0..order {
            if u != v && seen[u * words + v / 64] >> (v % 64) & 1 == 0 {
                n_missing += 1;
                if missing.len() < 20 {
                    missing.push((u, v));
                }
            }
        }
    }
    V::L(vec![V::u(order), V::bool(vok), V::u(d.size()), V::u(n_missing), V::pairs(missing), V::u(n_bad), V::pairs(bad)])
}

pub fn eval(op: &str, args: &[V]) -> Option<Vec<V>> {
    let name = op.strip_prefix("gen_")?;
    match name {
        "complete_big" => {
            let [repr, n, tmin] = args else { return None };
            let (n, tmin) = (n.as_usize()?, tmin.as_usize()?);
            if n > 5000 {
                return None;
            }
            let t = std::thread::available_parallelism().map_or(1, std::num::NonZero::get);
            if t < tmin {
                return Some(vec![V::atom("skip")]);
            }
            Some(vec![match repr.as_atom()? {
                "al" => compact(&AdjacencyList::complete(n)),
                "am" => compact(&AdjacencyMap::complete(n)),
                "mx" => compact(&AdjacencyMatrix::complete(n)),
                "el" => compact(&EdgeList::complete(n)),
                _ => return None,
            }])
        }
        "empty" | "complete" | "circuit" | "cycle" | "path" | "star" | "wheel" => {
            let [repr, n] = args else { return None };
            let repr = repr.as_atom()?;
            let n = n.as_usize()?;
            if repr == "wu" || repr == "wi" {
                if name != "empty" {
                    return None;
                }
                return Some(vec![if repr == "wu" {
                    graphs::observe(&AdjacencyListWeighted::<usize>::empty(n))
                } else {
                    graphs::observe(&AdjacencyListWeighted::<isize>::empty(n))
                }]);
            }
            match name {
                "empty" => by_repr!(repr, D => D::empty(n)),
                "complete" => by_repr!(repr, D => D::complete(n)),
                "circuit" => by_repr!(repr, D => D::circuit(n)),
                "cycle" => by_repr!(repr, D => D::cycle(n)),
                "path" => by_repr!(repr, D => D::path(n)),
                "star" => by_repr!(repr, D => D::star(n)),
                _ => by_repr!(repr, D => D::wheel(n)),
            }
        }
        "biclique" => {
            let [repr, m, n] = args else { return None };
            let (m, n) = (m.as_usize()?, n.as_usize()?);
            by_repr!(repr.as_atom()?, D => D::biclique(m, n))
        }
        "trivial" | "claw" | "utility" => {
            let [repr] = args else { return None };
            let repr = repr.as_atom()?;
            if repr == "wu" || repr == "wi" {
                if name != "trivial" {
                    return None;
                }
                return Some(vec![if repr == "wu" {
                    graphs::observe(&AdjacencyListWeighted::<usize>::trivial())
                } else {
                    graphs::observe(&AdjacencyListWeighted::<isize>::trivial())
                }]);
            }
            match name {
                "trivial" => by_repr!(repr, D => D::trivial()),
                "claw" => by_repr!(repr, D => D::claw()),
                _ => by_repr!(repr, D => D::utility()),
            }
        }
        _ => None,
    }
}

const ONE_PARAM: [&str; 7] = ["empty", "complete", "circuit", "cycle", "path", "star", "wheel"];

/// Large orders (round 2): thresholds of "rows per thread" heuristics (256 * t + 1, 512, 513, 768..770),
/// observed in complement form; `tmin` keeps a case from running where it cannot matter.
fn emit_big(stress: bool, emit: &mut dyn FnMut(String)) {
    for (n, tmin) in [(513, 2), (769, 3), (770, 3)] {
        emit(format!("gen_complete_big al {n} {tmin}"));
    }
    if stress {
        for (n, tmin) in [(515, 2), (1030, 3), (1281, 5), (2049, 8), (3329, 13), (4097, 16), (1024, 2), (512, 2)] {
            emit(format!("gen_complete_big al {n} {tmin}"));
        }
        for repr in ["am", "mx", "el"] {
            emit(format!("gen_complete_big {repr} 513 1"));
        }
    }
}

/// The O(n)-arc generators (and empty) at orders past 256 / 512 / 1024 in every representation.
fn emit_large_sparse(orders: &[usize], mx_max: usize, emit: &mut dyn FnMut(String)) {
    for &n in orders {
        for repr in graphs::UNWEIGHTED {
            if repr == "mx" && n > mx_max {
                continue; // the list model of the bit matrix is quadratic in the cell count
            }
            for name in ["empty", "circuit", "cycle", "path", "star", "wheel"] {
                emit(format!("gen_{name} {repr} {n}"));
            }
        }
    }
}

pub fn gen(rng: &mut Rng, thorough: bool, emit: &mut dyn FnMut(String)) {
    if crate::stress() {
        emit_big(true, emit);
        emit_large_sparse(&[257, 300, 512, 513, 1024], 300, emit);
        emit("gen_wheel mx 512".to_string());
        emit("gen_cycle mx 513".to_string());
        for n in [257, 300] {
            for repr in graphs::UNWEIGHTED {
                emit(format!("gen_complete {repr} {n}"));
            }
        }
        for (m, n) in [(200, 57), (1, 256), (256, 1), (150, 150)] {
            for repr in graphs::UNWEIGHTED {
                emit(format!("gen_biclique {repr} {m} {n}"));
            }
        }
        return;
    }
    emit_big(false, emit);
    emit_large_sparse(&[257, 300], 300, emit);
    emit_large_sparse(&[512, 1024], 0, emit);
    // (0) the parameterless defaults, every representation
    for repr in graphs::UNWEIGHTED {
        for name in ["trivial", "claw", "utility"] {
            emit(format!("gen_{name} {repr}"));
        }
    }
    emit("gen_trivial wu".to_string());
    emit("gen_trivial wi".to_string());

    // (1) orders: every order 0..=80 (0 = inadmissible; wheel also 1..3) + 20 random in
    //     81..=200 (quick) / every order 0..=200 (thorough)
    let mut orders: Vec<usize> = if thorough { (0..=200).collect() } else { (0..=80).collect() };
    if !thorough {
        let mut pool: Vec<usize> = (81..=200).collect();
        rng.shuffle(&mut pool);
        pool.truncate(20);
        // always: the two 64-bit word boundaries of a row and the largest order
        for must in [127, 128, 129, 200] {
            if !pool.contains(&must) {
                pool.push(must);
            }
        }
        pool.sort_unstable();
        orders.extend(pool);
    }
    for &n in &orders {
        for repr in graphs::UNWEIGHTED {
            for name in ONE_PARAM {
                emit(format!("gen_{name} {repr} {n}"));
            }
        }
        if n <= 20 || n % 16 == 0 {
            emit(format!("gen_empty wu {n}"));
            emit(format!("gen_empty wi {n}"));
        }
    }

    // (2) biclique: all (m, n) in 0..=L x 0..=L (0 = inadmissible), plus random pairs up to 40 x 40
    let l = if thorough { 40 } else { 12 };
    for m in 0..=l {
        for n in 0..=l {
            for repr in graphs::UNWEIGHTED {
                emit(format!("gen_biclique {repr} {m} {n}"));
            }
        }
    }
    // more inadmissible pairs (cheap: they panic)
    for k in (l + 1)..=40 {
        for repr in graphs::UNWEIGHTED {
            emit(format!("gen_biclique {repr} 0 {k}"));
            emit(format!("gen_biclique {repr} {k} 0"));
        }
    }
    if !thorough {
        for _ in 0..60 {
            let m = 1 + rng.below(40);
            let n = 1 + rng.below(40);
            for repr in graphs::UNWEIGHTED {
                emit(format!("gen_biclique {repr} {m} {n}"));
            }
        }
        for repr in graphs::UNWEIGHTED {
            emit(format!("gen_biclique {repr} 40 40"));
            emit(format!("gen_biclique {repr} 1 40"));
            emit(format!("gen_biclique {repr} 40 1"));
        }
    }
}
