//! C14 — deterministic generators on the real code.
//!
//!   gen_<name> <repr> <n>          name ∈ empty complete circuit cycle path star wheel
//!   gen_biclique <repr> <m> <n>
//!   gen_trivial|gen_claw|gen_utility <repr>
//!       =>  [order [vertices] [arcs]]  |  panic
//!
//! `repr` ∈ al am mx el (all generators) and wu wi (`Empty` only: `gen_empty`, `gen_trivial`).
#![allow(clippy::all)]

use crate::graphs;
use crate::rng::Rng;
use crate::value::V;
use graaf::{
    AdjacencyList, AdjacencyListWeighted, AdjacencyMap, AdjacencyMatrix, Biclique, Circuit,
    Complete, Cycle, EdgeList, Empty, Path, Star, Wheel,
};

/// `$f` applied with `D` = the unweighted representation named by `$repr`.
macro_rules! by_repr {
    ($repr:expr, $D:ident => $body:expr) => {
        match $repr {
            "al" => { type $D = AdjacencyList; Some(vec![graphs::observe(&$body)]) }
            "am" => { type $D = AdjacencyMap; Some(vec![graphs::observe(&$body)]) }
            "mx" => { type $D = AdjacencyMatrix; Some(vec![graphs::observe(&$body)]) }
            "el" => { type $D = EdgeList; Some(vec![graphs::observe(&$body)]) }
            _ => None,
        }
    };
}

pub fn eval(op: &str, args: &[V]) -> Option<Vec<V>> {
    let name = op.strip_prefix("gen_")?;
    match name {
        "empty" | "complete" | "circuit" | "cycle" | "path" | "star" | "wheel" => {
            let [repr, n] = args else { return None };
            let repr = repr.as_atom()?;
            let n = n.as_usize()?;
            if repr == "wu" || repr == "wi" {
                if name != "empty" {
                    return None;
                }
                return Some(vec![if repr == "wu" {
                    graphs::observe(&AdjacencyListWeighted::<usize>::empty(n))
                } else {
                    graphs::observe(&AdjacencyListWeighted::<isize>::empty(n))
                }]);
            }
            match name {
                "empty" => by_repr!(repr, D => D::empty(n)),
                "complete" => by_repr!(repr, D => D::complete(n)),
                "circuit" => by_repr!(repr, D => D::circuit(n)),
                "cycle" => by_repr!(repr, D => D::cycle(n)),
                "path" => by_repr!(repr, D => D::path(n)),
                "star" => by_repr!(repr, D => D::star(n)),
                _ => by_repr!(repr, D => D::wheel(n)),
            }
        }
        "biclique" => {
            let [repr, m, n] = args else { return None };
            let (m, n) = (m.as_usize()?, n.as_usize()?);
            by_repr!(repr.as_atom()?, D => D::biclique(m, n))
        }
        "trivial" | "claw" | "utility" => {
            let [repr] = args else { return None };
            let repr = repr.as_atom()?;
            if repr == "wu" || repr == "wi" {
                if name != "trivial" {
                    return None;
                }
                return Some(vec![if repr == "wu" {
                    graphs::observe(&AdjacencyListWeighted::<usize>::trivial())
                } else {
                    graphs::observe(&AdjacencyListWeighted::<isize>::trivial())
                }]);
            }
            match name {
                "trivial" => by_repr!(repr, D => D::trivial()),
                "claw" => by_repr!(repr, D => D::claw()),
                _ => by_repr!(repr, D => D::utility()),
            }
        }
        _ => None,
    }
}

const ONE_PARAM: [&str; 7] = ["empty", "complete", "circuit", "cycle", "path", "star", "wheel"];

pub fn gen(rng: &mut Rng, thorough: bool, emit: &mut dyn FnMut(String)) {
    // (0) the parameterless defaults, every representation
    for repr in graphs::UNWEIGHTED {
        for name in ["trivial", "claw", "utility"] {
            emit(format!("gen_{name} {repr}"));
        }
    }
    emit("gen_trivial wu".to_string());
    emit("gen_trivial wi".to_string());

    // (1) orders: every order 0..=80 (0 = inadmissible; wheel also 1..3) + 20 random in
    //     81..=200 (quick) / every order 0..=200 (thorough)
    let mut orders: Vec<usize> = if thorough { (0..=200).collect() } else { (0..=80).collect() };
    if !thorough {
        let mut pool: Vec<usize> = (81..=200).collect();
        rng.shuffle(&mut pool);
        pool.truncate(20);
        // always: the two 64-bit word boundaries of a row and the largest order
        for must in [127, 128, 129, 200] {
            if !pool.contains(&must) {
                pool.push(must);
            }
        }
        pool.sort_unstable();
        orders.extend(pool);
    }
    for &n in &orders {
        for repr in graphs::UNWEIGHTED {
            for name in ONE_PARAM {
                emit(format!("gen_{name} {repr} {n}"));
            }
        }
        if n <= 20 || n % 16 == 0 {
            emit(format!("gen_empty wu {n}"));
            emit(format!("gen_empty wi {n}"));
        }
    }

    // (2) biclique: all (m, n) in 0..=L x 0..=L (0 = inadmissible), plus random pairs up to 40 x 40
    let l = if thorough { 40 } else { 12 };
    for m in 0..=l {
        for n in 0..=l {
            for repr in graphs::UNWEIGHTED {
                emit(format!("gen_biclique {repr} {m} {n}"));
            }
        }
    }
    // more inadmissible pairs (cheap: they panic)
    for k in (l + 1)..=40 {
        for repr in graphs::UNWEIGHTED {
            emit(format!("gen_biclique {repr} 0 {k}"));
            emit(format!("gen_biclique {repr} {k} 0"));
        }
    }
    if !thorough {
        for _ in 0..60 {
            let m = 1 + rng.below(40);
            let n = 1 + rng.below(40);
            for repr in graphs::UNWEIGHTED {
                emit(format!("gen_biclique {repr} {m} {n}"));
            }
        }
        for repr in graphs::UNWEIGHTED {
            emit(format!("gen_biclique {repr} 40 40"));
            emit(format!("gen_biclique {repr} 1 40"));
            emit(format!("gen_biclique {repr} 40 1"));
        }
    }
}
