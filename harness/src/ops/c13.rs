//! C13 — short programs over graaf's safe public API (memory safety / leak freedom).
//!
//! Every op prints `<oc> ret <digest…>` or `<oc> panic`, `<oc>` = `oc1` when the build has
//! integer-overflow checks (dev profile), `oc0` otherwise (release): three outcomes on the
//! order-0 `AdjacencyMap` depend on it. The digest forces every lazy iterator to be consumed;
//! the driver compares the outcome class (and, for the functions that have a `Chk` model,
//! the complete result). A sanitizer report / signal / abort kills the process: the
//! orchestrator turns that into `fault`, i.e. a property failure with the line as replay.
//!
//!   chk_gen   <repr> <name> <arg>*                  constructors (generators, `empty`, `trivial`)
//!   chk_rows  <repr> <rows|pairs>                   `From<rows>` / `From<pairs>` constructors
//!   chk_from  <desc> <dst repr>                     conversions between representations
//!   chk_q     <name> <desc> <arg>*                  every query / operation (see `q_unweighted`)
//!   chk_chain <desc | [gen repr name arg*]> [cpl|cnv|uni|dbl|cln …] <consumer>   producers then a consumer
//!   chk_hist  <desc> [[add u v] [rem u v] [tog u v] [outdeg u] [indeg u] [outn u] …]
//!   chk_it    <kind> <desc> <sources> <rounds>      the nine traversal iterators
//!   chk_alg   <name> <desc> <arg>*                  derived algorithm entry points
//!   chk_mx    <order> [[add u v] [tog u v] [rem u v] [has u v] …]
//!   chk_dm    <name> <arg>*                         `DistanceMatrix` (incl. literal pub fields)
//!   chk_pt    <name> <arg>*                         `PredecessorTree::{new, index}`
//!   chk_prng  <seed> <k>
//!   chk_leak  <k> [<op> <arg>*]                     run the program k times, live-byte delta
#![allow(clippy::all)]

#[path = "c13/gen.rs"]
mod generator;

use crate::graphs::Desc;
use crate::value::V;
use crate::with_digraph;
use graaf::gen::prng::Xoshiro256StarStar;
use graaf::{
    AddArc, AddArcWeighted, AdjacencyList, AdjacencyListWeighted, AdjacencyMap, AdjacencyMatrix,
    ArcWeight, Arcs, ArcsWeighted, BellmanFordMoore, Bfs, BfsDist, BfsPred, Biclique, Circuit,
    Complement, Complete, ContiguousOrder, Converse, Cycle, Degree, DegreeSequence, Dfs, DfsDist,
    DfsPred, Dijkstra, DijkstraDist, DijkstraPred, DistanceMatrix, EdgeList, Empty, ErdosRenyi,
    FilterVertices, FloydWarshall, HasArc, HasEdge, HasWalk, InNeighbors, Indegree,
    IndegreeSequence, IsBalanced, IsComplete, IsIsolated, IsOriented, IsPendant, IsRegular,
    IsSemicomplete, IsSimple, IsSpanningSubdigraph, IsSubdigraph, IsSuperdigraph, IsSymmetric,
    IsTournament, Johnson75, Order, OutNeighbors, OutNeighborsWeighted, Outdegree,
    OutdegreeSequence, Path, PredecessorTree, RandomRecursiveTree, RandomTournament, RemoveArc,
    SemidegreeSequence, Sinks, Size, Sources, Star, Tarjan, Union, Vertices, Wheel,
};
use std::collections::{BTreeMap, BTreeSet};
use std::panic::{catch_unwind, AssertUnwindSafe};

pub use generator::gen;

// ------------------------------------------------------------------------------- digests

const M61: u128 = (1 << 61) - 1;

fn mix(h: u128, x: u128) -> u128 {
    (h * 1_000_003 + x + 1) % M61
}

/// length + order-sensitive hash of a sequence of numbers
fn dig<I: IntoIterator<Item = usize>>(it: I) -> Vec<V> {
    let mut h = 7u128;
    let mut n = 0usize;
    for x in it {
        h = mix(h, x as u128);
        n += 1;
    }
    vec![V::u(n), V::I(h as i128)]
}

fn dig_pairs<I: IntoIterator<Item = (usize, usize)>>(it: I) -> Vec<V> {
    dig(it.into_iter().flat_map(|(a, b)| [a, b]))
}

/// order, size, hash of `vertices()` and `arcs()` of a digraph value
fn dig_digraph<D: Arcs + Order + Size + Vertices>(d: &D) -> Vec<V> {
    let mut out = vec![V::u(d.order()), V::u(d.size())];
    out.extend(dig(d.vertices()));
    out.extend(dig_pairs(d.arcs()));
    out
}

fn b(x: bool) -> Vec<V> {
    vec![V::bool(x)]
}

fn u(x: usize) -> Vec<V> {
    vec![V::u(x)]
}

/// Does this build check integer overflow? (profile-wide, so it holds for graaf too)
fn overflow_checks() -> bool {
    let x = std::hint::black_box(usize::MAX);
    let y = std::hint::black_box(1usize);
    catch_unwind(|| x + y).is_err()
}

fn oc() -> V {
    use std::sync::OnceLock;
    static OC: OnceLock<bool> = OnceLock::new();
    V::atom(if *OC.get_or_init(overflow_checks) { "oc1" } else { "oc0" })
}

/// Run one program; outcome class + digest.
fn class<F: FnOnce() -> Option<Vec<V>>>(f: F) -> Option<Vec<V>> {
    match catch_unwind(AssertUnwindSafe(f)) {
        Ok(Some(mut d)) => {
            let mut out = vec![oc(), V::atom("ret")];
            out.append(&mut d);
            Some(out)
        }
        Ok(None) => None,
        Err(_) => Some(vec![oc(), V::atom("panic")]),
    }
}

// ------------------------------------------------------------------------------- constructors

macro_rules! gen_unweighted {
    ($t:ty, $name:expr, $a:expr) => {{
        let a: &[V] = $a;
        let n = |i: usize| a.get(i).and_then(V::as_usize);
        let d: $t = match $name {
            "empty" => <$t>::empty(n(0)?),
            "trivial" => <$t>::trivial(),
            "biclique" => <$t>::biclique(n(0)?, n(1)?),
            "claw" => <$t>::claw(),
            "utility" => <$t>::utility(),
            "circuit" => <$t>::circuit(n(0)?),
            "complete" => <$t>::complete(n(0)?),
            "cycle" => <$t>::cycle(n(0)?),
            "path" => <$t>::path(n(0)?),
            "star" => <$t>::star(n(0)?),
            "wheel" => <$t>::wheel(n(0)?),
            "er" => <$t>::erdos_renyi(n(0)?, f64::from_bits(a.get(1)?.as_u64()?), a.get(2)?.as_u64()?),
            "rrt" => <$t>::random_recursive_tree(n(0)?, a.get(1)?.as_u64()?),
            "rt" => <$t>::random_tournament(n(0)?, a.get(1)?.as_u64()?),
            _ => return None,
        };
        Some(dig_digraph(&d))
    }};
}

fn run_gen(repr: &str, name: &str, a: &[V]) -> Option<Vec<V>> {
    match repr {
        "al" => gen_unweighted!(AdjacencyList, name, a),
        "am" => gen_unweighted!(AdjacencyMap, name, a),
        "mx" => gen_unweighted!(AdjacencyMatrix, name, a),
        "el" => gen_unweighted!(EdgeList, name, a),
        "wu" | "wi" => {
            let n = a.first().and_then(V::as_usize);
            macro_rules! w {
                ($w:ty) => {{
                    let d = match name {
                        "empty" => AdjacencyListWeighted::<$w>::empty(n?),
                        "trivial" => AdjacencyListWeighted::<$w>::trivial(),
                        _ => return None,
                    };
                    Some(dig_digraph(&d))
                }};
            }
            if repr == "wu" { w!(usize) } else { w!(isize) }
        }
        _ => None,
    }
}

fn rows_sets(v: &V) -> Option<Vec<BTreeSet<usize>>> {
    v.as_list()?.iter().map(|r| Some(r.as_usizes()?.into_iter().collect())).collect()
}

fn rows_maps(v: &V) -> Option<Vec<BTreeMap<usize, i128>>> {
    v.as_list()?
        .iter()
        .map(|r| {
            let mut m = BTreeMap::new();
            for p in r.as_list()? {
                let p = p.as_list()?;
                if p.len() != 2 {
                    return None;
                }
                let w = match &p[1] {
                    V::I(w) => *w,
                    _ => return None,
                };
                let _ = m.insert(p[0].as_usize()?, w);
            }
            Some(m)
        })
        .collect()
}

fn run_rows(repr: &str, rows: &V) -> Option<Vec<V>> {
    match repr {
        "al" => Some(dig_digraph(&AdjacencyList::from(rows_sets(rows)?))),
        "am" => Some(dig_digraph(&AdjacencyMap::from(rows_sets(rows)?))),
        "mx" => Some(dig_digraph(&AdjacencyMatrix::from(rows.as_pairs()?))),
        "el" => Some(dig_digraph(&EdgeList::from(rows.as_pairs()?))),
        "wu" => {
            let rows: Vec<BTreeMap<usize, usize>> = rows_maps(rows)?
                .into_iter()
                .map(|m| m.into_iter().map(|(k, w)| (k, w as usize)).collect())
                .collect();
            Some(dig_digraph(&AdjacencyListWeighted::<usize>::from(rows)))
        }
        "wi" => {
            let rows: Vec<BTreeMap<usize, isize>> = rows_maps(rows)?
                .into_iter()
                .map(|m| m.into_iter().map(|(k, w)| (k, w as isize)).collect())
                .collect();
            Some(dig_digraph(&AdjacencyListWeighted::<isize>::from(rows)))
        }
        _ => None,
    }
}

fn run_from(src: &Desc, dst: &str) -> Option<Vec<V>> {
    // the match arms above must type-check for every source type: dispatch by hand
    match src.repr.as_str() {
        "al" => {
            let d = src.build_al();
            match dst {
                "am" => Some(dig_digraph(&AdjacencyMap::from(d))),
                "mx" => Some(dig_digraph(&AdjacencyMatrix::from(d))),
                "el" => Some(dig_digraph(&EdgeList::from(d))),
                "wu" => Some(dig_digraph(&AdjacencyListWeighted::<usize>::from(d))),
                "wi" => Some(dig_digraph(&AdjacencyListWeighted::<isize>::from(d))),
                _ => None,
            }
        }
        "am" => {
            let d = src.build_am();
            match dst {
                "al" => Some(dig_digraph(&AdjacencyList::from(d))),
                "mx" => Some(dig_digraph(&AdjacencyMatrix::from(d))),
                "el" => Some(dig_digraph(&EdgeList::from(d))),
                "wu" => Some(dig_digraph(&AdjacencyListWeighted::<usize>::from(d))),
                "wi" => Some(dig_digraph(&AdjacencyListWeighted::<isize>::from(d))),
                _ => None,
            }
        }
        "mx" => {
            let d = src.build_mx();
            match dst {
                "al" => Some(dig_digraph(&AdjacencyList::from(d))),
                "am" => Some(dig_digraph(&AdjacencyMap::from(d))),
                "el" => Some(dig_digraph(&EdgeList::from(d))),
                "wu" => Some(dig_digraph(&AdjacencyListWeighted::<usize>::from(d))),
                "wi" => Some(dig_digraph(&AdjacencyListWeighted::<isize>::from(d))),
                _ => None,
            }
        }
        "el" => {
            let d = src.build_el();
            match dst {
                "al" => Some(dig_digraph(&AdjacencyList::from(d))),
                "am" => Some(dig_digraph(&AdjacencyMap::from(d))),
                "mx" => Some(dig_digraph(&AdjacencyMatrix::from(d))),
                "wu" => Some(dig_digraph(&AdjacencyListWeighted::<usize>::from(d))),
                "wi" => Some(dig_digraph(&AdjacencyListWeighted::<isize>::from(d))),
                _ => None,
            }
        }
        _ => None,
    }
}

// ------------------------------------------------------------------------------- queries

/// Queries every one of the six representations implements.
fn q_common<D>(d: &D, name: &str, a: &[V]) -> Option<Vec<V>>
where
    D: Arcs + HasArc + HasEdge + HasWalk + InNeighbors + Indegree + IndegreeSequence + IsComplete
        + IsRegular + IsSemicomplete + IsSimple + IsTournament + Order + OutNeighbors + Outdegree
        + Size + Vertices + DegreeSequence,
{
    let n = |i: usize| a.get(i).and_then(V::as_usize);
    Some(match name {
        "arcs" => dig_pairs(d.arcs()),
        "vertices" => dig(d.vertices()),
        "order" => u(d.order()),
        "size" => u(d.size()),
        "has_arc" => b(d.has_arc(n(0)?, n(1)?)),
        "has_edge" => b(d.has_edge(n(0)?, n(1)?)),
        "has_walk" => b(d.has_walk(&a.first()?.as_usizes()?)),
        "in_neighbors" => dig(d.in_neighbors(n(0)?)),
        "out_neighbors" => dig(d.out_neighbors(n(0)?)),
        "indegree" => u(d.indegree(n(0)?)),
        "outdegree" => u(d.outdegree(n(0)?)),
        "degree" => u(d.degree(n(0)?)),
        "is_source" => b(d.is_source(n(0)?)),
        "is_sink" => b(d.is_sink(n(0)?)),
        "is_isolated" => b(d.is_isolated(n(0)?)),
        "is_pendant" => b(d.is_pendant(n(0)?)),
        "degree_sequence" => dig(d.degree_sequence()),
        "indegree_sequence" => dig(d.indegree_sequence()),
        "outdegree_sequence" => dig(d.outdegree_sequence()),
        "semidegree_sequence" => dig_pairs(d.semidegree_sequence()),
        "max_degree" => u(d.max_degree()),
        "min_degree" => u(d.min_degree()),
        "max_indegree" => u(d.max_indegree()),
        "min_indegree" => u(d.min_indegree()),
        "max_outdegree" => u(d.max_outdegree()),
        "min_outdegree" => u(d.min_outdegree()),
        "sinks" => dig(d.sinks()),
        "sources" => dig(d.sources()),
        "is_balanced" => b(d.is_balanced()),
        "is_complete" => b(d.is_complete()),
        "is_oriented" => b(d.is_oriented()),
        "is_regular" => b(d.is_regular()),
        "is_semicomplete" => b(d.is_semicomplete()),
        "is_simple" => b(d.is_simple()),
        "is_symmetric" => b(d.is_symmetric()),
        "is_tournament" => b(d.is_tournament()),
        "tarjan" => {
            let mut t = Tarjan::new(d);
            let cs = t.components();
            let mut out = vec![V::u(cs.len())];
            out.extend(dig(cs.iter().flat_map(|c| c.iter().copied())));
            out
        }
        _ => return None,
    })
}

/// Operations that produce / combine digraphs: the four unweighted representations.
fn q_unweighted<D>(d: &D, name: &str, a: &[V], other: Option<&D>) -> Option<Vec<V>>
where
    D: Arcs + HasArc + Order + Size + Vertices + Complement + Converse + Union + Clone + AddArc + RemoveArc,
{
    let n = |i: usize| a.get(i).and_then(V::as_usize);
    Some(match name {
        "complement" => dig_digraph(&d.complement()),
        "converse" => dig_digraph(&d.converse()),
        "union" => dig_digraph(&d.union(other?)),
        "is_subdigraph" => b(d.is_subdigraph(other?)),
        "is_superdigraph" => b(d.is_superdigraph(other?)),
        "is_spanning_subdigraph" => b(d.is_spanning_subdigraph(other?)),
        "add_arc" => {
            let mut e = d.clone();
            e.add_arc(n(0)?, n(1)?);
            dig_digraph(&e)
        }
        "remove_arc" => {
            let mut e = d.clone();
            let r = e.remove_arc(n(0)?, n(1)?);
            let mut out = b(r);
            out.extend(dig_digraph(&e));
            out
        }
        "clone_eq" => {
            let e = d.clone();
            dig_digraph(&e)
        }
        "clone_from" => {
            let mut e = d.clone();
            e.clone_from(other?);
            let mut f = other?.clone();
            f.clone_from(d);
            let mut out = dig_digraph(&e);
            out.extend(dig_digraph(&f));
            out
        }
        _ => return None,
    })
}

fn q_weighted<W>(d: &AdjacencyListWeighted<W>, name: &str, a: &[V], w: W) -> Option<Vec<V>>
where
    W: Copy + Clone,
{
    let n = |i: usize| a.get(i).and_then(V::as_usize);
    Some(match name {
        "converse" => dig_digraph(&d.converse()),
        "contiguous_order" => u(d.contiguous_order()),
        "arcs_weighted" => dig(d.arcs_weighted().flat_map(|(x, y, _)| [x, y])),
        "out_neighbors_weighted" => dig(d.out_neighbors_weighted(n(0)?).map(|(v, _)| v)),
        "arc_weight" => b(d.arc_weight(n(0)?, n(1)?).is_some()),
        "add_arc_weighted" => {
            let mut e = d.clone();
            e.add_arc_weighted(n(0)?, n(1)?, w);
            dig_digraph(&e)
        }
        "remove_arc" => {
            let mut e = d.clone();
            let r = e.remove_arc(n(0)?, n(1)?);
            let mut out = b(r);
            out.extend(dig_digraph(&e));
            out
        }
        _ => return None,
    })
}

fn run_q(name: &str, desc: &Desc, a: &[V]) -> Option<Vec<V>> {
    // names with a second digraph argument
    let other = a.first().and_then(Desc::parse).map(|o| o.with_repr(&desc.repr));
    if let Some(r) = with_digraph!(desc, d => q_common(&d, name, a)) {
        return Some(r);
    }
    match desc.repr.as_str() {
        "al" => {
            let d = desc.build_al();
            let o = other.as_ref().map(Desc::build_al);
            if name == "contiguous_order" {
                return Some(u(d.contiguous_order()));
            }
            q_unweighted(&d, name, a, o.as_ref())
        }
        "mx" => {
            let d = desc.build_mx();
            let o = other.as_ref().map(Desc::build_mx);
            if name == "contiguous_order" {
                return Some(u(d.contiguous_order()));
            }
            if name == "toggle" {
                let mut e = d.clone();
                e.toggle(a.first()?.as_usize()?, a.get(1)?.as_usize()?);
                return Some(dig_digraph(&e));
            }
            q_unweighted(&d, name, a, o.as_ref())
        }
        "el" => {
            let d = desc.build_el();
            let o = other.as_ref().map(Desc::build_el);
            if name == "contiguous_order" {
                return Some(u(d.contiguous_order()));
            }
            q_unweighted(&d, name, a, o.as_ref())
        }
        "am" => {
            let d = desc.build_am();
            let o = other.as_ref().map(Desc::build_am);
            match name {
                "filter_vertices" => {
                    let keep = a.first()?.as_usizes()?;
                    Some(dig_digraph(&d.filter_vertices(|v| keep.contains(&v))))
                }
                "johnson" => {
                    let mut j = Johnson75::new(&d);
                    let cs = j.circuits();
                    let mut out = vec![V::u(cs.len())];
                    out.extend(dig(cs.into_iter().flatten()));
                    Some(out)
                }
                _ => q_unweighted(&d, name, a, o.as_ref()),
            }
        }
        "wu" => q_weighted(&desc.build_wu(), name, a, 3usize),
        "wi" => q_weighted(&desc.build_wi(), name, a, -2isize),
        _ => None,
    }
}

// ------------------------------------------------------------------------------- chains

/// A producer chain followed by a consumer with unchecked accesses: the representation
/// invariant every unchecked access relies on must hold for the RESULT of every operation.
fn chain<D>(mut d: D, producers: &[V], consumer: &str) -> Option<Vec<V>>
where
    D: Arcs + Order + Size + Vertices + Complement + Converse + Union + Clone + DegreeSequence + IndegreeSequence
        + IsTournament + IsSemicomplete + OutNeighbors + IsComplete + HasArc,
{
    for p in producers {
        d = match p.as_atom()? {
            "cpl" => d.complement(),
            "cnv" => d.converse(),
            "uni" => d.union(&d.converse()),
            "dbl" => d.union(&d),
            "cln" => d.clone(),
            _ => return None,
        };
    }
    Some(match consumer {
        "degree_sequence" => dig(d.degree_sequence()),
        "indegree_sequence" => dig(d.indegree_sequence()),
        "converse" => dig_digraph(&d.converse()),
        "complement" => dig_digraph(&d.complement()),
        "is_tournament" => b(d.is_tournament()),
        "is_semicomplete" => b(d.is_semicomplete()),
        "is_complete" => b(d.is_complete()),
        "is_symmetric" => b(d.is_symmetric()),
        "arcs" => dig_digraph(&d),
        "tarjan" => {
            let mut t = Tarjan::new(&d);
            vec![V::u(t.components().len())]
        }
        "dfs" | "dfs_pred" | "bfs_dist" => {
            let n = d.order();
            let src: Vec<usize> = d.vertices().filter(|&v| v < n).take(2).collect();
            let r = catch_unwind(AssertUnwindSafe(|| match consumer {
                "dfs" => Dfs::new(&d, src.into_iter()).count(),
                "dfs_pred" => DfsPred::new(&d, src.into_iter()).predecessors().pred.len(),
                _ => BfsDist::new(&d, src.into_iter()).distances().len(),
            }));
            match r {
                Ok(k) => vec![V::u(k)],
                Err(_) => vec![V::atom("inner-panic")],
            }
        }
        "bfs" => {
            // from the vertices that are also valid indices
            let n = d.order();
            let src: Vec<usize> = d.vertices().filter(|&v| v < n).take(2).collect();
            match catch_unwind(AssertUnwindSafe(|| Bfs::new(&d, src.into_iter()).count())) {
                Ok(k) => vec![V::u(k)],
                Err(_) => vec![V::atom("inner-panic")],
            }
        }
        _ => return None,
    })
}

fn run_chain(start: &V, producers: &[V], consumer: &str) -> Option<Vec<V>> {
    // start = a description or `[gen <repr> <name> <arg>*]`
    if let Some(xs) = start.as_list() {
        if xs.first().and_then(V::as_atom) == Some("gen") {
            let repr = xs.get(1)?.as_atom()?;
            let name = xs.get(2)?.as_atom()?;
            let a = &xs[3..];
            macro_rules! g {
                ($t:ty) => {{
                    let n = |i: usize| a.get(i).and_then(V::as_usize);
                    let d: $t = match name {
                        "empty" => <$t>::empty(n(0)?),
                        "biclique" => <$t>::biclique(n(0)?, n(1)?),
                        "circuit" => <$t>::circuit(n(0)?),
                        "complete" => <$t>::complete(n(0)?),
                        "cycle" => <$t>::cycle(n(0)?),
                        "path" => <$t>::path(n(0)?),
                        "star" => <$t>::star(n(0)?),
                        "wheel" => <$t>::wheel(n(0)?),
                        "er" => <$t>::erdos_renyi(n(0)?, f64::from_bits(a.get(1)?.as_u64()?), a.get(2)?.as_u64()?),
                        "rrt" => <$t>::random_recursive_tree(n(0)?, a.get(1)?.as_u64()?),
                        "rt" => <$t>::random_tournament(n(0)?, a.get(1)?.as_u64()?),
                        _ => return None,
                    };
                    chain(d, producers, consumer)
                }};
            }
            return match repr {
                "al" => g!(AdjacencyList),
                "am" => g!(AdjacencyMap),
                "mx" => g!(AdjacencyMatrix),
                "el" => g!(EdgeList),
                _ => None,
            };
        }
    }
    let desc = Desc::parse(start)?;
    match desc.repr.as_str() {
        "al" => chain(desc.build_al(), producers, consumer),
        "am" => chain(desc.build_am(), producers, consumer),
        "mx" => chain(desc.build_mx(), producers, consumer),
        "el" => chain(desc.build_el(), producers, consumer),
        _ => None,
    }
}

// ------------------------------------------------------------------------------- histories

fn step_class<F: FnOnce()>(f: F) -> V {
    V::atom(if catch_unwind(AssertUnwindSafe(f)).is_ok() { "r" } else { "p" })
}

fn run_hist(desc: &Desc, steps: &[V]) -> Option<Vec<V>> {
    macro_rules! go {
        ($d:expr, $tog:expr) => {{
            let mut d = $d;
            let mut out = Vec::new();
            for s in steps {
                let s = s.as_list()?;
                let op = s.first()?.as_atom()?;
                let x = s.get(1).and_then(V::as_usize)?;
                let y = s.get(2).and_then(V::as_usize);
                let c = match op {
                    "add" => { let y = y?; step_class(|| d.add_arc(x, y)) }
                    "rem" => { let y = y?; step_class(|| { let _ = d.remove_arc(x, y); }) }
                    "tog" => { let y = y?; let f: fn(&mut _, usize, usize) = $tog; step_class(|| f(&mut d, x, y)) }
                    "outdeg" => step_class(|| { let _ = d.outdegree(x); }),
                    "indeg" => step_class(|| { let _ = d.indegree(x); }),
                    "outn" => step_class(|| { let _ = d.out_neighbors(x).count(); }),
                    "has" => { let y = y?; step_class(|| { let _ = d.has_arc(x, y); }) }
                    _ => return None,
                };
                out.push(c);
            }
            let mut res = vec![V::L(out)];
            res.extend(dig_digraph(&d));
            Some(res)
        }};
    }
    match desc.repr.as_str() {
        "al" => go!(desc.build_al(), |d: &mut AdjacencyList, x, y| { d.add_arc(x, y) }),
        "am" => go!(desc.build_am(), |d: &mut AdjacencyMap, x, y| { d.add_arc(x, y) }),
        "mx" => go!(desc.build_mx(), |d: &mut AdjacencyMatrix, x, y| { d.toggle(x, y) }),
        "el" => go!(desc.build_el(), |d: &mut EdgeList, x, y| { d.add_arc(x, y) }),
        _ => None,
    }
}

/// `AdjacencyMatrix` index arithmetic: per-step results, then the arcs.
fn run_mx(order: usize, steps: &[V]) -> Option<Vec<V>> {
    let mut d = AdjacencyMatrix::empty(order);
    let mut out = Vec::new();
    for s in steps {
        let s = s.as_list()?;
        let op = s.first()?.as_atom()?;
        let x = s.get(1)?.as_usize()?;
        let y = s.get(2)?.as_usize()?;
        let c = match op {
            "add" => step_class(|| d.add_arc(x, y)),
            "tog" => step_class(|| d.toggle(x, y)),
            "rem" => catch_unwind(AssertUnwindSafe(|| d.remove_arc(x, y))).map_or_else(|_| V::atom("p"), V::bool),
            "has" => catch_unwind(AssertUnwindSafe(|| d.has_arc(x, y))).map_or_else(|_| V::atom("p"), V::bool),
            _ => return None,
        };
        out.push(c);
    }
    Some(vec![V::L(out), V::pairs(d.arcs()), V::u(d.size())])
}

// ------------------------------------------------------------------------------- traversals

fn opt(o: Option<usize>) -> V {
    V::opt_u(o)
}

/// Drain an iterator until `None`, `rounds` times (an iterator may yield again after `None`).
/// Output: `[[items of round 1] [items of round 2] …] ok|panic`.
fn drain<I, T, F>(mk: impl FnOnce() -> I, rounds: usize, show: F) -> Vec<V>
where
    I: Iterator<Item = T>,
    F: Fn(T) -> V,
{
    let mut all: Vec<V> = Vec::new();
    let mut cur: Vec<V> = Vec::new();
    let r = catch_unwind(AssertUnwindSafe(|| {
        let mut it = mk();
        for _ in 0..rounds {
            while let Some(x) = it.next() {
                cur.push(show(x));
                if cur.len() > 100_000 {
                    break;
                }
            }
            all.push(V::L(std::mem::take(&mut cur)));
        }
    }));
    if r.is_err() {
        all.push(V::L(cur));
    }
    vec![oc(), V::L(all), V::atom(if r.is_ok() { "ok" } else { "panic" })]
}

/// The caller's source iterator with the `size_hint` shapes of `filter` (lower 0, exact upper),
/// `map_while`/`flatten` (lower 0, no upper) and `take_while` over a longer range (upper too large).
#[derive(Clone)]
struct Src {
    v: Vec<usize>,
    i: usize,
    shape: usize,
}

impl Iterator for Src {
    type Item = usize;
    fn next(&mut self) -> Option<usize> {
        let x = self.v.get(self.i).copied();
        if x.is_some() {
            self.i += 1;
        }
        x
    }
    fn size_hint(&self) -> (usize, Option<usize>) {
        let rem = self.v.len() - self.i;
        match self.shape {
            1 => (0, Some(rem)),
            2 => (0, None),
            3 => (0, Some(rem + 1000)),
            _ => (rem, Some(rem)),
        }
    }
}

fn run_it(kind: &str, desc: &Desc, src: &[usize], rounds: usize, shape: usize) -> Option<Vec<V>> {
    let s = || Src { v: src.to_vec(), i: 0, shape };
    let pair = |(a, b): (usize, usize)| V::L(vec![V::u(a), V::u(b)]);
    let step = |(p, v): (Option<usize>, usize)| V::L(vec![opt(p), V::u(v)]);
    Some(match kind {
        "bfs" => with_digraph!(desc, d => drain(|| Bfs::new(&d, s()), rounds, V::u)),
        "bfs_dist" => with_digraph!(desc, d => drain(|| BfsDist::new(&d, s()), rounds, pair)),
        "bfs_pred" => with_digraph!(desc, d => drain(|| BfsPred::new(&d, s()), rounds, step)),
        "dfs" => with_digraph!(desc, d => drain(|| Dfs::new(&d, s()), rounds, V::u)),
        "dfs_dist" => with_digraph!(desc, d => drain(|| DfsDist::new(&d, s()), rounds, pair)),
        "dfs_pred" => with_digraph!(desc, d => drain(|| DfsPred::new(&d, s()), rounds, step)),
        "dijkstra" if desc.repr == "wu" => {
            let d = desc.build_wu();
            drain(|| Dijkstra::new(&d, s()), rounds, V::u)
        }
        "dijkstra_dist" if desc.repr == "wu" => {
            let d = desc.build_wu();
            drain(|| DijkstraDist::new(&d, s()), rounds, pair)
        }
        "dijkstra_pred" if desc.repr == "wu" => {
            let d = desc.build_wu();
            drain(|| DijkstraPred::new(&d, s()), rounds, step)
        }
        _ => return None,
    })
}

fn show_tree(t: PredecessorTree) -> Vec<V> {
    vec![V::L(t.into_iter().map(opt).collect())]
}

fn show_dist(v: Vec<usize>) -> Vec<V> {
    vec![V::L(v.into_iter().map(|x| if x == usize::MAX { V::atom("inf") } else { V::u(x) }).collect())]
}

fn show_path(p: Option<Vec<usize>>) -> Vec<V> {
    vec![p.map_or_else(V::none, V::us)]
}

fn run_alg(name: &str, desc: &Desc, a: &[V]) -> Option<Vec<V>> {
    let src = a.first().and_then(V::as_usizes);
    let tg = a.get(1).and_then(V::as_usizes);
    Some(match name {
        "bfs_dist_distances" => {
            let s = src?;
            with_digraph!(desc, d => show_dist(BfsDist::new(&d, s.into_iter()).distances()))
        }
        "bfs_pred_predecessors" => {
            let s = src?;
            with_digraph!(desc, d => show_tree(BfsPred::new(&d, s.into_iter()).predecessors()))
        }
        "bfs_pred_shortest_path" => {
            let (s, t) = (src?, tg?);
            with_digraph!(desc, d => show_path(BfsPred::new(&d, s.into_iter()).shortest_path(|v| t.contains(&v))))
        }
        "bfs_pred_cycles" => {
            let s = src?;
            with_digraph!(desc, d => vec![V::L(BfsPred::new(&d, s.into_iter()).cycles().into_iter().map(V::us).collect())])
        }
        "dfs_pred_predecessors" => {
            let s = src?;
            with_digraph!(desc, d => show_tree(DfsPred::new(&d, s.into_iter()).predecessors()))
        }
        "dijkstra_dist_distances" if desc.repr == "wu" => {
            let d = desc.build_wu();
            show_dist(DijkstraDist::new(&d, src?.into_iter()).distances())
        }
        "dijkstra_pred_predecessors" if desc.repr == "wu" => {
            let d = desc.build_wu();
            show_tree(DijkstraPred::new(&d, src?.into_iter()).predecessors())
        }
        "dijkstra_pred_shortest_path" if desc.repr == "wu" => {
            let d = desc.build_wu();
            let t = tg?;
            show_path(DijkstraPred::new(&d, src?.into_iter()).shortest_path(|v| t.contains(&v)))
        }
        // BellmanFordMoore::new needs ContiguousOrder only; distances needs isize weights
        "bfm_new" => {
            let s = a.first()?.as_usize()?;
            match desc.repr.as_str() {
                "al" => { let d = desc.build_al(); let _ = BellmanFordMoore::new(&d, s); }
                "mx" => { let d = desc.build_mx(); let _ = BellmanFordMoore::new(&d, s); }
                "el" => { let d = desc.build_el(); let _ = BellmanFordMoore::new(&d, s); }
                "wu" => { let d = desc.build_wu(); let _ = BellmanFordMoore::new(&d, s); }
                "wi" => { let d = desc.build_wi(); let _ = BellmanFordMoore::new(&d, s); }
                _ => return None,
            }
            vec![]
        }
        "bfm" if desc.repr == "wi" => {
            let d = desc.build_wi();
            let mut x = BellmanFordMoore::new(&d, a.first()?.as_usize()?);
            match x.distances() {
                None => vec![V::none()],
                Some(ds) => vec![V::L(ds.iter().map(|&w| if w == isize::MAX { V::atom("inf") } else { V::i(w) }).collect())],
            }
        }
        "fw_new" => {
            with_digraph!(desc, d => { let _ = FloydWarshall::new(&d); vec![] })
        }
        "fw" if desc.repr == "wi" => {
            let d = desc.build_wi();
            let mut x = FloydWarshall::new(&d);
            let m = x.distances();
            let mut out = vec![V::u(m.order)];
            out.extend(dig(m.dist.iter().map(|&w| w as usize)));
            out.extend(dig(m.center()));
            out.extend(dig(m.periphery()));
            out.push(V::bool(m.is_connected()));
            out
        }
        _ => return None,
    })
}

// ------------------------------------------------------------------------------- small types

fn run_dm(name: &str, a: &[V]) -> Option<Vec<V>> {
    let lit = |i: usize| -> Option<DistanceMatrix<isize>> {
        let dist: Vec<isize> = a.get(i)?.as_list()?.iter().map(V::as_isize).collect::<Option<_>>()?;
        // the struct is non-exhaustive, but its three fields are public and assignable
        let mut m = DistanceMatrix::<isize>::new(1, 0);
        m.dist = dist;
        m.infinity = a.get(i + 1)?.as_isize()?;
        m.order = a.get(i + 2)?.as_usize()?;
        Some(m)
    };
    Some(match name {
        "new" => {
            let m = DistanceMatrix::<isize>::new(a.first()?.as_usize()?, isize::MAX);
            let mut out = vec![V::u(m.order), V::u(m.dist.len())];
            out.push(V::bool(m.dist.iter().all(|&x| x == isize::MAX)));
            out
        }
        "center" => dig(lit(0)?.center()),
        "diameter" => vec![V::i(*lit(0)?.diameter())],
        "eccentricities" => { let m = lit(0)?; let r = dig(m.eccentricities().map(|&x| x as usize)); r }
        "is_connected" => b(lit(0)?.is_connected()),
        "periphery" => { let m = lit(0)?; let r = dig(m.periphery()); r }
        "index" => vec![V::i(lit(0)?[a.get(3)?.as_usize()?])],
        "index2" => vec![V::i(lit(0)?[(a.get(3)?.as_usize()?, a.get(4)?.as_usize()?)])],
        "index_mut2" => {
            let mut m = lit(0)?;
            m[(a.get(3)?.as_usize()?, a.get(4)?.as_usize()?)] = 5;
            dig(m.dist.iter().map(|&x| x as usize))
        }
        _ => return None,
    })
}

fn run_pt(name: &str, a: &[V]) -> Option<Vec<V>> {
    Some(match name {
        "new" => {
            let t = PredecessorTree::new(a.first()?.as_usize()?);
            vec![V::u(t.pred.len())]
        }
        "index" => {
            let pred: Vec<Option<usize>> = a.first()?.as_list()?.iter().map(V::as_opt_usize).collect::<Option<_>>()?;
            let t = PredecessorTree::from(pred);
            vec![opt(t[a.get(1)?.as_usize()?])]
        }
        "index_mut" => {
            let pred: Vec<Option<usize>> = a.first()?.as_list()?.iter().map(V::as_opt_usize).collect::<Option<_>>()?;
            let mut t = PredecessorTree::from(pred);
            t[a.get(1)?.as_usize()?] = Some(0);
            show_tree(t)
        }
        _ => return None,
    })
}


// ------------------------------------------------------------------------------- round 2: constructors + everything

fn quiet<F: FnOnce()>(f: F) -> usize {
    usize::from(catch_unwind(AssertUnwindSafe(f)).is_err())
}

/// Every query / traversal on a digraph value that some constructor returned. Returns the number
/// of consumers that panicked (0 for a valid digraph: every argument below is a vertex).
fn exercise_common<D>(d: &D) -> usize
where
    D: Arcs + HasArc + HasEdge + HasWalk + InNeighbors + Indegree + IndegreeSequence + IsComplete
        + IsRegular + IsSemicomplete + IsSimple + IsTournament + Order + OutNeighbors + Outdegree
        + Size + Vertices + DegreeSequence,
{
    let mut p = 0;
    for name in [
        "arcs", "vertices", "order", "size", "degree_sequence", "indegree_sequence", "outdegree_sequence",
        "semidegree_sequence", "max_degree", "min_degree", "sinks", "sources", "is_balanced", "is_complete", "is_oriented",
        "is_regular", "is_semicomplete", "is_simple", "is_symmetric", "is_tournament", "tarjan",
    ] {
        p += quiet(|| { let _ = q_common(d, name, &[]); });
    }
    let vs: Vec<usize> = d.vertices().collect();
    for &u in &vs {
        for name in ["out_neighbors", "in_neighbors", "indegree", "outdegree", "degree", "is_source", "is_sink"] {
            p += quiet(|| { let _ = q_common(d, name, &[V::u(u)]); });
        }
    }
    let n = d.order();
    let idx: Vec<usize> = vs.iter().copied().filter(|&v| v < n).collect();
    for srcs in [idx.clone(), idx.iter().copied().take(1).collect(), idx.iter().copied().rev().take(1).collect()] {
        let s = || srcs.clone().into_iter();
        p += quiet(|| { let _ = Bfs::new(d, s()).count(); });
        p += quiet(|| { let _ = BfsDist::new(d, s()).distances(); });
        p += quiet(|| { let _ = BfsPred::new(d, s()).predecessors(); });
        p += quiet(|| { let _ = BfsPred::new(d, s()).cycles(); });
        p += quiet(|| { let _ = BfsPred::new(d, s()).shortest_path(|v| v + 1 == n); });
        p += quiet(|| { let _ = Dfs::new(d, s()).count(); });
        p += quiet(|| { let _ = DfsDist::new(d, s()).count(); });
        p += quiet(|| { let _ = DfsPred::new(d, s()).predecessors(); });
    }
    p
}

fn exercise_unweighted<D>(d: &D) -> usize
where
    D: Arcs + HasArc + Order + Size + Vertices + Complement + Converse + Union + Clone + AddArc + RemoveArc,
{
    let mut p = 0;
    for name in ["complement", "converse", "clone_eq"] {
        p += quiet(|| { let _ = q_unweighted(d, name, &[], None); });
    }
    for name in ["union", "is_subdigraph", "is_superdigraph", "is_spanning_subdigraph"] {
        p += quiet(|| { let _ = q_unweighted(d, name, &[], Some(d)); });
    }
    p += quiet(|| { let _ = dig_digraph(&d.complement().converse().union(d)); });
    p
}

fn exercise_wu(d: &AdjacencyListWeighted<usize>) -> usize {
    let mut p = exercise_common(d);
    let n = d.order();
    p += quiet(|| { let _ = dig_digraph(&d.converse()); });
    p += quiet(|| { let _ = d.arcs_weighted().count(); });
    for s in 0..n {
        p += quiet(|| { let _ = Dijkstra::new(d, std::iter::once(s)).count(); });
        p += quiet(|| { let _ = DijkstraDist::new(d, std::iter::once(s)).distances(); });
        p += quiet(|| { let _ = DijkstraPred::new(d, std::iter::once(s)).predecessors(); });
        p += quiet(|| { let _ = DijkstraPred::new(d, std::iter::once(s)).shortest_path(|v| v + 1 == n); });
        p += quiet(|| { let _ = d.out_neighbors_weighted(s).count(); });
        p += quiet(|| { let _ = BellmanFordMoore::new(d, s); });
    }
    p
}

fn exercise_wi(d: &AdjacencyListWeighted<isize>) -> usize {
    let mut p = exercise_common(d);
    let n = d.order();
    p += quiet(|| { let _ = dig_digraph(&d.converse()); });
    p += quiet(|| { let _ = d.arcs_weighted().count(); });
    for s in 0..n {
        p += quiet(|| { let mut x = BellmanFordMoore::new(d, s); let _ = x.distances().map(<[isize]>::len); });
        p += quiet(|| { let _ = d.out_neighbors_weighted(s).count(); });
    }
    p += quiet(|| { let mut x = FloydWarshall::new(d); let m = x.distances(); let _ = (m.center(), m.is_connected()); });
    p
}

/// `From<rows | maps | pairs>` of every representation, then — when the constructor returned —
/// every operation and algorithm on the result.
fn run_rows_all(repr: &str, rows: &V) -> Option<Vec<V>> {
    let out = |order: usize, p: usize| Some(vec![V::u(order), V::u(p)]);
    match repr {
        "al" => {
            let d = AdjacencyList::from(rows_sets(rows)?);
            let mut p = exercise_common(&d) + exercise_unweighted(&d);
            p += quiet(|| { let _ = AdjacencyMap::from(d.clone()); });
            p += quiet(|| { let _ = AdjacencyMatrix::from(d.clone()); });
            p += quiet(|| { let _ = EdgeList::from(d.clone()); });
            p += quiet(|| { let _ = AdjacencyListWeighted::<usize>::from(d.clone()); });
            out(d.order(), p)
        }
        "am" => {
            let d = AdjacencyMap::from(rows_sets(rows)?);
            let mut p = exercise_common(&d) + exercise_unweighted(&d);
            p += quiet(|| { let _ = Johnson75::new(&d).circuits(); });
            p += quiet(|| { let _ = d.filter_vertices(|v| v % 2 == 0); });
            p += quiet(|| { let _ = AdjacencyList::from(d.clone()); });
            p += quiet(|| { let _ = AdjacencyMatrix::from(d.clone()); });
            p += quiet(|| { let _ = EdgeList::from(d.clone()); });
            p += quiet(|| { let _ = AdjacencyListWeighted::<isize>::from(d.clone()); });
            out(d.order(), p)
        }
        "mx" => {
            let d = AdjacencyMatrix::from(rows.as_pairs()?);
            let mut p = exercise_common(&d) + exercise_unweighted(&d);
            p += quiet(|| { let _ = AdjacencyList::from(d.clone()); });
            p += quiet(|| { let _ = AdjacencyMap::from(d.clone()); });
            p += quiet(|| { let _ = EdgeList::from(d.clone()); });
            out(d.order(), p)
        }
        "el" => {
            let d = EdgeList::from(rows.as_pairs()?);
            let mut p = exercise_common(&d) + exercise_unweighted(&d);
            p += quiet(|| { let _ = AdjacencyList::from(d.clone()); });
            p += quiet(|| { let _ = AdjacencyMap::from(d.clone()); });
            p += quiet(|| { let _ = AdjacencyMatrix::from(d.clone()); });
            out(d.order(), p)
        }
        "wu" => {
            let rows: Vec<BTreeMap<usize, usize>> = rows_maps(rows)?
                .into_iter()
                .map(|m| m.into_iter().map(|(k, w)| (k, w as usize)).collect())
                .collect();
            let d = AdjacencyListWeighted::<usize>::from(rows);
            let p = exercise_wu(&d);
            out(d.order(), p)
        }
        "wi" => {
            let rows: Vec<BTreeMap<usize, isize>> = rows_maps(rows)?
                .into_iter()
                .map(|m| m.into_iter().map(|(k, w)| (k, w as isize)).collect())
                .collect();
            let d = AdjacencyListWeighted::<isize>::from(rows);
            let p = exercise_wi(&d);
            out(d.order(), p)
        }
        _ => None,
    }
}

// ------------------------------------------------------------------------------- round 2: re-polled iterators

/// Drain, then poll three more times: `[items before the first None, items after it]`.
fn poll<I: Iterator>(mut it: I) -> Vec<V> {
    let mut n = 0usize;
    while it.next().is_some() {
        n += 1;
        if n > 10_000_000 {
            break;
        }
    }
    let mut late = 0usize;
    for _ in 0..3 {
        if it.next().is_some() {
            late += 1;
        }
    }
    vec![V::u(n), V::u(late)]
}

/// Two iterators polled alternately; an exhausted one keeps being polled until the other ends
/// (+ two rounds): `[items of a, items of b, items after a's / b's first None]`.
fn interleave<I: Iterator, J: Iterator>(mut a: I, mut b: J) -> Vec<V> {
    let (mut na, mut nb, mut late) = (0usize, 0usize, 0usize);
    let (mut ea, mut eb) = (false, false);
    let mut extra = 0;
    while extra < 2 && na + nb < 10_000_000 {
        match a.next() {
            Some(_) => { if ea { late += 1 } else { na += 1 } }
            None => ea = true,
        }
        match b.next() {
            Some(_) => { if eb { late += 1 } else { nb += 1 } }
            None => eb = true,
        }
        if ea && eb {
            extra += 1;
        }
    }
    vec![V::u(na), V::u(nb), V::u(late)]
}

macro_rules! iter_of {
    ($d:expr, $name:expr, $x:expr, $k:ident => $body:expr) => {{
        let d = $d;
        let x: Option<usize> = $x;
        match $name {
            "arcs" => { let $k = d.arcs(); Some($body) }
            "vertices" => { let $k = d.vertices(); Some($body) }
            "out_neighbors" => { let $k = d.out_neighbors(x?); Some($body) }
            "in_neighbors" => { let $k = d.in_neighbors(x?); Some($body) }
            "sinks" => { let $k = d.sinks(); Some($body) }
            "sources" => { let $k = d.sources(); Some($body) }
            "degree_sequence" => { let $k = d.degree_sequence(); Some($body) }
            "indegree_sequence" => { let $k = d.indegree_sequence(); Some($body) }
            "outdegree_sequence" => { let $k = d.outdegree_sequence(); Some($body) }
            "semidegree_sequence" => { let $k = d.semidegree_sequence(); Some($body) }
            _ => None,
        }
    }};
}

fn run_repoll(name: &str, desc: &Desc, x: Option<usize>) -> Option<Vec<V>> {
    match (name, desc.repr.as_str()) {
        ("arcs_weighted", "wu") => { let d = desc.build_wu(); let r = poll(d.arcs_weighted()); Some(r) }
        ("arcs_weighted", "wi") => { let d = desc.build_wi(); let r = poll(d.arcs_weighted()); Some(r) }
        ("out_neighbors_weighted", "wu") => { let d = desc.build_wu(); let r = poll(d.out_neighbors_weighted(x?)); Some(r) }
        ("out_neighbors_weighted", "wi") => { let d = desc.build_wi(); let r = poll(d.out_neighbors_weighted(x?)); Some(r) }
        _ => with_digraph!(desc, d => iter_of!(&d, name, x, it => poll(it))),
    }
}

fn run_interleave(name: &str, d1: &Desc, d2: &Desc, x: Option<usize>) -> Option<Vec<V>> {
    if d1.repr != d2.repr {
        return None;
    }
    macro_rules! two {
        ($b:ident) => {{
            let a = d1.$b();
            let b = d2.$b();
            iter_of!(&a, name, x, ia => { let r: Option<Vec<V>> = iter_of!(&b, name, x, ib => interleave(ia, ib)); r? })
        }};
    }
    match d1.repr.as_str() {
        "al" => two!(build_al),
        "am" => two!(build_am),
        "mx" => two!(build_mx),
        "el" => two!(build_el),
        "wu" => two!(build_wu),
        "wi" => two!(build_wi),
        _ => None,
    }
}

/// The same entry point called three times on the SAME object.
fn run_twice(name: &str, desc: &Desc, a: &[V]) -> Option<Vec<V>> {
    let src = a.first().and_then(V::as_usizes).unwrap_or_default();
    let s = || src.clone().into_iter();
    Some(match name {
        "bfs_dist_distances" => with_digraph!(desc, d => {
            let mut x = BfsDist::new(&d, s());
            let (a, b, c) = (x.distances(), x.distances(), x.distances());
            vec![V::u(a.len()), V::u(b.len()), V::u(c.len())]
        }),
        "bfs_pred_predecessors" => with_digraph!(desc, d => {
            let mut x = BfsPred::new(&d, s());
            let (a, b) = (x.predecessors(), x.predecessors());
            let c = x.cycles();
            let e = x.shortest_path(|_| true);
            vec![V::u(a.pred.len()), V::u(b.pred.len()), V::u(c.len()), V::bool(e.is_some())]
        }),
        "dfs_pred_predecessors" => with_digraph!(desc, d => {
            let mut x = DfsPred::new(&d, s());
            let (a, b, c) = (x.predecessors(), x.predecessors(), x.predecessors());
            vec![V::u(a.pred.len()), V::u(b.pred.len()), V::u(c.pred.len())]
        }),
        "tarjan" => with_digraph!(desc, d => {
            let mut t = Tarjan::new(&d);
            let a = t.components().len();
            let b = t.components().len();
            let c = t.components().len();
            vec![V::u(a), V::u(b), V::u(c)]
        }),
        "johnson" if desc.repr == "am" => {
            let d = desc.build_am();
            let mut j = Johnson75::new(&d);
            let (a, b, c) = (j.circuits().len(), j.circuits().len(), j.circuits().len());
            vec![V::u(a), V::u(b), V::u(c)]
        }
        "dijkstra" if desc.repr == "wu" => {
            let d = desc.build_wu();
            let mut x = DijkstraDist::new(&d, s());
            let (a, b) = (x.distances(), x.distances());
            let mut y = DijkstraPred::new(&d, s());
            let (c, e) = (y.predecessors(), y.predecessors());
            let f = y.shortest_path(|_| true);
            vec![V::u(a.len()), V::u(b.len()), V::u(c.pred.len()), V::u(e.pred.len()), V::bool(f.is_some())]
        }
        "bfm" if desc.repr == "wi" => {
            let d = desc.build_wi();
            let mut x = BellmanFordMoore::new(&d, *src.first()?);
            let a = x.distances().map(<[isize]>::len);
            let b = x.distances().map(<[isize]>::len);
            let c = x.distances().map(<[isize]>::len);
            vec![V::opt_u(a), V::opt_u(b), V::opt_u(c)]
        }
        "fw" if desc.repr == "wi" => {
            let d = desc.build_wi();
            let mut x = FloydWarshall::new(&d);
            let a = x.distances().dist.len();
            let b = x.distances().dist.len();
            let c = x.distances().dist.len();
            vec![V::u(a), V::u(b), V::u(c)]
        }
        _ => return None,
    })
}

// ------------------------------------------------------------------------------- dispatch

/// One program. `None` = not a C13 op / malformed.
fn run(op: &str, args: &[V]) -> Option<Vec<V>> {
    match op {
        "chk_gen" => {
            let repr = args.first()?.as_atom()?.to_string();
            let name = args.get(1)?.as_atom()?.to_string();
            class(|| run_gen(&repr, &name, &args[2..]))
        }
        "chk_rows" => {
            let repr = args.first()?.as_atom()?.to_string();
            let rows = args.get(1)?;
            class(|| run_rows(&repr, rows))
        }
        "chk_rows_all" => {
            let repr = args.first()?.as_atom()?.to_string();
            let rows = args.get(1)?;
            class(|| run_rows_all(&repr, rows))
        }
        "chk_repoll" => {
            let name = args.first()?.as_atom()?.to_string();
            if name == "dm_eccentricities" || name == "dm_periphery" {
                let rest = &args[1..];
                return class(|| {
                    let dist: Vec<isize> = rest.first()?.as_list()?.iter().map(V::as_isize).collect::<Option<_>>()?;
                    let mut m = DistanceMatrix::<isize>::new(1, 0);
                    m.dist = dist;
                    m.infinity = rest.get(1)?.as_isize()?;
                    m.order = rest.get(2)?.as_usize()?;
                    let r = if name == "dm_periphery" { poll(m.periphery()) } else { poll(m.eccentricities()) };
                    Some(r)
                });
            }
            let desc = Desc::parse(args.get(1)?)?;
            let x = args.get(2).and_then(V::as_usize);
            class(|| run_repoll(&name, &desc, x))
        }
        "chk_interleave" => {
            let name = args.first()?.as_atom()?.to_string();
            let d1 = Desc::parse(args.get(1)?)?;
            let d2 = Desc::parse(args.get(2)?)?;
            let x = args.get(3).and_then(V::as_usize);
            class(|| run_interleave(&name, &d1, &d2, x))
        }
        "chk_twice" => {
            let name = args.first()?.as_atom()?.to_string();
            let desc = Desc::parse(args.get(1)?)?;
            class(|| run_twice(&name, &desc, &args[2..]))
        }
        "chk_from" => {
            let src = Desc::parse(args.first()?)?;
            let dst = args.get(1)?.as_atom()?.to_string();
            class(|| run_from(&src, &dst))
        }
        "chk_q" => {
            let name = args.first()?.as_atom()?.to_string();
            let desc = Desc::parse(args.get(1)?)?;
            class(|| run_q(&name, &desc, &args[2..]))
        }
        "chk_chain" => {
            let start = args.first()?;
            let producers = args.get(1)?.as_list()?;
            let consumer = args.get(2)?.as_atom()?.to_string();
            class(|| run_chain(start, producers, &consumer))
        }
        "chk_hist" => {
            let desc = Desc::parse(args.first()?)?;
            let steps = args.get(1)?.as_list()?;
            class(|| run_hist(&desc, steps))
        }
        "chk_mx" => {
            let order = args.first()?.as_usize()?;
            let steps = args.get(1)?.as_list()?;
            class(|| run_mx(order, steps))
        }
        "chk_it" => {
            let kind = args.first()?.as_atom()?;
            let desc = Desc::parse(args.get(1)?)?;
            let src = args.get(2)?.as_usizes()?;
            let rounds = args.get(3)?.as_usize()?.clamp(1, 4);
            let shape = args.get(4).and_then(V::as_usize).unwrap_or(0);
            // building the digraph may itself panic (it must not for generated descriptions)
            match catch_unwind(AssertUnwindSafe(|| run_it(kind, &desc, &src, rounds, shape))) {
                Ok(r) => r,
                Err(_) => Some(vec![oc(), V::atom("build-panic")]),
            }
        }
        "chk_alg" => {
            let name = args.first()?.as_atom()?.to_string();
            let desc = Desc::parse(args.get(1)?)?;
            class(|| run_alg(&name, &desc, &args[2..]))
        }
        "chk_dm" => {
            let name = args.first()?.as_atom()?.to_string();
            class(|| run_dm(&name, &args[1..]))
        }
        "chk_pt" => {
            let name = args.first()?.as_atom()?.to_string();
            class(|| run_pt(&name, &args[1..]))
        }
        "chk_prng" => {
            let seed = args.first()?.as_u64()?;
            let k = args.get(1)?.as_usize()?.min(10_000);
            class(|| {
                let mut r = Xoshiro256StarStar::new(seed);
                let mut h = 0u64;
                for _ in 0..k {
                    h = h.rotate_left(5) ^ r.next()?;
                    h ^= u64::from(r.next_bool());
                    h ^= r.next_f64().to_bits();
                }
                let mut z = Xoshiro256StarStar::default();
                let _ = z.next();
                Some(vec![V::I(i128::from(h))])
            })
        }
        _ => None,
    }
}

/// Live bytes once they stop moving: a worker thread that was joined (or whose `scope` ended) may
/// still be freeing its own `Thread` handle for a moment, so a single read can be off by one such
/// block in either direction. A real leak persists however long one waits.
fn settled_live_bytes() -> isize {
    let mut a = crate::alloc::live_bytes();
    for _ in 0..200 {
        std::thread::sleep(std::time::Duration::from_micros(150));
        let b = crate::alloc::live_bytes();
        if a == b {
            return b;
        }
        a = b;
    }
    a
}

pub fn eval(op: &str, args: &[V]) -> Option<Vec<V>> {
    if op == "chk_leak" {
        // chk_leak <k> [<op> <arg>*]  =>  <oc> <class of the last run> <live-byte delta>
        let k = args.first()?.as_usize()?.clamp(1, 200);
        let prog = args.get(1)?.as_list()?;
        let pop = prog.first()?.as_atom()?.to_string();
        if pop == "chk_leak" {
            return None;
        }
        let pargs = &prog[1..];
        // warm-up: lazy statics, thread-locals, the panic machinery, stdout buffers
        let warm = run(&pop, pargs)?;
        drop(warm);
        let _ = run(&pop, pargs);
        // A leak reproduces on every attempt and grows with k; the teardown noise of worker threads
        // (one `Thread` block, either sign) does not: report 0 as soon as one attempt is clean.
        let mut panicked = false; // no allocation between the two measurements survives
        let mut delta: isize = 0;
        for _attempt in 0..4 {
            let before = settled_live_bytes();
            for _ in 0..k {
                let r = run(&pop, pargs)?;
                panicked = r.iter().any(|v| matches!(v, V::A(s) if s == "panic"));
                drop(r);
            }
            let mut after = settled_live_bytes();
            let mut waits = 0;
            while after != before && waits < 5 {
                std::thread::sleep(std::time::Duration::from_millis(5));
                after = settled_live_bytes();
                waits += 1;
            }
            delta = after - before;
            if delta == 0 {
                break;
            }
        }
        let cls = V::atom(if panicked { "panic" } else { "ret" });
        return Some(vec![oc(), cls, V::I(delta as i128)]);
    }
    if !op.starts_with("chk_") {
        return None;
    }
    run(op, args)
}
