//! C08 — `FloydWarshall::distances` on the real code.
//!
//!   fw_dist <[wi n warcs]>  =>  panic
//!                            |  <rows> <flat> <bfm> <dij>
//!
//! * `rows`  = `[[dist[(u, v)] for v] for u]`, read through the PAIR index of `DistanceMatrix`
//! * `flat`  = `dist.dist` (the public flat vector), read independently of the pair index
//! * `bfm`   = for every source `s`: the row the REAL `BellmanFordMoore::new(&d, s).distances()`
//!             returns, or `none` (negative circuit reported)
//! * `dij`   = `na` when some weight is negative, else for every source the row of the REAL
//!             `DijkstraDist::new(&d_usize, once(s)).distances()`
//!
//!   fw_dist2 <[wi n warcs]> =>  panic | <rows1> <flat1> <rows2> <flat2>
//!
//! `fw_dist2` calls `distances()` TWICE on the same `FloydWarshall` object (the matrix is a field
//! of the object and is not re-initialised): `rows1`/`flat1` are copied after the first call,
//! `rows2`/`flat2` after the second.
//!
//! `isize::MAX` / `usize::MAX` are printed as the atom `inf`.
#![allow(clippy::all)]

use crate::graphs::{self, Desc};
use crate::rng::Rng;
use crate::value::V;
use graaf::{BellmanFordMoore, DijkstraDist, FloydWarshall};
use std::collections::BTreeMap;
use std::iter::once;

fn ent(x: isize) -> V {
    if x == isize::MAX { V::atom("inf") } else { V::i(x) }
}

fn entu(x: usize) -> V {
    if x == usize::MAX { V::atom("inf") } else { V::u(x) }
}

pub fn eval(op: &str, args: &[V]) -> Option<Vec<V>> {
    match op {
        "fw_dist" => {
            let [d] = args else { return None };
            let desc = Desc::parse(d)?;
            if desc.repr != "wi" {
                return None;
            }
            // a panic anywhere below (construction, `DistanceMatrix::new` on order 0) is the
            // outcome `panic` (caught in main.rs)
            let digraph = desc.build_wi();
            let n = desc.order();
            let mut fw = FloydWarshall::new(&digraph);
            let dist = fw.distances();
            let rows = V::L((0..n)
                .map(|u| V::L((0..n).map(|v| ent(dist[(u, v)])).collect()))
                .collect());
            let flat = V::L(dist.dist.iter().map(|&x| ent(x)).collect());
            let bfm = V::L((0..n)
                .map(|s| {
                    let mut b = BellmanFordMoore::new(&digraph, s);
                    match b.distances() {
                        None => V::none(),
                        Some(r) => V::L(r.iter().map(|&x| ent(x)).collect()),
                    }
                })
                .collect());
            let dij = if desc.weights.iter().all(|&w| w >= 0) {
                let du = desc.build_wu();
                V::L((0..n)
                    .map(|s| V::L(DijkstraDist::new(&du, once(s)).distances().into_iter().map(entu).collect()))
                    .collect())
            } else {
                V::atom("na")
            };
            Some(vec![rows, flat, bfm, dij])
        }
        "fw_dist2" => {
            let [d] = args else { return None };
            let desc = Desc::parse(d)?;
            if desc.repr != "wi" {
                return None;
            }
            let digraph = desc.build_wi();
            let n = desc.order();
            let mut fw = FloydWarshall::new(&digraph);
            let mut out = Vec::with_capacity(4);
            for _ in 0..2 {
                let dist = fw.distances();
                out.push(V::L((0..n)
                    .map(|u| V::L((0..n).map(|v| ent(dist[(u, v)])).collect()))
                    .collect()));
                out.push(V::L(dist.dist.iter().map(|&x| ent(x)).collect()));
            }
            Some(out)
        }
        _ => None,
    }
}

// ------------------------------------------------------------------------------- generator

/// Quick precondition check (own Bellman-Ford from a virtual super-source).
fn has_neg_cycle(n: usize, arcs: &BTreeMap<(usize, usize), i64>) -> bool {
    let mut d = vec![0i64; n];
    for round in 0..=n {
        let mut changed = false;
        for (&(u, v), &w) in arcs {
            if d[u] + w < d[v] {
                d[v] = d[u] + w;
                changed = true;
            }
        }
        if !changed {
            return false;
        }
        if round == n {
            return true;
        }
    }
    false
}

fn show(rng: &mut Rng, n: usize, arcs: &BTreeMap<(usize, usize), i64>) -> String {
    show_op("fw_dist", rng, n, arcs)
}

fn show_op(op: &str, rng: &mut Rng, n: usize, arcs: &BTreeMap<(usize, usize), i64>) -> String {
    let mut list: Vec<((usize, usize), i64)> = arcs.iter().map(|(&k, &w)| (k, w)).collect();
    rng.shuffle(&mut list);
    let d = Desc {
        repr: "wi".to_string(),
        verts: (0..n).collect(),
        arcs: list.iter().map(|&(k, _)| k).collect(),
        weights: list.iter().map(|&(_, w)| i128::from(w)).collect(),
    };
    format!("{op} {}", d.to_v())
}

/// Scale a digraph without negative circuit to weights around `2^40 … 2^61` such that every sum
/// the algorithms can form (`<= 2 (n-1) max|w|`) still fits `isize`; a non-negative jitter keeps
/// the values from being multiples of the factor (raising weights never creates a negative circuit).
fn scale_large(rng: &mut Rng, n: usize, arcs: &mut BTreeMap<(usize, usize), i64>) {
    let maxabs = arcs.values().map(|w| w.abs()).max().unwrap_or(1).max(1);
    let cap = (1i64 << 61) / ((n.max(2) - 1) as i64 * maxabs);
    let e = 40 + rng.below(22);
    let mut f = 1i64 << e;
    if rng.chance(1, 3) {
        f += rng.range(0, f / 2); // not a power of two
    }
    let f = f.min(cap);
    for w in arcs.values_mut() {
        *w = *w * f + if rng.chance(1, 2) { rng.range(0, 1000) } else { 0 };
    }
}

/// Sparse digraphs of order 60..260 (row lengths around 64 / 128 / 256 cells), no negative circuit
/// (potentials), most pairs unreachable.
fn gen_large_order(rng: &mut Rng, n: usize) -> BTreeMap<(usize, usize), i64> {
    let p: Vec<i64> = (0..n).map(|_| rng.range(0, 3)).collect();
    let mut arcs = BTreeMap::new();
    let mut add = |rng: &mut Rng, u: usize, v: usize, arcs: &mut BTreeMap<(usize, usize), i64>| {
        if u != v {
            let _ = arcs.insert((u, v), rng.range(0, 6) + p[u] - p[v]);
        }
    };
    match rng.below(3) {
        0 => {
            // random sparse: about n arcs
            for _ in 0..(n / 2 + rng.below(n)) {
                let (u, v) = (rng.below(n), rng.below(n));
                add(rng, u, v, &mut arcs);
            }
        }
        1 => {
            // a chain through the last vertices (long shortest paths crossing the row boundary
            // cells n-1 / n) plus a few chords
            let start = rng.below(n / 2);
            for u in start..n - 1 {
                add(rng, u, u + 1, &mut arcs);
            }
            for _ in 0..8 {
                let (u, v) = (rng.below(n), rng.below(n));
                add(rng, u, v, &mut arcs);
            }
        }
        _ => {
            // hubs: a few vertices (first, last, 63/64-th) with many in- and out-arcs
            let hubs = [0, n - 1, 63 % n, 64 % n];
            for _ in 0..n {
                let h = *rng.pick(&hubs);
                let x = rng.below(n);
                if rng.chance(1, 2) {
                    add(rng, h, x, &mut arcs);
                } else {
                    add(rng, x, h, &mut arcs);
                }
            }
        }
    }
    arcs
}

/// Orders around the row lengths 64 / 128 (first ten, quick tier) and 192 / 256 (thorough, stress).
const LARGE: [usize; 15] = [64, 129, 63, 128, 65, 100, 127, 130, 60, 96, 192, 256, 257, 255, 193];

/// The out-of-distribution stream: large weights, repeated calls, large orders.
fn gen_beyond(rng: &mut Rng, n_large_w: usize, n_twice: usize, orders: &[usize], emit: &mut dyn FnMut(String)) {
    for i in 0..n_large_w {
        let (n, mut arcs) = gen_one(rng);
        if arcs.is_empty() {
            continue;
        }
        scale_large(rng, n, &mut arcs);
        let op = if i % 4 == 3 { "fw_dist2" } else { "fw_dist" };
        emit(show_op(op, rng, n, &arcs));
    }
    for _ in 0..n_twice {
        let (n, arcs) = gen_one(rng);
        emit(show_op("fw_dist2", rng, n, &arcs));
    }
    for (i, &n) in orders.iter().enumerate() {
        let mut arcs = gen_large_order(rng, n);
        debug_assert!(!has_neg_cycle(n, &arcs));
        if i % 4 == 1 && !arcs.is_empty() {
            scale_large(rng, n, &mut arcs);
        }
        let op = if i % 3 == 2 { "fw_dist2" } else { "fw_dist" };
        emit(show_op(op, rng, n, &arcs));
    }
}

fn gen_n(rng: &mut Rng) -> usize {
    let r = rng.below(100);
    if r < 14 {
        1
    } else if r < 60 {
        2 + rng.below(5)
    } else if r < 90 {
        7 + rng.below(8)
    } else {
        15 + rng.below(11)
    }
}

/// The weighted arc set is symmetric (`w(u,v) = w(v,u)` wherever either exists): a transposed
/// index could hide behind it.
fn symmetric(arcs: &BTreeMap<(usize, usize), i64>) -> bool {
    arcs.iter().all(|(&(u, v), &w)| arcs.get(&(v, u)) == Some(&w))
}

fn gen_one(rng: &mut Rng) -> (usize, BTreeMap<(usize, usize), i64>) {
    let n = gen_n(rng);
    let (_, shape) = graphs::gen_arcs(rng, n);
    let mut arcs: BTreeMap<(usize, usize), i64> = BTreeMap::new();
    match rng.below(10) {
        // potentials: w' = w + p(u) - p(v), w >= 0: negative arcs, no negative circuit
        0..=3 => {
            let p: Vec<i64> = (0..n).map(|_| rng.range(0, 3)).collect();
            for &(u, v) in &shape {
                let w = rng.range(0, 6);
                let _ = arcs.insert((u, v), w + p[u] - p[v]);
            }
        }
        // non-negative (Dijkstra applies), zero weights included
        4..=6 => {
            for &(u, v) in &shape {
                let _ = arcs.insert((u, v), rng.range(0, 9));
            }
        }
        // negative weights on a DAG orientation of the shape (no circuit at all)
        7 => {
            let mut perm: Vec<usize> = (0..n).collect();
            rng.shuffle(&mut perm);
            for &(u, v) in &shape {
                if perm[u] < perm[v] {
                    let _ = arcs.insert((u, v), rng.range(-3, 9));
                }
            }
        }
        // free weights -3..9, rejection-sampled; repaired by raising negative weights
        _ => {
            for &(u, v) in &shape {
                let w = if rng.chance(1, 5) { rng.range(-3, -1) } else { rng.range(0, 9) };
                let _ = arcs.insert((u, v), w);
            }
            let mut tries = 0;
            while has_neg_cycle(n, &arcs) {
                tries += 1;
                let keys: Vec<(usize, usize)> = arcs.iter().filter(|(_, &w)| w < 0).map(|(&k, _)| k).collect();
                let k = *rng.pick(&keys);
                let w = if tries > 200 { 0 } else { rng.range(-1, 9) };
                let _ = arcs.insert(k, w);
            }
        }
    }
    // asymmetric by construction (19 of 20): raising a weight or dropping an arc never
    // creates a negative circuit
    if n >= 2 && symmetric(&arcs) && !rng.chance(1, 20) {
        if arcs.is_empty() {
            let u = rng.below(n);
            let v = (u + 1 + rng.below(n - 1)) % n;
            let _ = arcs.insert((u, v), rng.range(0, 9));
        } else {
            let keys: Vec<(usize, usize)> = arcs.keys().copied().collect();
            let k = *rng.pick(&keys);
            if rng.chance(1, 2) {
                let _ = arcs.remove(&k);
            } else {
                *arcs.get_mut(&k).expect("key") += 1 + rng.range(0, 2);
            }
        }
    }
    (n, arcs)
}

/// All digraphs on `n` vertices whose arcs carry a weight from `ws` (or are absent), without
/// negative circuit.
fn exhaustive(rng: &mut Rng, n: usize, ws: &[i64], emit: &mut dyn FnMut(String)) {
    let pairs: Vec<(usize, usize)> = (0..n).flat_map(|u| (0..n).filter(move |&v| v != u).map(move |v| (u, v))).collect();
    let base = ws.len() + 1;
    let total = base.pow(pairs.len() as u32);
    for code in 0..total {
        let mut c = code;
        let mut arcs = BTreeMap::new();
        for &p in &pairs {
            let d = c % base;
            c /= base;
            if d > 0 {
                let _ = arcs.insert(p, ws[d - 1]);
            }
        }
        if !has_neg_cycle(n, &arcs) {
            emit(show(rng, n, &arcs));
        }
    }
}

pub fn gen(rng: &mut Rng, thorough: bool, emit: &mut dyn FnMut(String)) {
    if crate::stress() {
        // search mode: the most discriminating cheap cases first (negative arcs + unreachable
        // pairs + large values), then repeated calls, then large orders, then the ordinary stream
        exhaustive(rng, 3, &[-2, -1, 1, 3], emit);
        let orders: Vec<usize> = (0..60).map(|i| LARGE[i % LARGE.len()]).collect();
        gen_beyond(rng, 3_000, 2_000, &orders, emit);
        for _ in 0..3_000 {
            let (n, arcs) = gen_one(rng);
            emit(show(rng, n, &arcs));
        }
        return;
    }
    // (1) exhaustive small scopes
    let all: Vec<i64> = (-3..=9).collect();
    exhaustive(rng, 1, &all, emit);
    exhaustive(rng, 2, &all, emit);
    if thorough {
        exhaustive(rng, 3, &[-2, -1, 1, 3], emit);
    } else {
        exhaustive(rng, 3, &[-1, 2], emit);
    }
    // (2) random families
    let n_random = if thorough { 8_000 } else { 450 };
    for _ in 0..n_random {
        let (n, arcs) = gen_one(rng);
        debug_assert!(!has_neg_cycle(n, &arcs));
        emit(show(rng, n, &arcs));
    }
    // (3) beyond the ordinary distribution: weights 2^40..2^61, two calls on one object,
    //     sparse digraphs of order 60..130
    if thorough {
        let orders: Vec<usize> = (0..150).map(|i| LARGE[i % LARGE.len()]).collect();
        gen_beyond(rng, 1_500, 1_500, &orders, emit);
    } else {
        let orders: Vec<usize> = (0..80).map(|i| LARGE[i % 10]).collect();
        gen_beyond(rng, 150, 120, &orders, emit);
    }
}
