//! C08 — `FloydWarshall::distances` on the real code.
//!
//!   fw_dist <[wi n warcs]>  =>  panic
//!                            |  <rows> <flat> <bfm> <dij>
//!
//! * `rows`  = `[[dist[(u, v)] for v] for u]`, read through the PAIR index of `DistanceMatrix`
//! * `flat`  = `dist.dist` (the public flat vector), read independently of the pair index
//! * `bfm`   = for every source `s`: the row the REAL `BellmanFordMoore::new(&d, s).distances()`
//!             returns, or `none` (negative circuit reported)
//! * `dij`   = `na` when some weight is negative, else for every source the row of the REAL
//!             `DijkstraDist::new(&d_usize, once(s)).distances()`
//!
//!   fw_dist2 <[wi n warcs]> =>  panic | <rows1> <flat1> <rows2> <flat2>
//!
//! `fw_dist2` calls `distances()` TWICE on the same `FloydWarshall` object (the matrix is a field
//! of the object and is not re-initialised): `rows1`/`flat1` are copied after the first call,
//! `rows2`/`flat2` after the second.
//!
//!   fw_big <[wi n warcs]>   =>  panic | <ncells> <finite> <diag> <flatfinite> <bfm>
//!
//! `fw_big` is the sparse observation for orders above 1024 (a full matrix would be millions of
//! tokens): `ncells = dist.dist.len()`; `finite` = every `[u v d]`, `u != v`, with
//! `dist[(u, v)] != isize::MAX` (pair index, row-major order); `diag` = every `[u d]` with
//! `dist[(u, u)] != 0`; `flatfinite` = every `[idx d]` of the flat vector with `d != isize::MAX`
//! off the diagonal; `bfm` = for every source `s` WITH out-arcs the finite entries `[s v d]`
//! (`v != s`) of the real `BellmanFordMoore` row, or `[s none]`.
//!
//! `isize::MAX` / `usize::MAX` are printed as the atom `inf`.
#![allow(clippy::all)]

use crate::graphs::{self, Desc};
use crate::rng::Rng;
use crate::value::V;
use graaf::{BellmanFordMoore, DijkstraDist, FloydWarshall};
use std::collections::BTreeMap;
use std::iter::once;

fn ent(x: isize) -> V {
    if x == isize::MAX { V::atom("inf") } else { V::i(x) }
}

fn entu(x: usize) -> V {
    if x == usize::MAX { V::atom("inf") } else { V::u(x) }
}

pub fn eval(op: &str, args: &[V]) -> Option<Vec<V>> {
    match op {
        "fw_dist" => {
            let [d] = args else { return None };
            let desc = Desc::parse(d)?;
            if desc.repr != "wi" {
                return None;
            }
            // a panic anywhere below (construction, `DistanceMatrix::new` on order 0) is the
            // outcome `panic` (caught in main.rs)
            let digraph = desc.build_wi();
            let n = desc.order();
            let mut fw = FloydWarshall::new(&digraph);
            let dist = fw.distances();
            let rows = V::L((0..n)
                .map(|u| V::L((0..n).map(|v| ent(dist[(u, v)])).collect()))
                .collect());
            let flat = V::L(dist.dist.iter().map(|&x| ent(x)).collect());
            let bfm = V::L((0..n)
                .map(|s| {
                    let mut b = BellmanFordMoore::new(&digraph, s);
                    match b.distances() {
                        None => V::none(),
                        Some(r) => V::L(r.iter().map(|&x| ent(x)).collect()),
                    }
                })
                .collect());
            let dij = if desc.weights.iter().all(|&w| w >= 0) {
                let du = desc.build_wu();
                V::L((0..n)
                    .map(|s| V::L(DijkstraDist::new(&du, once(s)).distances().into_iter().map(entu).collect()))
                    .collect())
            } else {
                V::atom("na")
            };
            Some(vec![rows, flat, bfm, dij])
        }
        "fw_dist2" => {
            let [d] = args else { return None };
            let desc = Desc::parse(d)?;
            if desc.repr != "wi" {
                return None;
            }
            let digraph = desc.build_wi();
            let n = desc.order();
            let mut fw = FloydWarshall::new(&digraph);
            let mut out = Vec::with_capacity(4);
            for _ in 0..2 {
                let dist = fw.distances();
                out.push(V::L((0..n)
                    .map(|u| V::L((0..n).map(|v| ent(dist[(u, v)])).collect()))
                    .collect()));
                out.push(V::L(dist.dist.iter().map(|&x| ent(x)).collect()));
            }
            Some(out)
        }
        "fw_big" => {
            let [d] = args else { return None };
            let desc = Desc::parse(d)?;
            if desc.repr != "wi" {
                return None;
            }
            let digraph = desc.build_wi();
            let n = desc.order();
            let mut fw = FloydWarshall::new(&digraph);
            let dist = fw.distances();
            let mut finite = vec![];
            let mut diag = vec![];
            for u in 0..n {
                for v in 0..n {
                    let x = dist[(u, v)];
                    if u == v {
                        if x != 0 {
                            diag.push(V::L(vec![V::u(u), ent(x)]));
                        }
                    } else if x != isize::MAX {
                        finite.push(V::L(vec![V::u(u), V::u(v), V::i(x)]));
                    }
                }
            }
            let mut flat = vec![];
            for (idx, &x) in dist.dist.iter().enumerate() {
                if x != isize::MAX && idx / n != idx % n {
                    flat.push(V::L(vec![V::u(idx), V::i(x)]));
                }
            }
            let mut sources: Vec<usize> = desc.arcs.iter().map(|&(u, _)| u).collect();
            sources.sort_unstable();
            sources.dedup();
            let mut bfm = vec![];
            for s in sources {
                let mut b = BellmanFordMoore::new(&digraph, s);
                match b.distances() {
                    None => bfm.push(V::L(vec![V::u(s), V::none()])),
                    Some(r) => {
                        for (v, &x) in r.iter().enumerate() {
                            if v != s && x != isize::MAX {
                                bfm.push(V::L(vec![V::u(s), V::u(v), V::i(x)]));
                            }
                        }
                    }
                }
            }
            Some(vec![V::u(dist.dist.len()), V::L(finite), V::L(diag), V::L(flat), V::L(bfm)])
        }
        _ => None,
    }
}

// ------------------------------------------------------------------------------- generator

/// Quick precondition check (own Bellman-Ford from a virtual super-source).
fn has_neg_cycle(n: usize, arcs: &BTreeMap<(usize, usize), i64>) -> bool {
    let mut d = vec![0i64; n];
    for round in 0..=n {
        let mut changed = false;
        for (&(u, v), &w) in arcs {
            if d[u] + w < d[v] {
                d[v] = d[u] + w;
                changed = true;
            }
        }
        if !changed {
            return false;
        }
        if round == n {
            return true;
        }
    }
    false
}

fn show(rng: &mut Rng, n: usize, arcs: &BTreeMap<(usize, usize), i64>) -> String {
    show_op("fw_dist", rng, n, arcs)
}

fn show_op(op: &str, rng: &mut Rng, n: usize, arcs: &BTreeMap<(usize, usize), i64>) -> String {
    let mut list: Vec<((usize, usize), i64)> = arcs.iter().map(|(&k, &w)| (k, w)).collect();
    rng.shuffle(&mut list);
    let d = Desc {
        repr: "wi".to_string(),
        verts: (0..n).collect(),
        arcs: list.iter().map(|&(k, _)| k).collect(),
        weights: list.iter().map(|&(_, w)| i128::from(w)).collect(),
    };
    format!("{op} {}", d.to_v())
}

/// Scale a digraph without negative circuit to weights around `2^40 … 2^61` such that every sum
/// the algorithms can form (`<= 2 (n-1) max|w|`) still fits `isize`; a non-negative jitter keeps
/// the values from being multiples of the factor (raising weights never creates a negative circuit).
fn scale_large(rng: &mut Rng, n: usize, arcs: &mut BTreeMap<(usize, usize), i64>) {
    let maxabs = arcs.values().map(|w| w.abs()).max().unwrap_or(1).max(1);
    let cap = (1i64 << 61) / ((n.max(2) - 1) as i64 * maxabs);
    let e = 40 + rng.below(22);
    let mut f = 1i64 << e;
    if rng.chance(1, 3) {
        f += rng.range(0, f / 2); // not a power of two
    }
    let f = f.min(cap);
    for w in arcs.values_mut() {
        *w = *w * f + if rng.chance(1, 2) { rng.range(0, 1000) } else { 0 };
    }
}

/// Sparse digraphs of order 60..260 (row lengths around 64 / 128 / 256 cells), no negative circuit
/// (potentials), most pairs unreachable.
fn gen_large_order(rng: &mut Rng, n: usize) -> BTreeMap<(usize, usize), i64> {
    let p: Vec<i64> = (0..n).map(|_| rng.range(0, 3)).collect();
    let mut arcs = BTreeMap::new();
    let add = |rng: &mut Rng, u: usize, v: usize, arcs: &mut BTreeMap<(usize, usize), i64>| {
        if u != v {
            let _ = arcs.insert((u, v), rng.range(0, 6) + p[u] - p[v]);
        }
    };
    match rng.below(3) {
        0 => {
            // random sparse: about n arcs
            for _ in 0..(n / 2 + rng.below(n)) {
                let (u, v) = (rng.below(n), rng.below(n));
                add(rng, u, v, &mut arcs);
            }
        }
        1 => {
            // a chain through the last vertices (long shortest paths crossing the row boundary
            // cells n-1 / n) plus a few chords
            let start = rng.below(n / 2);
            for u in start..n - 1 {
                add(rng, u, u + 1, &mut arcs);
            }
            for _ in 0..8 {
                let (u, v) = (rng.below(n), rng.below(n));
                add(rng, u, v, &mut arcs);
            }
        }
        _ => {
            // hubs: a few vertices (first, last, 63/64-th) with many in- and out-arcs
            let hubs = [0, n - 1, 63 % n, 64 % n];
            for _ in 0..n {
                let h = *rng.pick(&hubs);
                let x = rng.below(n);
                if rng.chance(1, 2) {
                    add(rng, h, x, &mut arcs);
                } else {
                    add(rng, x, h, &mut arcs);
                }
            }
        }
    }
    arcs
}

const MAXI: i128 = isize::MAX as i128;
const H: i128 = MAXI / 2; // 2^62 - 1

/// All walk weights of a DAG given as arcs `lo -> hi` in a topological numbering `topo`
/// lie between the minimum and maximum path weight of each pair; returns true when every one of
/// them is within `-(MAX-1) ..= MAX-1`, i.e. every sum any of the algorithms can form fits an
/// `isize` and is not the sentinel.
fn dag_sums_fit(n: usize, topo: &[usize], arcs: &BTreeMap<(usize, usize), i128>) -> bool {
    // pos[v] = position of v in the topological order
    let mut pos = vec![0; n];
    for (i, &v) in topo.iter().enumerate() {
        pos[v] = i;
    }
    for s in 0..n {
        let mut lo: Vec<Option<i128>> = vec![None; n];
        let mut hi: Vec<Option<i128>> = vec![None; n];
        lo[s] = Some(0);
        hi[s] = Some(0);
        for &u in topo {
            let (Some(l), Some(h)) = (lo[u], hi[u]) else { continue };
            for (&(a, b), &w) in arcs.range((u, 0)..(u + 1, 0)) {
                debug_assert!(a == u && pos[b] > pos[u]);
                let (nl, nh) = (l + w, h + w);
                if nl.abs() > MAXI - 1 || nh.abs() > MAXI - 1 {
                    return false;
                }
                lo[b] = Some(lo[b].map_or(nl, |x| x.min(nl)));
                hi[b] = Some(hi[b].map_or(nh, |x| x.max(nh)));
            }
        }
    }
    true
}

/// BOUNDARY-SUM family: a chain whose leg weights add up to the largest representable finite
/// distances (`MAX-1`, `MAX-2`, `2^62`, `2^62 ± 1`, …; legs `H, H`, `H-k, k, H`, `H+k, -k, H`, both
/// signs), vertex labels permuted (so that every split point becomes the first one tried), plus a
/// few small side arcs and isolated vertices.  It is a DAG: every walk is a path, and
/// `dag_sums_fit` guarantees that every sum the code can form fits.
fn gen_boundary(rng: &mut Rng) -> (usize, BTreeMap<(usize, usize), i128>) {
    let k = i128::from(rng.range(1, 9));
    let k2 = i128::from(rng.range(1, 9));
    let p62: i128 = 1 << 62;
    let legs: Vec<i128> = match rng.below(16) {
        0 => vec![H, H],
        1 => vec![H - k, k, H],
        2 => vec![H, H - k, k],
        3 => vec![H + k, -k, H],
        4 => vec![H, H, -k],
        5 => vec![H - k, k, H, -k2],
        6 => vec![H, H - 1],               // MAX - 2
        7 => vec![H - k, H, k - 1],        // MAX - 2
        8 => vec![p62 / 2, p62 / 2],       // exactly 2^62
        9 => vec![p62 - k, k],
        10 => vec![p62 + k, -k],
        11 => vec![H, 2],                  // 2^62 + 1
        12 => vec![H - k, k - 1],          // 2^62 - 2
        13 => vec![k, H, H - k],           // MAX - 1 with the big legs last
        14 => vec![MAXI - 1 - k, k],       // one leg almost MAX
        _ => vec![H - k, k, H - k2, k2],
    };
    let legs: Vec<i128> = if rng.chance(1, 3) { legs.iter().map(|w| -w).collect() } else { legs };
    let m = legs.len() + 1;
    let extra = rng.below(3);
    let n = m + extra;
    let mut topo: Vec<usize> = (0..n).collect();
    rng.shuffle(&mut topo);
    let mut arcs: BTreeMap<(usize, usize), i128> = BTreeMap::new();
    for (i, &w) in legs.iter().enumerate() {
        let _ = arcs.insert((topo[i], topo[i + 1]), w);
    }
    debug_assert!(dag_sums_fit(n, &topo, &arcs));
    // small forward side arcs (skipping at least one chain vertex), kept only while the sums fit
    for _ in 0..rng.below(3) {
        let i = rng.below(n);
        let j = rng.below(n);
        if i + 1 < j && !arcs.contains_key(&(topo[i], topo[j])) {
            let w = i128::from(rng.range(-9, 9));
            let _ = arcs.insert((topo[i], topo[j]), w);
            if !dag_sums_fit(n, &topo, &arcs) {
                let _ = arcs.remove(&(topo[i], topo[j]));
            }
        }
    }
    (n, arcs)
}

fn show_wide(op: &str, rng: &mut Rng, n: usize, arcs: &BTreeMap<(usize, usize), i128>) -> String {
    let mut list: Vec<((usize, usize), i128)> = arcs.iter().map(|(&k, &w)| (k, w)).collect();
    rng.shuffle(&mut list);
    let d = Desc {
        repr: "wi".to_string(),
        verts: (0..n).collect(),
        arcs: list.iter().map(|&(k, _)| k).collect(),
        weights: list.iter().map(|&(_, w)| w).collect(),
    };
    format!("{op} {}", d.to_v())
}

fn gen_boundary_stream(rng: &mut Rng, count: usize, emit: &mut dyn FnMut(String)) {
    for i in 0..count {
        let (n, arcs) = gen_boundary(rng);
        let op = if i % 5 == 4 { "fw_dist2" } else { "fw_dist" };
        emit(show_wide(op, rng, n, &arcs));
    }
}

/// Very sparse digraphs (<= 20 arcs) of order 1025..1100 and 2049..2060 with arcs into / through
/// the vertices at the block boundaries 1023, 1024, 1025, 2048, 2049 — observed sparsely
/// (`fw_big`).  Potentials keep them free of negative circuits.
fn gen_big_sparse(rng: &mut Rng, emit: &mut dyn FnMut(String)) {
    let n = if rng.chance(2, 3) { 1025 + rng.below(76) } else { 2049 + rng.below(12) };
    let mut special: Vec<usize> = vec![0, 1, 1023, 1024, n - 1];
    for &x in &[1025usize, 1026, 2047, 2048, 2049, 2050] {
        if x < n {
            special.push(x);
        }
    }
    let pick = |rng: &mut Rng, special: &Vec<usize>| -> usize {
        if rng.chance(2, 3) { *rng.pick(special) } else { rng.below(n) }
    };
    let mut pot: BTreeMap<usize, i64> = BTreeMap::new();
    let mut arcs: BTreeMap<(usize, usize), i64> = BTreeMap::new();
    // a path that passes THROUGH a boundary vertex, then random arcs among the special vertices
    let b = *rng.pick(&special[2..]);
    let mut chain = vec![pick(rng, &special), b, pick(rng, &special), pick(rng, &special)];
    chain.dedup();
    let narcs = 6 + rng.below(13);
    let mut pairs: Vec<(usize, usize)> = chain.windows(2).map(|w| (w[0], w[1])).collect();
    while pairs.len() < narcs {
        pairs.push((pick(rng, &special), pick(rng, &special)));
    }
    for (u, v) in pairs {
        if u == v {
            continue;
        }
        let pu = *pot.entry(u).or_insert_with(|| rng.range(0, 4));
        let pv = *pot.entry(v).or_insert_with(|| rng.range(0, 4));
        let _ = arcs.insert((u, v), rng.range(0, 9) + pu - pv);
    }
    debug_assert!(arcs.len() <= 20);
    emit(show_op("fw_big", rng, n, &arcs));
}

/// Orders around the row lengths 64 / 128 (first ten, quick tier) and 192 / 256 (thorough, stress).
const LARGE: [usize; 15] = [64, 129, 63, 128, 65, 100, 127, 130, 60, 96, 192, 256, 257, 255, 193];

/// The out-of-distribution stream: large weights, repeated calls, large orders.
fn gen_beyond(rng: &mut Rng, n_large_w: usize, n_twice: usize, orders: &[usize], emit: &mut dyn FnMut(String)) {
    for i in 0..n_large_w {
        let (n, mut arcs) = gen_one(rng);
        if arcs.is_empty() {
            continue;
        }
        scale_large(rng, n, &mut arcs);
        let op = if i % 4 == 3 { "fw_dist2" } else { "fw_dist" };
        emit(show_op(op, rng, n, &arcs));
    }
    for _ in 0..n_twice {
        let (n, arcs) = gen_one(rng);
        emit(show_op("fw_dist2", rng, n, &arcs));
    }
    for (i, &n) in orders.iter().enumerate() {
        let mut arcs = gen_large_order(rng, n);
        debug_assert!(!has_neg_cycle(n, &arcs));
        if i % 4 == 1 && !arcs.is_empty() {
            scale_large(rng, n, &mut arcs);
        }
        let op = if i % 3 == 2 { "fw_dist2" } else { "fw_dist" };
        emit(show_op(op, rng, n, &arcs));
    }
}

fn gen_n(rng: &mut Rng) -> usize {
    let r = rng.below(100);
    if r < 21 {
        1
    } else if r < 60 {
        2 + rng.below(5)
    } else if r < 90 {
        7 + rng.below(8)
    } else {
        15 + rng.below(11)
    }
}

/// The weighted arc set is symmetric (`w(u,v) = w(v,u)` wherever either exists): a transposed
/// index could hide behind it.
fn symmetric(arcs: &BTreeMap<(usize, usize), i64>) -> bool {
    arcs.iter().all(|(&(u, v), &w)| arcs.get(&(v, u)) == Some(&w))
}

fn gen_one(rng: &mut Rng) -> (usize, BTreeMap<(usize, usize), i64>) {
    let n = gen_n(rng);
    let (_, shape) = graphs::gen_arcs(rng, n);
    let mut arcs: BTreeMap<(usize, usize), i64> = BTreeMap::new();
    match rng.below(10) {
        // potentials: w' = w + p(u) - p(v), w >= 0: negative arcs, no negative circuit
        0..=3 => {
            let p: Vec<i64> = (0..n).map(|_| rng.range(0, 3)).collect();
            for &(u, v) in &shape {
                let w = rng.range(0, 6);
                let _ = arcs.insert((u, v), w + p[u] - p[v]);
            }
        }
        // non-negative (Dijkstra applies), zero weights included
        4..=6 => {
            for &(u, v) in &shape {
                let _ = arcs.insert((u, v), rng.range(0, 9));
            }
        }
        // negative weights on a DAG orientation of the shape (no circuit at all)
        7 => {
            let mut perm: Vec<usize> = (0..n).collect();
            rng.shuffle(&mut perm);
            for &(u, v) in &shape {
                if perm[u] < perm[v] {
                    let _ = arcs.insert((u, v), rng.range(-3, 9));
                }
            }
        }
        // free weights -3..9, rejection-sampled; repaired by raising negative weights
        _ => {
            for &(u, v) in &shape {
                let w = if rng.chance(1, 5) { rng.range(-3, -1) } else { rng.range(0, 9) };
                let _ = arcs.insert((u, v), w);
            }
            let mut tries = 0;
            while has_neg_cycle(n, &arcs) {
                tries += 1;
                let keys: Vec<(usize, usize)> = arcs.iter().filter(|(_, &w)| w < 0).map(|(&k, _)| k).collect();
                let k = *rng.pick(&keys);
                let w = if tries > 200 { 0 } else { rng.range(-1, 9) };
                let _ = arcs.insert(k, w);
            }
        }
    }
    // asymmetric by construction (19 of 20): raising a weight or dropping an arc never
    // creates a negative circuit
    if n >= 2 && symmetric(&arcs) && !rng.chance(1, 20) {
        if arcs.is_empty() {
            let u = rng.below(n);
            let v = (u + 1 + rng.below(n - 1)) % n;
            let _ = arcs.insert((u, v), rng.range(0, 9));
        } else {
            let keys: Vec<(usize, usize)> = arcs.keys().copied().collect();
            let k = *rng.pick(&keys);
            if rng.chance(1, 2) {
                let _ = arcs.remove(&k);
            } else {
                *arcs.get_mut(&k).expect("key") += 1 + rng.range(0, 2);
            }
        }
    }
    (n, arcs)
}

/// All digraphs on `n` vertices whose arcs carry a weight from `ws` (or are absent), without
/// negative circuit.
fn exhaustive(rng: &mut Rng, n: usize, ws: &[i64], emit: &mut dyn FnMut(String)) {
    let pairs: Vec<(usize, usize)> = (0..n).flat_map(|u| (0..n).filter(move |&v| v != u).map(move |v| (u, v))).collect();
    let base = ws.len() + 1;
    let total = base.pow(pairs.len() as u32);
    for code in 0..total {
        let mut c = code;
        let mut arcs = BTreeMap::new();
        for &p in &pairs {
            let d = c % base;
            c /= base;
            if d > 0 {
                let _ = arcs.insert(p, ws[d - 1]);
            }
        }
        if !has_neg_cycle(n, &arcs) {
            emit(show(rng, n, &arcs));
        }
    }
}

pub fn gen(rng: &mut Rng, thorough: bool, emit: &mut dyn FnMut(String)) {
    if crate::stress() {
        // search mode: the most discriminating cheap cases first (negative arcs + unreachable
        // pairs + large values), then repeated calls, then large orders, then the ordinary stream
        gen_boundary_stream(rng, 2_000, emit);
        for _ in 0..40 {
            gen_big_sparse(rng, emit);
        }
        exhaustive(rng, 3, &[-2, -1, 1, 3], emit);
        let orders: Vec<usize> = (0..60).map(|i| LARGE[i % LARGE.len()]).collect();
        gen_beyond(rng, 3_000, 2_000, &orders, emit);
        for _ in 0..3_000 {
            let (n, arcs) = gen_one(rng);
            emit(show(rng, n, &arcs));
        }
        return;
    }
    // (1) exhaustive small scopes
    let all: Vec<i64> = (-3..=9).collect();
    exhaustive(rng, 1, &all, emit);
    exhaustive(rng, 2, &all, emit);
    if thorough {
        exhaustive(rng, 3, &[-2, -1, 1, 3], emit);
    } else {
        exhaustive(rng, 3, &[-1, 2], emit);
    }
    // (2) random families
    let n_random = if thorough { 8_000 } else { 450 };
    for _ in 0..n_random {
        let (n, arcs) = gen_one(rng);
        debug_assert!(!has_neg_cycle(n, &arcs));
        emit(show(rng, n, &arcs));
    }
    // (3) beyond the ordinary distribution: weights 2^40..2^61, two calls on one object,
    //     sparse digraphs of order 60..130
    // (4) boundary sums (largest representable finite distances) and orders above 1024
    gen_boundary_stream(rng, if thorough { 1_500 } else { 160 }, emit);
    for _ in 0..(if thorough { 120 } else { 100 }) {
        gen_big_sparse(rng, emit);
    }
    if thorough {
        let orders: Vec<usize> = (0..150).map(|i| LARGE[i % LARGE.len()]).collect();
        gen_beyond(rng, 1_500, 1_500, &orders, emit);
    } else {
        let orders: Vec<usize> = (0..110).map(|i| LARGE[i % 10]).collect();
        gen_beyond(rng, 150, 120, &orders, emit);
    }
}
