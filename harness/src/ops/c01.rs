//! C01 — mutation histories on the real representations, observed after EVERY call.
//!
//!   repr_obs <desc>                    =>  [order [vertices] [arcs]]
//!   repr_history <repr> <start> <ops>  =>  [start OBS] [ret OBS]* [final order [verts] [arcs] ([arcs()])]
//!
//! `<start>` is a digraph description (built through the public API), `<ops>` a list of
//! `[add u v] [addw u v w] [rem u v] [tog u v]` (`add`: the four unweighted representations,
//! `addw`: `wu`/`wi`, `tog`: `mx`).  Every call runs under its own `catch_unwind`; after a panic
//! the SAME digraph is used for the following calls — that is how "leaves the digraph
//! unchanged" is observed.  `ret` is `unit | true | false | panic`.
//!
//! `OBS` depends on the probe universe `U` = start vertices ∪ {m, m+1} (m = max start id + 1)
//! ∪ all ids mentioned by the ops:
//!   * |U| ≤ 12 ("full"):   `order [vertices] [arcs] size [has]`, `has` = all `(u,v) ∈ U×U` with
//!     `has_arc(u,v)` (weighted: `[u v w]` from `arc_weight`);
//!   * otherwise ("digest"): `order #vertices size hash [p q]` — a rolling hash of
//!     `vertices()` and `arcs()`/`arcs_weighted()` in iteration order and `has_arc` /
//!     `arc_weight` on `(u,v)`, `(v,u)` of the call; the full final observation closes the line.
#![allow(unused_imports, dead_code, clippy::all)]

use crate::graphs::{self, Desc};
use crate::rng::Rng;
use crate::value::V;
use graaf::{
    AddArc, AddArcWeighted, AdjacencyList, AdjacencyListWeighted, AdjacencyMap, AdjacencyMatrix,
    ArcWeight, Arcs, ArcsWeighted, EdgeList, HasArc, Order, RemoveArc, Size, Vertices,
};
use std::panic::{catch_unwind, AssertUnwindSafe};

#[derive(Clone, Debug, PartialEq, Eq)]
pub enum HOp {
    Add(usize, usize),
    AddW(usize, usize, i128),
    Rem(usize, usize),
    Tog(usize, usize),
}

impl HOp {
    pub fn parse(v: &V) -> Option<HOp> {
        let xs = v.as_list()?;
        let name = xs.first()?.as_atom()?;
        match (name, xs.len()) {
            ("add", 3) => Some(HOp::Add(xs[1].as_usize()?, xs[2].as_usize()?)),
            ("rem", 3) => Some(HOp::Rem(xs[1].as_usize()?, xs[2].as_usize()?)),
            ("tog", 3) => Some(HOp::Tog(xs[1].as_usize()?, xs[2].as_usize()?)),
            ("addw", 4) => match &xs[3] {
                V::I(w) => Some(HOp::AddW(xs[1].as_usize()?, xs[2].as_usize()?, *w)),
                _ => None,
            },
            _ => None,
        }
    }
    pub fn to_v(&self) -> V {
        match *self {
            HOp::Add(u, v) => V::L(vec![V::atom("add"), V::u(u), V::u(v)]),
            HOp::Rem(u, v) => V::L(vec![V::atom("rem"), V::u(u), V::u(v)]),
            HOp::Tog(u, v) => V::L(vec![V::atom("tog"), V::u(u), V::u(v)]),
            HOp::AddW(u, v, w) => V::L(vec![V::atom("addw"), V::u(u), V::u(v), V::I(w)]),
        }
    }
    pub fn ends(&self) -> (usize, usize) {
        match *self {
            HOp::Add(u, v) | HOp::Rem(u, v) | HOp::Tog(u, v) | HOp::AddW(u, v, _) => (u, v),
        }
    }
}

pub fn parse_ops(v: &V) -> Option<Vec<HOp>> {
    v.as_list()?.iter().map(HOp::parse).collect()
}

pub fn show_ops(ops: &[HOp]) -> V {
    V::L(ops.iter().map(HOp::to_v).collect())
}

/// The real digraph under test, seen only through graaf's public API.
pub trait Subject: Clone + Eq + Ord + std::hash::Hash {
    const WEIGHTED: bool;
    /// `None` = the representation has no such method.
    fn apply(&mut self, op: &HOp) -> Option<V>;
    fn order_(&self) -> usize;
    fn verts_(&self) -> Vec<usize>;
    /// `arcs()` (unweighted, weight 1) or `arcs_weighted()`.
    fn arcs_(&self) -> Vec<(usize, usize, i128)>;
    /// `arcs()` (also for the weighted representation).
    fn plain_arcs_(&self) -> Vec<(usize, usize)>;
    /// Two `arcs()` iterators over the same digraph polled alternately; the listing of the second.
    fn arcs_interleaved_(&self) -> Vec<(usize, usize)>;
    fn size_(&self) -> usize;
    /// `has_arc` (unweighted: `Some(1)`) / `arc_weight`, plus `has_arc` for the weighted one.
    fn weight_(&self, u: usize, v: usize) -> Option<i128>;
}

fn unit_or_panic<F: FnOnce()>(f: F) -> V {
    match catch_unwind(AssertUnwindSafe(f)) {
        Ok(()) => V::atom("unit"),
        Err(_) => V::atom("panic"),
    }
}

fn bool_or_panic<F: FnOnce() -> bool>(f: F) -> V {
    match catch_unwind(AssertUnwindSafe(f)) {
        Ok(b) => V::bool(b),
        Err(_) => V::atom("panic"),
    }
}

macro_rules! impl_subject_unweighted {
    ($t:ty, $tog:expr) => {
        impl Subject for $t {
            const WEIGHTED: bool = false;
            fn apply(&mut self, op: &HOp) -> Option<V> {
                match *op {
                    HOp::Add(u, v) => Some(unit_or_panic(|| self.add_arc(u, v))),
                    HOp::Rem(u, v) => Some(bool_or_panic(|| self.remove_arc(u, v))),
                    HOp::Tog(u, v) => {
                        let f: Option<fn(&mut $t, usize, usize)> = $tog;
                        let f = f?;
                        Some(unit_or_panic(|| f(self, u, v)))
                    }
                    HOp::AddW(..) => None,
                }
            }
            fn order_(&self) -> usize {
                self.order()
            }
            fn verts_(&self) -> Vec<usize> {
                self.vertices().collect()
            }
            fn arcs_(&self) -> Vec<(usize, usize, i128)> {
                self.arcs().map(|(u, v)| (u, v, 1)).collect()
            }
            fn plain_arcs_(&self) -> Vec<(usize, usize)> {
                self.arcs().collect()
            }
            fn arcs_interleaved_(&self) -> Vec<(usize, usize)> {
                let mut a = self.arcs();
                let mut b = self.arcs();
                let mut out = vec![];
                loop {
                    let x = a.next();
                    let y = b.next();
                    if let Some(p) = y {
                        out.push(p);
                    }
                    if x.is_none() && y.is_none() {
                        break;
                    }
                }
                out
            }
            fn size_(&self) -> usize {
                self.size()
            }
            fn weight_(&self, u: usize, v: usize) -> Option<i128> {
                if self.has_arc(u, v) {
                    Some(1)
                } else {
                    None
                }
            }
        }
    };
}

impl_subject_unweighted!(AdjacencyList, None);
impl_subject_unweighted!(AdjacencyMap, None);
impl_subject_unweighted!(EdgeList, None);
impl_subject_unweighted!(AdjacencyMatrix, Some(AdjacencyMatrix::toggle));

macro_rules! impl_subject_weighted {
    ($w:ty) => {
        impl Subject for AdjacencyListWeighted<$w> {
            const WEIGHTED: bool = true;
            fn apply(&mut self, op: &HOp) -> Option<V> {
                match *op {
                    HOp::AddW(u, v, w) => {
                        let w = <$w>::try_from(w).ok()?;
                        Some(unit_or_panic(|| self.add_arc_weighted(u, v, w)))
                    }
                    HOp::Rem(u, v) => Some(bool_or_panic(|| self.remove_arc(u, v))),
                    _ => None,
                }
            }
            fn order_(&self) -> usize {
                self.order()
            }
            fn verts_(&self) -> Vec<usize> {
                self.vertices().collect()
            }
            fn arcs_(&self) -> Vec<(usize, usize, i128)> {
                self.arcs_weighted().map(|(u, v, w)| (u, v, *w as i128)).collect()
            }
            fn plain_arcs_(&self) -> Vec<(usize, usize)> {
                self.arcs().collect()
            }
            fn arcs_interleaved_(&self) -> Vec<(usize, usize)> {
                let mut a = self.arcs();
                let mut b = self.arcs();
                let mut out = vec![];
                loop {
                    let x = a.next();
                    let y = b.next();
                    if let Some(p) = y {
                        out.push(p);
                    }
                    if x.is_none() && y.is_none() {
                        break;
                    }
                }
                out
            }
            fn size_(&self) -> usize {
                self.size()
            }
            fn weight_(&self, u: usize, v: usize) -> Option<i128> {
                let w = self.arc_weight(u, v).map(|w| *w as i128);
                // `has_arc` must agree with `arc_weight`; a disagreement is made visible as an
                // impossible weight so that both verdict kinds fire on it
                if self.has_arc(u, v) != w.is_some() {
                    return Some(i128::from(i64::MIN));
                }
                w
            }
        }
    };
}

impl_subject_weighted!(usize);
impl_subject_weighted!(isize);

/// Run `$body` with `$d` bound to the real digraph of whichever representation `$desc` names.
#[macro_export]
macro_rules! with_subject {
    ($desc:expr, $d:ident => $body:expr) => {{
        let desc__: &$crate::graphs::Desc = $desc;
        match desc__.repr.as_str() {
            "al" => { let mut $d = desc__.build_al(); Some($body) }
            "am" => { let mut $d = desc__.build_am(); Some($body) }
            "mx" => { let mut $d = desc__.build_mx(); Some($body) }
            "el" => { let mut $d = desc__.build_el(); Some($body) }
            "wu" => { let mut $d = desc__.build_wu(); Some($body) }
            "wi" => { let mut $d = desc__.build_wi(); Some($body) }
            _ => None,
        }
    }};
}

// ------------------------------------------------------------------------------ observation

pub fn show_arc(weighted: bool, a: (usize, usize, i128)) -> V {
    if weighted {
        V::L(vec![V::u(a.0), V::u(a.1), V::I(a.2)])
    } else {
        V::L(vec![V::u(a.0), V::u(a.1)])
    }
}

pub fn show_arcs(weighted: bool, arcs: &[(usize, usize, i128)]) -> V {
    V::L(arcs.iter().map(|&a| show_arc(weighted, a)).collect())
}

pub fn show_w(o: Option<i128>) -> V {
    match o {
        None => V::atom("false"),
        Some(w) => V::I(w),
    }
}

const HASH_P: u128 = (1u128 << 61) - 1;
const HASH_B: u128 = 1_000_003;

fn mix(h: u128, x: u128) -> u128 {
    (h * HASH_B + x) % HASH_P
}

/// Rolling hash of `vertices()` then the arcs in iteration order (shared with the driver).
pub fn digest(verts: &[usize], arcs: &[(usize, usize, i128)]) -> u128 {
    let mut h: u128 = 7;
    for &x in verts {
        h = mix(h, x as u128 + 1);
    }
    h = mix(h, 0);
    for &(u, v, w) in arcs {
        h = mix(h, u as u128 + 1);
        h = mix(h, v as u128 + 1);
        h = mix(h, (w + (1i128 << 70)) as u128);
    }
    h
}

pub fn universe(desc: &Desc, ops: &[HOp]) -> Vec<usize> {
    let mut u: std::collections::BTreeSet<usize> = desc.verts.iter().copied().collect();
    let m = desc.verts.iter().copied().max().map_or(0, |x| x + 1);
    let _ = u.insert(m);
    let _ = u.insert(m + 1);
    for op in ops {
        let (a, b) = op.ends();
        let _ = u.insert(a);
        let _ = u.insert(b);
    }
    u.into_iter().collect()
}

pub const FULL_LIMIT: usize = 12;

fn obs_full<D: Subject>(d: &D, uni: &[usize], out: &mut Vec<V>) {
    let arcs = d.arcs_();
    out.push(V::u(d.order_()));
    out.push(V::us(d.verts_()));
    out.push(show_arcs(D::WEIGHTED, &arcs));
    out.push(V::u(d.size_()));
    let mut has = vec![];
    for &u in uni {
        for &v in uni {
            if let Some(w) = d.weight_(u, v) {
                has.push(show_arc(D::WEIGHTED, (u, v, w)));
            }
        }
    }
    out.push(V::L(has));
}

fn obs_digest<D: Subject>(d: &D, probe: Option<(usize, usize)>, out: &mut Vec<V>) {
    let verts = d.verts_();
    let arcs = d.arcs_();
    out.push(V::u(d.order_()));
    out.push(V::u(verts.len()));
    out.push(V::u(d.size_()));
    out.push(V::I(digest(&verts, &arcs) as i128));
    let probes = match probe {
        Some((u, v)) => vec![show_w(d.weight_(u, v)), show_w(d.weight_(v, u))],
        None => vec![],
    };
    out.push(V::L(probes));
}

pub fn obs_final<D: Subject>(d: &D) -> V {
    let mut out = vec![V::atom("final"), V::u(d.order_()), V::us(d.verts_()), show_arcs(D::WEIGHTED, &d.arcs_())];
    if D::WEIGHTED {
        out.push(V::pairs(d.plain_arcs_()));
    }
    out.push(V::pairs(d.arcs_interleaved_()));
    V::L(out)
}

/// Run a history on `d`, one output value per step. `None` = unsupported op.
pub fn run_history<D: Subject>(d: &mut D, desc: &Desc, ops: &[HOp]) -> Option<Vec<V>> {
    let uni = universe(desc, ops);
    let full = uni.len() <= FULL_LIMIT;
    let mut outs = vec![];
    let mut first = vec![V::atom("start")];
    if full {
        obs_full(d, &uni, &mut first);
    } else {
        obs_digest(d, None, &mut first);
    }
    outs.push(V::L(first));
    for op in ops {
        let ret = d.apply(op)?;
        let mut step = vec![ret];
        if full {
            obs_full(d, &uni, &mut step);
        } else {
            obs_digest(d, Some(op.ends()), &mut step);
        }
        outs.push(V::L(step));
    }
    outs.push(obs_final(d));
    Some(outs)
}

pub fn eval(op: &str, args: &[V]) -> Option<Vec<V>> {
    match op {
        "repr_obs" => {
            let [d] = args else { return None };
            let desc = Desc::parse(d)?;
            with_subject!(&desc, g => {
                let arcs = g.arcs_();
                let w = desc.weighted();
                let _ = &mut g;
                vec![V::L(vec![V::u(g.order_()), V::us(g.verts_()), show_arcs(w, &arcs)])]
            })
        }
        "repr_history" => {
            let [repr, start, ops] = args else { return None };
            let desc = Desc::parse(start)?;
            if repr.as_atom()? != desc.repr {
                return None;
            }
            let ops = parse_ops(ops)?;
            with_subject!(&desc, g => run_history(&mut g, &desc, &ops))?
        }
        _ => None,
    }
}

// ------------------------------------------------------------------------------ generator

/// Vertex arguments far outside every digraph: powers of two near the top of `usize`, the
/// top itself, and the multiples of `2^64 / order` (± 1), where `u * order` wraps to a small value.
pub fn extreme_id(rng: &mut Rng, order: usize) -> usize {
    let order = order.max(1) as u128;
    match rng.below(8) {
        0 => 1usize << 62,
        1 => (1usize << 62) + 1 + rng.below(3),
        2 => 1usize << 63,
        3 => (1usize << 63) + rng.below(3),
        4 => usize::MAX - rng.below(2),
        5 => usize::MAX / 2 + rng.below(2),
        _ => {
            // ceil / floor of k * 2^64 / order, k in 1..order, plus a small offset
            let k = 1 + rng.below(order as usize) as u128;
            let q = (k << 64) / order;
            let x = q + rng.below(3) as u128;
            if x > usize::MAX as u128 { usize::MAX } else { x as usize }
        }
    }
}

/// A history of `len` calls for representation `repr` over the start `desc`.
/// 80 % valid / 20 % invalid arguments; valid ones biased to a few hot pairs so that
/// add → remove → re-add, double remove, toggle twice and weight replacement occur.
pub fn gen_ops(rng: &mut Rng, repr: &str, desc: &Desc, len: usize) -> Vec<HOp> {
    let weighted = repr == "wu" || repr == "wi";
    let ids: Vec<usize> = desc.verts.clone();
    let n = ids.len();
    let top = ids.iter().copied().max().map_or(0, |x| x + 1);
    let pick_pair = |rng: &mut Rng| -> Option<(usize, usize)> {
        if n < 2 {
            return None;
        }
        let a = rng.below(n);
        let mut b = rng.below(n - 1);
        if b >= a {
            b += 1;
        }
        Some((ids[a], ids[b]))
    };
    let mut hot: Vec<(usize, usize)> = vec![];
    if let Some((a, b)) = pick_pair(rng) {
        hot.push((a, b));
        hot.push((b, a));
        for _ in 0..rng.below(3) {
            if let Some(p) = pick_pair(rng) {
                hot.push(p);
            }
        }
    }
    let mut ops = vec![];
    for _ in 0..len {
        let invalid = rng.chance(1, 5) || hot.is_empty();
        let (u, v) = if invalid {
            let x = if n > 0 { ids[rng.below(n)] } else { 0 };
            match rng.below(8) {
                0 | 1 => (x, x),                 // self-loop
                2 => (top, x),                   // u = order
                3 => (x, top + rng.below(top + 2)), // v = order .. 2*order+1 (may alias an in-range cell)
                4 => {
                    // far-out id (the map admits it)
                    if rng.chance(1, 2) { (x, 1usize << 40) } else { (1usize << 40, x) }
                }
                _ => {
                    // extreme ids: around 2^62, 2^63, usize::MAX and k * 2^64 / order (index
                    // arithmetic `u * order + v` wraps there when overflow checks are off)
                    let e = extreme_id(rng, top);
                    if rng.chance(2, 3) { (e, x) } else { (x, e) }
                }
            }
        } else if rng.chance(7, 10) {
            *rng.pick(&hot)
        } else {
            pick_pair(rng).expect("n >= 2")
        };
        let k = rng.below(100);
        let op = if repr == "mx" {
            if k < 35 { HOp::Add(u, v) } else if k < 70 { HOp::Rem(u, v) } else { HOp::Tog(u, v) }
        } else if weighted {
            let w: i128 = if rng.chance(1, 20) {
                // extreme weights are only stored, never added up here
                if repr == "wu" {
                    *rng.pick(&[usize::MAX as i128, 1i128 << 62, (1i128 << 63) + 1])
                } else {
                    *rng.pick(&[isize::MAX as i128, isize::MIN as i128, -(1i128 << 62), 1i128 << 50])
                }
            } else if repr == "wu" {
                i128::from(rng.range(0, 5))
            } else {
                i128::from(rng.range(-3, 3))
            };
            if k < 55 { HOp::AddW(u, v, w) } else { HOp::Rem(u, v) }
        } else if k < 55 {
            HOp::Add(u, v)
        } else {
            HOp::Rem(u, v)
        };
        ops.push(op);
    }
    ops
}

/// A start digraph: `empty(n)` or a random description (sparse for big orders so that the
/// per-step digests stay cheap); the map sometimes over non-contiguous ids.
pub fn gen_start(rng: &mut Rng, repr: &str) -> Desc {
    let weighted = repr == "wu" || repr == "wi";
    if rng.chance(1, 2) {
        let n = graphs::gen_order(rng, 130);
        return Desc { repr: repr.to_string(), verts: (0..n).collect(), arcs: vec![], weights: vec![] };
    }
    if repr == "am" && rng.chance(1, 2) {
        return graphs::gen_am_sparse(rng, 8).1;
    }
    let mut d = if weighted {
        let (lo, hi) = if repr == "wu" { (0, 5) } else { (-3, 3) };
        graphs::gen_wdesc(rng, repr, 130, lo, hi).1
    } else {
        graphs::gen_desc(rng, repr, 130).1
    };
    let cap = 4 * d.verts.len() + 8;
    if d.arcs.len() > cap && d.verts.len() > 10 {
        d.arcs.truncate(cap);
        d.weights.truncate(cap);
    }
    d
}

fn emit_history(emit: &mut dyn FnMut(String), repr: &str, desc: &Desc, ops: &[HOp]) {
    emit(format!("repr_history {repr} {} {}", desc.to_v(), show_ops(ops)));
}

/// Every history of length ≤ `max_len` over `n` vertices (all `n²` pairs incl. self-loops).
fn gen_exhaustive(emit: &mut dyn FnMut(String), repr: &str, n: usize, max_len: usize) {
    let weighted = repr == "wu" || repr == "wi";
    let mut alphabet: Vec<HOp> = vec![];
    for u in 0..n {
        for v in 0..n {
            if weighted {
                alphabet.push(HOp::AddW(u, v, 1));
                if u == 0 {
                    alphabet.push(HOp::AddW(u, v, 2));
                }
            } else {
                alphabet.push(HOp::Add(u, v));
            }
            alphabet.push(HOp::Rem(u, v));
            if repr == "mx" {
                alphabet.push(HOp::Tog(u, v));
            }
        }
    }
    let desc = Desc { repr: repr.to_string(), verts: (0..n).collect(), arcs: vec![], weights: vec![] };
    let k = alphabet.len();
    for len in 0..=max_len {
        let total = k.pow(len as u32);
        for code in 0..total {
            let mut c = code;
            let mut ops = Vec::with_capacity(len);
            for _ in 0..len {
                ops.push(alphabet[c % k].clone());
                c /= k;
            }
            emit_history(emit, repr, &desc, &ops);
        }
    }
}

pub fn gen(rng: &mut Rng, thorough: bool, emit: &mut dyn FnMut(String)) {
    // shortest lines first: the first failing case the orchestrator sees is a small one
    let mut lines: Vec<String> = vec![];
    gen_unsorted(rng, thorough, &mut |s| lines.push(s));
    lines.sort_by_key(String::len);
    for l in lines {
        emit(l);
    }
}

/// Out-of-distribution stream (`gharness gen C01 <seed> stress`): big bit matrices whose cells
/// need more than 21 bits (orders 1649..2100, 2048, 4096), arcs in the highest rows and the last
/// columns, a few calls with extreme vertex arguments; other representations at order ~2000.
fn gen_stress(rng: &mut Rng, emit: &mut dyn FnMut(String)) {
    let mut orders: Vec<usize> = vec![2048, 1649, 2049, 4096, 2047, 1650, 3000, 1024, 513, 257];
    for _ in 0..8 {
        orders.push(1649 + rng.below(452));
    }
    for (i, &n) in orders.iter().enumerate() {
        let reprs: &[&str] = if i < 6 { &["mx"] } else { &["mx", "al", "el"] };
        for repr in reprs {
            let desc = Desc { repr: (*repr).to_string(), verts: (0..n).collect(), arcs: vec![], weights: vec![] };
            let mut ops = vec![];
            // the last column in the upper half of the rows, the last rows, the corners
            let highs = [n - 1, n - 2, n - 3, n / 2, n / 2 + 1, n / 2 - 1, 3 * n / 4];
            let cols = [n - 1, n - 2, 0, 1, n / 2];
            let len = if n >= 4096 { 6 } else { 14 };
            for j in 0..len {
                let u = if j < highs.len() { highs[j] } else { n / 2 + rng.below(n - n / 2) };
                let v = if j % 3 != 2 { n - 1 } else { *rng.pick(&cols) };
                if u == v {
                    ops.push(HOp::Add(u, v - 1));
                    continue;
                }
                ops.push(if *repr == "mx" && rng.chance(1, 4) { HOp::Tog(u, v) } else { HOp::Add(u, v) });
            }
            let e = extreme_id(rng, n);
            ops.push(HOp::Add(e, n - 1));
            if *repr == "mx" {
                ops.push(HOp::Tog(extreme_id(rng, n), 1));
            }
            ops.push(HOp::Rem(n - 2, n - 1));
            ops.push(HOp::Rem(n - 2, n - 1));
            ops.push(HOp::Rem(n - 1, n + rng.below(n)));
            emit_history(emit, repr, &desc, &ops);
        }
    }
    gen_extreme_args(rng, emit, 40);
}

/// Extreme tail / head arguments on small matrices of every order `1..=max` (with overflow
/// checks off `u * order + v` wraps there: the `release` variant is what makes this visible).
fn gen_extreme_args(rng: &mut Rng, emit: &mut dyn FnMut(String), max: usize) {
    for n in 1..=max {
        let desc = Desc { repr: "mx".to_string(), verts: (0..n).collect(), arcs: vec![], weights: vec![] };
        let mut ops = vec![];
        for _ in 0..24 {
            let e = extreme_id(rng, n);
            let v = rng.below(n);
            ops.push(match rng.below(5) {
                0 | 1 => HOp::Add(e, v),
                2 | 3 => HOp::Tog(e, v),
                _ => HOp::Rem(e, v),
            });
        }
        emit_history(emit, "mx", &desc, &ops);
    }
}

fn gen_unsorted(rng: &mut Rng, thorough: bool, emit: &mut dyn FnMut(String)) {
    if crate::stress() {
        // most promising first; the orchestrator's search budget is short, so ONLY these
        gen_stress(rng, emit);
        return;
    }
    // (1) the construction correspondence `repr_obs` (seed op): descriptions of every family
    let n_obs = if thorough { 600 } else { 25 };
    for _ in 0..n_obs {
        for repr in graphs::UNWEIGHTED {
            let (_, d) = graphs::gen_desc(rng, repr, 130);
            emit(format!("repr_obs {}", d.to_v()));
        }
        let (_, d) = graphs::gen_am_sparse(rng, 12);
        emit(format!("repr_obs {}", d.to_v()));
        let (_, d) = graphs::gen_wdesc(rng, "wi", 60, -5, 9);
        emit(format!("repr_obs {}", d.to_v()));
        let (_, d) = graphs::gen_wdesc(rng, "wu", 60, 0, 9);
        emit(format!("repr_obs {}", d.to_v()));
    }
    // (2) random histories, all six representations
    let per_repr = if thorough { 1000 } else { 110 };
    for _ in 0..per_repr {
        for repr in graphs::ALL_REPRS {
            let desc = gen_start(rng, repr);
            let len = rng.below(61);
            let ops = gen_ops(rng, repr, &desc, len);
            emit_history(emit, repr, &desc, &ops);
        }
    }
    // (2b) extreme vertex arguments on small matrices (see `gen_extreme_args`)
    gen_extreme_args(rng, emit, if thorough { 40 } else { 16 });
    // (3) exhaustive small scope: every history of length ≤ L over 3 vertices
    if thorough {
        gen_exhaustive(emit, "al", 3, 4);
        gen_exhaustive(emit, "mx", 3, 3);
        gen_exhaustive(emit, "el", 3, 3);
        gen_exhaustive(emit, "am", 3, 3);
        gen_exhaustive(emit, "wi", 3, 3);
    } else {
        gen_exhaustive(emit, "mx", 2, 2);
        gen_exhaustive(emit, "al", 2, 2);
        gen_exhaustive(emit, "am", 2, 2);
        gen_exhaustive(emit, "wi", 2, 1);
    }
}
