//! C01 — ops evaluated on the real code and the generator of their inputs.
//!
//!   repr_obs <desc>  =>  [order [vertices] [arcs]]     build through the public API, observe
#![allow(unused_imports, dead_code, clippy::all)]

use crate::graphs::{self, Desc};
use crate::rng::Rng;
use crate::value::V;

pub fn eval(op: &str, args: &[V]) -> Option<Vec<V>> {
    match op {
        "repr_obs" => {
            let [d] = args else { return None };
            let desc = Desc::parse(d)?;
            Some(vec![match desc.repr.as_str() {
                "al" => graphs::observe(&desc.build_al()),
                "am" => graphs::observe(&desc.build_am()),
                "mx" => graphs::observe(&desc.build_mx()),
                "el" => graphs::observe(&desc.build_el()),
                "wu" => {
                    let d = desc.build_wu();
                    V::L(vec![
                        V::u(graaf::Order::order(&d)),
                        V::us(graaf::Vertices::vertices(&d)),
                        V::L(graaf::ArcsWeighted::arcs_weighted(&d)
                            .map(|(u, v, w)| V::L(vec![V::u(u), V::u(v), V::u(*w)]))
                            .collect()),
                    ])
                }
                "wi" => {
                    let d = desc.build_wi();
                    V::L(vec![
                        V::u(graaf::Order::order(&d)),
                        V::us(graaf::Vertices::vertices(&d)),
                        V::L(graaf::ArcsWeighted::arcs_weighted(&d)
                            .map(|(u, v, w)| V::L(vec![V::u(u), V::u(v), V::i(*w)]))
                            .collect()),
                    ])
                }
                _ => return None,
            }])
        }
        _ => None,
    }
}

pub fn gen(rng: &mut Rng, thorough: bool, emit: &mut dyn FnMut(String)) {
    let n = if thorough { 3000 } else { 300 };
    for _ in 0..n {
        for repr in graphs::UNWEIGHTED {
            let (_, d) = graphs::gen_desc(rng, repr, 130);
            emit(format!("repr_obs {}", d.to_v()));
        }
        let (_, d) = graphs::gen_am_sparse(rng, 12);
        emit(format!("repr_obs {}", d.to_v()));
        let (_, d) = graphs::gen_wdesc(rng, "wi", 60, -5, 9);
        emit(format!("repr_obs {}", d.to_v()));
        let (_, d) = graphs::gen_wdesc(rng, "wu", 60, 0, 9);
        emit(format!("repr_obs {}", d.to_v()));
    }
}
